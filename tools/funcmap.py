#!/usr/bin/env python3
"""funcmap.py — the function-level map between /repo/src and the Lean model, checked on every run.

`tools/funcmap.json` (built by `--build` from the hand-audited table in notes/COVERAGE.md, then committed) lists every non-test
function of the crate with its status (MODELLED / PARAMETER / EXERCISED-ONLY / NOT-COVERED / TRIVIAL), the Lean definitions that
mirror it, the properties whose files name it, and the sha256 of its source text on the tree the checks were last validated on.

`diff(repo)` re-extracts the functions from the working tree and reports
  * changed   : functions whose text differs from the recorded one (with status and Lean defs: where to look when a tie breaks),
  * added     : functions the map does not know (code outside the model),
  * removed   : functions of the map that are gone,
  * stale_lean: Lean definitions named by the map that no longer exist in lean/RpmVerif.
None of these is a verdict. `check` writes them into the evidence (`function_map`) and into the replay file of a broken tie, and a
change to a function that is MODELLED for the property at hand makes the quick tier run its extra seeds (as the whole-tree
fingerprint does).  `--record` refreshes the hashes from a clean /repo; `--report` prints the diff.
"""
import hashlib, json, os, re, subprocess, sys

REPO = "/repo"
HERE = os.path.dirname(os.path.abspath(__file__))
VERIF = os.path.dirname(HERE)
MAP = os.path.join(HERE, "funcmap.json")
FN_RE = re.compile(r"^\s*(?:pub(?:\([a-z]+\))?\s+)?(?:const\s+)?(?:unsafe\s+)?fn\s+([A-Za-z_][A-Za-z0-9_]*)")


def extract(repo=REPO):
    """[(relpath, line, fn name, impl context, sha256 of the item text)] for every non-test fn under src/"""
    out = []
    for root, _, names in os.walk(os.path.join(repo, "src")):
        for n in sorted(names):
            if not n.endswith(".rs") or n == "tests.rs":
                continue
            path = os.path.join(root, n)
            rel = os.path.relpath(path, os.path.join(repo, "src"))
            lines = open(path, encoding="utf-8", errors="replace").read().split("\n")
            # skip `#[cfg(test)] mod … { … }` to the end of the file (the crate keeps test modules last)
            cut = len(lines)
            for i, l in enumerate(lines):
                if (l.strip().startswith("#[cfg(test)]") and i + 1 < len(lines) and re.match(r"\s*(pub(\(crate\))?\s+)?mod\s", lines[i + 1])) \
                        or re.match(r"^(pub(\(crate\))?\s+)?mod\s+tests?\s*\{", l):
                    cut = i
                    break
            ctx = ""
            i = 0
            while i < cut:
                l = lines[i]
                m_impl = re.match(r"^(?:unsafe\s+)?impl\b(.*?)\s*(?:\{|where|$)", l)
                if m_impl and not l.startswith(" "):
                    ctx = re.sub(r"\s+", " ", m_impl.group(1)).strip()
                if re.match(r"^(pub\s+)?(trait)\b", l):
                    ctx = re.sub(r"\s+", " ", l.strip().rstrip("{")).strip()
                if l.startswith("}"):
                    pass
                m = FN_RE.match(l)
                if m:
                    # item text: from this line to the matching close brace (or `;` for a declaration)
                    depth, j, started = 0, i, False
                    text = []
                    while j < cut:
                        t = lines[j]
                        text.append(t)
                        code = re.sub(r'"(?:[^"\\]|\\.)*"', '""', t)
                        code = re.sub(r"'(?:[^'\\]|\\.)'", "''", code)
                        code = code.split("//")[0]
                        for ch in code:
                            if ch == "{":
                                depth += 1
                                started = True
                            elif ch == "}":
                                depth -= 1
                        if started and depth <= 0:
                            break
                        if not started and code.rstrip().endswith(";"):
                            break
                        j += 1
                    body = "\n".join(x.rstrip() for x in text)
                    top = not l.startswith(" ")
                    out.append((rel, i + 1, m.group(1), "" if top else ctx, hashlib.sha256(body.encode()).hexdigest()[:16]))
                    i = j + 1
                    continue
                i += 1
    return out


def lean_defs():
    names = set()
    for root, _, fs in os.walk(os.path.join(VERIF, "lean", "RpmVerif")):
        for f in fs:
            if f.endswith(".lean"):
                for m in re.finditer(r"^\s*(?:@\[[^\]]*\]\s*)?(?:private\s+|protected\s+)?(?:partial\s+)?(?:def|abbrev|structure|inductive|theorem)\s+([A-Za-z_][A-Za-z0-9_.'!?]*)",
                                     open(os.path.join(root, f), encoding="utf-8").read(), re.M):
                    names.add(m.group(1))
                    names.add(m.group(1).split(".")[-1])
    return names


def build():
    """parse the table rows of notes/COVERAGE.md into funcmap.json (status, lean defs, properties), keyed by file + fn name"""
    rows = []
    DEFS = lean_defs()   # only names that ARE Lean definitions now are kept, so that a later disappearance is meaningful
    for l in open(os.path.join(VERIF, "notes", "COVERAGE.md"), encoding="utf-8"):
        if not l.startswith("| ") or l.startswith("| Rust item") or l.startswith("|---"):
            continue
        c = [x.strip() for x in l.strip().strip("|").split(" | ")]
        if len(c) < 5:
            continue
        m = re.match(r"([A-Za-z_/]+\.rs):(\d+)(?:/\d+)*\s+`([^`]*)`", c[0])
        if not m:
            continue
        item = m.group(3)
        fn = re.findall(r"[A-Za-z_][A-Za-z0-9_]*", re.sub(r"\{.*?\}", "", item))
        status = re.match(r"\**([A-Z\-]+)", c[2])
        lean = sorted(d for d in set(re.findall(r"`([A-Za-z_][A-Za-z0-9_.']*)`", c[1])) if d in DEFS or d.split(".")[-1] in DEFS)
        props = sorted(set(re.findall(r"\bP/(C\d\d|Pipeline)", c[3]) + re.findall(r"h/c(\d\d)\.rs", c[4].lower())))
        props = sorted(set(("C" + p) if p.isdigit() else p for p in props))
        rows.append({"file": m.group(1).replace("rpm/", "rpm/"), "line": int(m.group(2)), "item": item, "fn": fn[-1] if fn else item,
                     "status": status.group(1) if status else "?", "lean": lean, "properties": props})
    cur = extract()
    # attach hashes: match by (file, fn name), nearest line
    for r in rows:
        cands = [e for e in cur if e[0] == r["file"] and e[2] == r["fn"]]
        if cands:
            e = min(cands, key=lambda e: abs(e[1] - r["line"]))
            r["sha"] = e[4]
            r["ctx"] = e[3]
    head = subprocess.run(["git", "-C", REPO, "rev-parse", "--short", "HEAD"], stdout=subprocess.PIPE, text=True).stdout.strip()
    json.dump({"repo_head": head, "functions": rows}, open(MAP, "w"), indent=0)
    print(f"funcmap.json: {len(rows)} rows, {sum(1 for r in rows if 'sha' in r)} matched to source items, {len(cur)} items in source")


def record():
    m = json.load(open(MAP))
    cur = extract()
    for r in m["functions"]:
        cands = [e for e in cur if e[0] == r["file"] and e[2] == r["fn"]]
        if "ctx" in r:
            same = [e for e in cands if e[3] == r["ctx"]]
            cands = same or cands
        if cands:
            e = min(cands, key=lambda e: abs(e[1] - r["line"]))
            r["sha"], r["line"], r["ctx"] = e[4], e[1], e[3]
        else:
            r.pop("sha", None)
    m["repo_head"] = subprocess.run(["git", "-C", REPO, "rev-parse", "--short", "HEAD"], stdout=subprocess.PIPE, text=True).stdout.strip()
    json.dump(m, open(MAP, "w"), indent=0)
    print("recorded", m["repo_head"])


def diff(repo=REPO, prop=None):
    try:
        m = json.load(open(MAP))
    except OSError:
        return {"available": False}
    cur = extract(repo)
    by_key = {}
    for e in cur:
        by_key.setdefault((e[0], e[2]), []).append(e)
    changed, removed = [], []
    seen = set()
    for r in m["functions"]:
        cands = by_key.get((r["file"], r["fn"]), [])
        if "ctx" in r:
            same = [e for e in cands if e[3] == r["ctx"]]
            cands = same or cands
        if not cands:
            if "sha" in r:
                removed.append(r)
            continue
        e = min(cands, key=lambda e: abs(e[1] - r["line"]))
        seen.add((e[0], e[1]))
        if "sha" in r and not any(x[4] == r["sha"] for x in cands):
            changed.append(r)
    known = {(r["file"], r["fn"]) for r in m["functions"]}
    added = [e for e in cur if (e[0], e[2]) not in known]
    defs = lean_defs()
    stale = sorted({d for r in m["functions"] if r["status"] == "MODELLED" for d in r["lean"]
                    if d not in defs and d.split(".")[-1] not in defs and not d.endswith(".lean") and "/" not in d})
    st = {}
    for r in m["functions"]:
        st[r["status"]] = st.get(r["status"], 0) + 1
    def brief(r):
        return {"fn": f"{r['file']}:{r['line']} {r['item']}", "status": r["status"], "lean": r["lean"][:4], "properties": r["properties"]}
    res = {"available": True, "recorded_at_repo_head": m.get("repo_head"), "functions_in_map": len(m["functions"]), "by_status": st,
           "changed": [brief(r) for r in changed], "removed": [brief(r) for r in removed],
           "added": [f"{e[0]}:{e[1]} {e[3] + '::' if e[3] else ''}{e[2]}" for e in added], "stale_lean_defs": stale}
    if prop:
        res["changed_modelled_for_property"] = [b["fn"] for b, r in zip(res["changed"], changed) if prop in r["properties"] and r["status"] in ("MODELLED", "EXERCISED-ONLY")]
    return res


if __name__ == "__main__":
    if "--build" in sys.argv:
        build()
    elif "--record" in sys.argv:
        record()
    else:
        print(json.dumps(diff(prop=(sys.argv[sys.argv.index("--prop") + 1] if "--prop" in sys.argv else None)), indent=1))
