#!/bin/sh
# harness_coverage.sh [property…] : which lines of /repo/src do the correspondence generators actually execute?
# Builds the harness with source-based coverage instrumentation (nightly toolchain, its own llvm-tools), runs every named
# property's QUICK generators (all shards of the check, seed 1) and writes
#   notes/coverage/<property>.txt   uncovered source lines of /repo/src per file for that property's run
#   notes/coverage/ALL.txt          the same for the union of all runs, plus a per-file summary
# This is an aid for finding blind spots of the differential tie (a line no generator reaches is a line where a change to the
# code cannot be noticed by the correspondence); it is not part of any verdict.  Scratch output lives under /root/covwork and
# /root/covtarget (removed by `harness_coverage.sh --clean`).
set -u
V=$(cd "$(dirname "$0")/.." && pwd)
TC=nightly
BIN=$(dirname "$(rustup which --toolchain $TC rustc)")/../lib/rustlib/x86_64-unknown-linux-gnu/bin
W=/root/covwork
T=/root/covtarget
if [ "${1:-}" = "--clean" ]; then rm -rf $W $T; exit 0; fi
PROPS=${*:-C01 C02 C03 C04 C05 C06 C07 C08 C09 C10 C11 C12 C13 C14 C15 C16 C17 C18 C19 C20}
mkdir -p $W "$V/notes/coverage"
( cd "$V/harness" && CARGO_NET_OFFLINE=true RUSTFLAGS="--cfg rpm_verif --check-cfg cfg(rpm_verif) -C instrument-coverage" \
    cargo +$TC build --release --offline --target-dir $T >$W/build.log 2>&1 ) || { echo "instrumented build failed, see $W/build.log"; exit 1; }
H=$T/release/harness
for P in $PROPS; do
  rm -rf $W/$P && mkdir -p $W/$P
  N=$(python3 -c "import sys; sys.path.insert(0,'$V/tools'); import importlib; print(importlib.import_module('propcfg.$P').CFG.get('shards',{}).get('quick',1))")
  i=0
  while [ $i -lt $N ]; do
    ( cd "$V" && LLVM_PROFILE_FILE="$W/$P/%p-%m.profraw" timeout 1800 $H $P --seed 1 --tier quick --shard $i/$N --out /dev/null >/dev/null 2>&1 ) &
    i=$((i+1))
  done
  wait
  $BIN/llvm-profdata merge -sparse $W/$P/*.profraw -o $W/$P.profdata 2>/dev/null
  rm -rf $W/$P
  $BIN/llvm-cov export $H -instr-profile=$W/$P.profdata -format=lcov --ignore-filename-regex='(registry|rustc|harness/src)' > $W/$P.lcov 2>/dev/null
  python3 "$V/tools/lcov_uncovered.py" $W/$P.lcov > "$V/notes/coverage/$P.txt"
  echo "$P $(tail -1 "$V/notes/coverage/$P.txt")"
done
$BIN/llvm-profdata merge -sparse $W/*.profdata -o $W/ALL.profdata
$BIN/llvm-cov export $H -instr-profile=$W/ALL.profdata -format=lcov --ignore-filename-regex='(registry|rustc|harness/src)' > $W/ALL.lcov
python3 "$V/tools/lcov_uncovered.py" $W/ALL.lcov > "$V/notes/coverage/ALL.txt"
echo "ALL $(tail -1 "$V/notes/coverage/ALL.txt")"
