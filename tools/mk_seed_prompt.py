#!/usr/bin/env python3
"""mk_seed_prompt.py <property> <flavour A|B|C|D> <n1> <n2> : creates a scratch worktree /tmp/seed/wt/<property>-<n1> of /repo HEAD,
the output directory /tmp/seed/out/<property>/, and prints the brief for a fresh seeding sub-agent (tools/seed_prompt.md)."""
import sys, json, os, subprocess, re
P, fl, n1, n2 = sys.argv[1:5]
here = os.path.dirname(os.path.abspath(__file__))
tpl = open(os.path.join(here, "seed_prompt.md")).read()
body = tpl.split("\n\n", 1)[1]
body, flav = body.split("Emphasis lines ({FLAVOUR}), rotated over the agents:")
flavours = {m.group(1): m.group(2).strip() for m in re.finditer(r"^\s+([A-D])\. (.*)$", flav, re.M)}
prop = None
for l in open(os.path.join(here, "..", "properties.jsonl")):
    r = json.loads(l)
    if r["id"] == P: prop = r
rec = {k: prop[k] for k in ("id", "title", "statement", "quantifier", "why_tests_cant", "anchors")}
wt = f"/tmp/seed/wt/{P}-{n1}"
out = f"/tmp/seed/out/{P}"
os.makedirs(out, exist_ok=True)
if not os.path.isdir(wt):
    os.makedirs("/tmp/seed/wt", exist_ok=True)
    subprocess.check_call(["git", "-C", "/repo", "worktree", "add", "-q", "--detach", wt, "HEAD"])
body = body.replace("{PROPERTY}", json.dumps(rec, indent=1)).replace("{WT}", wt).replace("{OUT}", out).replace("{FLAVOUR}", flavours[fl])
body = body.replace("n ∈ {1, 2}", f"n ∈ {{{n1}, {n2}}}").replace("{OUT}/n/", f"{out}/<n>/")
print(body.strip())
