"""C09: the (tag, data type) pairs that occur in the MAIN headers of the rpm-built packages under /repo/test_assets — the only piece of
rpm's tag table (lib/rpmtag.h -> tagtbl.C) that can be scraped in this sandbox: rpm writes every tag with the type its table gives it.
The Spec's transcription of the table (Spec/RpmTagTypes.lean) must agree with every pair (Props/C09.lean `asset_tag_types_agree`).
Packages whose RPMVERSION says they were written by rpm-rs are skipped."""
import glob, os, struct
from . import common
from .common import emit, degraded


def _header(b, off):
    if b[off:off + 3] != b"\x8e\xad\xe8":
        raise ValueError("no header magic")
    il, dl = struct.unpack(">II", b[off + 8:off + 16])
    ents = [struct.unpack(">IIiI", b[off + 16 + 16 * i:off + 32 + 16 * i]) for i in range(il)]
    store = b[off + 16 + 16 * il:off + 16 + 16 * il + dl]
    return ents, store, off + 16 + 16 * il + dl


def generate():
    pairs = set()
    files = sorted(glob.glob(os.path.join(common.REPO, "test_assets", "*.rpm")) +
                   glob.glob(os.path.join(common.REPO, "test_assets", "fixture_packages", "*.rpm")))
    used = []
    for p in files:
        try:
            b = open(p, "rb").read()
            _, _, end = _header(b, 96)
            ents, store, _ = _header(b, (end + 7) // 8 * 8)
        except Exception as e:
            degraded.append(("AssetTagTypes", f"{os.path.basename(p)}: {e!r}"))
            continue
        rpmversion = b""
        for t, ty, o, c in ents:
            if t == 1064 and ty == 6:
                rpmversion = store[o:store.index(b"\0", o)]
        if rpmversion.startswith(b"rpm-rs"):
            continue
        used.append(os.path.basename(p))
        for t, ty, o, c in ents[1:]:
            pairs.add((t, ty))
    if not used:
        degraded.append(("AssetTagTypes", "no rpm-built package found under test_assets"))
    body = "namespace RpmVerif.Gen\n"
    body += "/-- the (tag, type code) pairs of the main headers of the rpm-built packages in /repo/test_assets: " + ", ".join(used) + " -/\n"
    body += "def assetTagTypes : List (Nat × Nat) := [" + ", ".join(f"({t}, {ty})" for t, ty in sorted(pairs)) + "]\n"
    body += "end RpmVerif.Gen\n"
    emit("AssetTagTypes", body)
