"""C02 / C10: the (public-key algorithm -> legacy signature tag) arms of `SignatureHeaderBuilder::build`
(src/rpm/headers/signatures.rs), used by the model of the builder's `parse_signature` step (`Sign.builderTag`).

Read from the source text: the arms
    `PublicKeyAlgorithm::<A> [| PublicKeyAlgorithm::<B> ...] => IndexSignatureTag::<TAG>,`
of `let tag = match signature.config.pub_alg { .. }` and that the fall-through arm is
`a => return Err(crate::Error::UnsupportedPGPKeyType(a))`. The algorithm names are translated to their OpenPGP
numbers through `#[repr(u8)] pub enum PublicKeyAlgorithm` of the `pgp` crate the harness links (vendored source in the
cargo registry; version taken from /repo/Cargo.lock), the tag names through `enum IndexSignatureTag` of src/constants.rs."""
import glob, os, re
from . import common
from .common import read, emit, degraded

T = "SigLegacyTags"


def pgp_alg_numbers():
    lock = read("Cargo.lock")
    m = re.search(r'name = "pgp"\nversion = "([^"]+)"', lock)
    ver = m.group(1) if m else "*"
    cands = sorted(glob.glob(os.path.expanduser(f"~/.cargo/registry/src/*/pgp-{ver}/src/crypto/public_key.rs")))
    if not cands:
        degraded.append((T, f"source of the pgp crate ({ver}) not found in the cargo registry"))
        return {}
    src = open(cands[0], encoding="utf-8").read()
    en = re.search(r"pub\s+enum\s+PublicKeyAlgorithm\s*\{(.*?)\n\}", src, re.S)
    if not en:
        degraded.append((T, "enum PublicKeyAlgorithm not found in the pgp crate"))
        return {}
    return {k: int(v) for k, v in re.findall(r"^\s*(\w+)\s*=\s*(\d+)\s*,", en.group(1), re.M)}


def generate():
    src = read("src/rpm/headers/signatures.rs")
    consts = read("src/constants.rs")
    pairs = []
    m = re.search(r"let\s+tag\s*=\s*match\s+signature\.config\.pub_alg\s*\{(.*?)\n\s*\};", src, re.S)
    if not m:
        degraded.append((T, "`let tag = match signature.config.pub_alg {` not found in SignatureHeaderBuilder::build"))
    else:
        body = m.group(1)
        arms = re.findall(r"((?:\|?\s*PublicKeyAlgorithm::\w+\s*)+)=>\s*IndexSignatureTag::(\w+)\s*,", body)
        arrows = len(re.findall(r"=>", body))
        if arrows != len(arms) + 1:
            degraded.append((T, f"{arrows} match arms, {len(arms)} understood (+1 fall-through expected)"))
        if not re.search(r"\w+\s*=>\s*return\s+Err\(crate::Error::UnsupportedPGPKeyType\(", body):
            degraded.append((T, "fall-through arm `a => return Err(crate::Error::UnsupportedPGPKeyType(a))` not found"))
        algs = pgp_alg_numbers()
        en = re.search(r"pub\s+enum\s+IndexSignatureTag\s*\{(.*?)\n\}", consts, re.S)
        tags = dict(re.findall(r"(\w+)\s*=\s*(\d+)", en.group(1))) if en else {}
        if not tags:
            degraded.append((T, "enum IndexSignatureTag not found in src/constants.rs"))
        for names, tag in arms:
            for a in re.findall(r"PublicKeyAlgorithm::(\w+)", names):
                if a not in algs:
                    degraded.append((T, f"algorithm {a} has no number in the pgp crate's enum"))
                elif tag not in tags:
                    degraded.append((T, f"tag {tag} has no number in IndexSignatureTag"))
                else:
                    pairs.append((algs[a], int(tags[tag]), a, tag))
    # the parse_signature call must precede the match (the builder parses every signature it is given)
    if not re.search(r"let\s+signature\s*=\s*Verifier::parse_signature\(sig_bytes\)\?\s*;", src):
        degraded.append((T, "`let signature = Verifier::parse_signature(sig_bytes)?;` not found in SignatureHeaderBuilder::build"))
    out = "namespace RpmVerif.Gen\n"
    out += "/-- (OpenPGP public-key algorithm number of the parsed signature, legacy tag `SignatureHeaderBuilder::build` stores the\n"
    out += "raw signature under); every other algorithm is `UnsupportedPGPKeyType` -/\n"
    out += "def sigLegacyTagOfAlg : List (Nat × Nat) := [" + ", ".join(f"({a}, {t})  /- {an} => {tn} -/" for a, t, an, tn in pairs) + "]\n"
    out += "end RpmVerif.Gen\n"
    emit(T, out)
