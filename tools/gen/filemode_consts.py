"""C18: the file-mode mask / type constants, scraped from src/rpm/headers/types.rs
(falling back to src/constants.rs should they ever move there)"""
import re
from .common import read, emit, degraded

NAMES = [
    ("FILE_TYPE_BIT_MASK", "fileTypeBitMask"),
    ("PERMISSIONS_BIT_MASK", "permissionsBitMask"),
    ("REGULAR_FILE_TYPE", "regularFileType"),
    ("DIR_FILE_TYPE", "dirFileType"),
    ("SYMBOLIC_LINK_FILE_TYPE", "symbolicLinkFileType"),
]


def _value(lit):
    lit = lit.replace("_", "")
    if lit.startswith("0o"):
        return int(lit[2:], 8)
    if lit.startswith("0x"):
        return int(lit[2:], 16)
    if lit.startswith("0b"):
        return int(lit[2:], 2)
    return int(lit)


def generate():
    srcs = [("src/rpm/headers/types.rs", read("src/rpm/headers/types.rs")), ("src/constants.rs", read("src/constants.rs"))]
    body = "namespace RpmVerif.Gen\n"
    body += "/-! `const <NAME>: u16 = <literal>;` items of the FileMode code (value in decimal, source literal in the comment) -/\n"
    for rust, lean in NAMES:
        pat = re.compile(r"^\s*(?:pub(?:\([a-z]+\))?\s+)?const\s+" + rust +
                         r"\s*:\s*(u16|u32|i32)\s*=\s*(0o[0-7_]+|0x[0-9a-fA-F_]+|0b[01_]+|[0-9][0-9_]*)\s*;", re.M)
        hits = [(rel, m) for rel, s in srcs for m in pat.finditer(s)]
        if len(hits) != 1:
            degraded.append(("FileModeConsts", f"{rust}: {len(hits)} definitions found (expected exactly 1)"))
        if hits:
            rel, m = hits[0]
            body += f"/-- `{rust}: {m.group(1)} = {m.group(2)}` ({rel}) -/\n"
            body += f"def {lean} : Nat := {_value(m.group(2))}\n"
        else:
            # keep the library compiling; `RpmVerif.C18.consts_ok` fails on the placeholder
            body += f"/-- `{rust}` NOT FOUND in the source -/\n"
            body += f"def {lean} : Nat := 0\n"
    body += "end RpmVerif.Gen\n"
    emit("FileModeConsts", body)
