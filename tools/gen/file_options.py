"""C06 / C17: `FileOptions::new` defaults and the `FileOptionsBuilder` setters, scraped from src/rpm/headers/types.rs

Read from the source text:
  * the struct literal `FileOptions { … }` inside `pub fn new(dest: …) -> FileOptionsBuilder` (field by field:
    string literals, `FileMode::regular(0o664)`, `FileFlags::empty()`, `true`, `None`, `FileVerifyFlags::all()`);
  * every `pub fn is_*(mut self) -> Self` of `impl FileOptionsBuilder` whose body is
    `self.inner.flag.insert(<FileFlags expr>); self` — the argument becomes an expression over Gen.FileFlags;
  * the assigning setters `user`, `group`, `symlink`, `verify` (`self.inner.<field> = <arg>[.into()]; self`) and
    `mode` (`self.inner.mode = mode.into(); self.inner.inherit_permissions = false; self`): only their SHAPE is
    recorded (booleans), the model writes the assignments out.
Flag / verify-flag constants are referred to by name (Gen/Constants.lean), not copied.
Anything that does not have the expected shape degrades the table and yields a placeholder that makes
`RpmVerif.C06.file_option_defaults_standard` / `file_option_setters_standard` fail.
"""
import re
from .common import read, emit, rust_str, degraded
from .compression_names import _block

T = "FileOptionsTable"
MODE_CTORS = {"regular": 0, "dir": 1, "symbolic_link": 2}


def _num(lit):
    lit = lit.replace("_", "")
    if lit.startswith("0o"):
        return int(lit[2:], 8)
    if lit.startswith("0x"):
        return int(lit[2:], 16)
    if lit.startswith("0b"):
        return int(lit[2:], 2)
    return int(lit)


def _bytes(s):
    return "[" + ", ".join(str(b) for b in s.encode()) + "]"


def _flags_expr(expr, ty, known):
    """`FileFlags::A | FileFlags::B` / `FileFlags::empty()` / `FileFlags::all()` → Lean expression over Gen.<ty>"""
    expr = expr.strip()
    if expr == f"{ty}::empty()":
        return "0"
    if expr == f"{ty}::all()":
        return f"{ty}.all"
    parts = [p.strip() for p in expr.split("|")]
    out = []
    for p in parts:
        m = re.fullmatch(rf"{ty}::([A-Z][A-Z0-9_]*)", p)
        if not m or m.group(1) not in known:
            return None
        out.append(f"{ty}.{m.group(1)}")
    return " ||| ".join(out)


def _known_flags(ty):
    src = read("src/constants.rs")
    m = re.search(r"pub struct " + ty + r": u32 \{(.*?)\n    \}", src, re.S)
    return set(re.findall(r"const (\w+)\s*=", m.group(1))) if m else set()


def generate():
    src = read("src/rpm/headers/types.rs")
    code = re.sub(r"//[^\n]*", "", src)
    known_ff, known_vf = _known_flags("FileFlags"), _known_flags("FileVerifyFlags")
    if not known_ff or not known_vf:
        degraded.append((T, "bitflags FileFlags / FileVerifyFlags not found in src/constants.rs"))

    # ---- FileOptions::new ----
    d = {"user": None, "group": None, "symlink": None, "mode": None, "flag": None, "inherit": None, "caps_none": None,
         "verify": None, "dest_is_arg": False}
    m = re.search(r"pub\s+fn\s+new\s*\(\s*dest\s*:[^)]*\)\s*->\s*FileOptionsBuilder\s*\{", code)
    lit = None
    if m:
        body = _block(code[m.start():], r"->\s*FileOptionsBuilder\s*\{")
        lit = _block(body or "", r"inner\s*:\s*FileOptions\s*\{")
    if lit is None:
        degraded.append((T, "`FileOptions::new` struct literal not found"))
    else:
        fields = {}
        for item in [x.strip() for x in lit.split(",\n") if x.strip()]:
            fm = re.fullmatch(r"(\w+)\s*:\s*(.+?),?", item, re.S)
            if not fm:
                degraded.append((T, f"field not understood: {item!r}"))
                continue
            fields[fm.group(1)] = fm.group(2).strip()
        expected = {"destination", "user", "group", "symlink", "mode", "flag", "inherit_permissions", "caps", "verify_flags"}
        if set(fields) != expected:
            degraded.append((T, f"fields of FileOptions::new are {sorted(fields)}, expected {sorted(expected)}"))
        d["dest_is_arg"] = fields.get("destination") == "dest.into()"
        if not d["dest_is_arg"]:
            degraded.append((T, f"destination is {fields.get('destination')!r}, expected `dest.into()`"))
        for k in ("user", "group", "symlink"):
            sm = re.fullmatch(r'"((?:[^"\\]|\\.)*)"\.to_string\(\)', fields.get(k, ""))
            if sm:
                d[k] = rust_str(sm.group(1))
            else:
                degraded.append((T, f"default of {k} not a string literal: {fields.get(k)!r}"))
        mm = re.fullmatch(r"FileMode::(\w+)\(\s*(0o[0-7_]+|0x[0-9a-fA-F_]+|[0-9_]+)\s*\)", fields.get("mode", ""))
        if mm and mm.group(1) in MODE_CTORS:
            d["mode"] = (MODE_CTORS[mm.group(1)], _num(mm.group(2)), fields["mode"])
        else:
            degraded.append((T, f"default mode not understood: {fields.get('mode')!r}"))
        d["flag"] = _flags_expr(fields.get("flag", ""), "FileFlags", known_ff)
        if d["flag"] is None:
            degraded.append((T, f"default flag not understood: {fields.get('flag')!r}"))
        d["verify"] = _flags_expr(fields.get("verify_flags", ""), "FileVerifyFlags", known_vf)
        if d["verify"] is None:
            degraded.append((T, f"default verify_flags not understood: {fields.get('verify_flags')!r}"))
        if fields.get("inherit_permissions") in ("true", "false"):
            d["inherit"] = fields["inherit_permissions"]
        else:
            degraded.append((T, f"default inherit_permissions not understood: {fields.get('inherit_permissions')!r}"))
        if fields.get("caps") == "None":
            d["caps_none"] = "true"
        else:
            d["caps_none"] = "false"
            degraded.append((T, f"default caps is {fields.get('caps')!r}, expected None"))

    # ---- the setters of `impl FileOptionsBuilder` ----
    impl = _block(code, r"impl\s+FileOptionsBuilder\s*\{") or ""
    if not impl:
        degraded.append((T, "impl FileOptionsBuilder not found"))
    fns = {}
    for fm in re.finditer(r"pub\s+fn\s+(\w+)\s*\(([^)]*)\)\s*->\s*([^{]+)\{", impl):
        body = _block(impl[fm.start():], r"\)\s*->\s*[^{]+\{")
        fns[fm.group(1)] = (fm.group(2), fm.group(3).strip(), re.sub(r"\s+", " ", body or "").strip())
    flag_setters = []
    for name, (args, ret, body) in fns.items():
        if not name.startswith("is_"):
            continue
        bm = re.fullmatch(r"self\s*\.\s*inner\s*\.\s*flag\s*\.\s*insert\((.+?)\); self", body)
        expr = _flags_expr(bm.group(1), "FileFlags", known_ff) if bm else None
        if re.sub(r"\s+", "", args) != "mutself" or ret != "Self" or expr is None:
            degraded.append((T, f"flag setter {name} not understood: ({args}) -> {ret} {{ {body} }}"))
            flag_setters.append((name, "4294967296  /- NOT UNDERSTOOD -/"))
        else:
            flag_setters.append((name, expr))
    if len(flag_setters) < 2:
        degraded.append((T, f"only {len(flag_setters)} is_* setters found"))

    def assigns(name, field, arg):
        f = fns.get(name)
        if not f:
            degraded.append((T, f"setter {name} not found"))
            return False
        ok = re.fullmatch(rf"self\.inner\.{field} = {arg}(?:\.into\(\))?; self", f[2]) is not None and f[1] == "Self"
        if not ok:
            degraded.append((T, f"setter {name} does not have the shape `self.inner.{field} = {arg}; self`: {f[2]!r}"))
        return ok

    plain_ok = all([assigns("user", "user", "user"), assigns("group", "group", "group"),
                    assigns("symlink", "symlink", "symlink"), assigns("verify", "verify_flags", "flags")])
    f = fns.get("mode")
    mode_ok = bool(f) and f[1] == "Self" and re.fullmatch(
        r"self\.inner\.mode = mode\.into\(\); self\.inner\.inherit_permissions = false; self", f[2]) is not None
    if not mode_ok:
        degraded.append((T, f"setter mode does not assign the mode and clear inherit_permissions: {f[2] if f else None!r}"))
    f = fns.get("caps")
    caps_ok = bool(f) and "FileCaps::from_str(&caps.into())" in f[2] and "Ok(caps) => Some(caps)" in f[2] \
        and "InvalidCapabilities" in f[2] and f[2].endswith("Ok(self)")
    if not caps_ok:
        degraded.append((T, f"setter caps not understood: {f[2] if f else None!r}"))
    others = sorted(set(fns) - {"user", "group", "symlink", "mode", "caps", "verify"} - {n for n, _ in flag_setters})
    if others:
        degraded.append((T, f"setters of FileOptionsBuilder the model does not know: {others}"))

    b = "import RpmVerif.Gen.Constants\nnamespace RpmVerif.Gen\n"
    b += "/-! `FileOptions::new(dest)` (src/rpm/headers/types.rs): the defaults, field by field -/\n"
    b += f"/-- `destination: dest.into()` -/\ndef fileOptionsNewDestIsArg : Bool := {'true' if d['dest_is_arg'] else 'false'}\n"
    for k, lean in (("user", "fileOptionsNewUser"), ("group", "fileOptionsNewGroup"), ("symlink", "fileOptionsNewSymlink")):
        if d[k] is None:
            b += f"/-- `{k}` NOT UNDERSTOOD -/\ndef {lean} : List UInt8 := [0]\n"
        else:
            b += f"/-- `{k}: \"{d[k]}\".to_string()` -/\ndef {lean} : List UInt8 := {_bytes(d[k])}\n"
    if d["mode"]:
        b += f"/-- `mode: {d['mode'][2]}`: (constructor: 0 = regular, 1 = dir, 2 = symbolic_link; argument) -/\n"
        b += f"def fileOptionsNewMode : Nat × Nat := ({d['mode'][0]}, {d['mode'][1]})\n"
    else:
        b += "/-- `mode` NOT UNDERSTOOD -/\ndef fileOptionsNewMode : Nat × Nat := (9, 0)\n"
    b += f"/-- `flag` -/\ndef fileOptionsNewFlag : Nat := {d['flag'] if d['flag'] is not None else '4294967296'}\n"
    b += f"/-- `inherit_permissions` -/\ndef fileOptionsNewInherit : Bool := {d['inherit'] or 'false'}\n"
    b += f"/-- `caps: None` -/\ndef fileOptionsNewCapsIsNone : Bool := {d['caps_none'] or 'false'}\n"
    b += f"/-- `verify_flags` -/\ndef fileOptionsNewVerifyFlags : Nat := {d['verify'] if d['verify'] is not None else '4294967296'}\n"
    b += "/-- the `is_*` setters of `FileOptionsBuilder` in source order: (name, the bits `self.inner.flag.insert(..)` adds) -/\n"
    b += "def fileOptionSetters : List (String × Nat) := [" + ", ".join(f'("{n}", {e})' for n, e in flag_setters) + "]\n"
    b += "/-- `user` / `group` / `symlink` / `verify` assign their own field and nothing else -/\n"
    b += f"def fileOptionPlainSettersAssign : Bool := {'true' if plain_ok else 'false'}\n"
    b += "/-- `mode(m)` is `self.inner.mode = m.into(); self.inner.inherit_permissions = false` -/\n"
    b += f"def fileOptionModeSetterClearsInherit : Bool := {'true' if mode_ok else 'false'}\n"
    b += "/-- `caps(text)` stores `Some(text)` when `FileCaps::from_str` accepts it, else returns `Err(InvalidCapabilities)` -/\n"
    b += f"def fileOptionCapsSetterValidates : Bool := {'true' if caps_ok else 'false'}\n"
    b += "/-- no setter beyond user, group, symlink, mode, caps, verify and the `is_*` ones -/\n"
    b += f"def fileOptionNoOtherSetters : Bool := {'true' if not others else 'false'}\n"
    b += "end RpmVerif.Gen\n"
    emit(T, b)
