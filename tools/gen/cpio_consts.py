"""C07: the cpio constants of src/rpm/payload.rs (header lengths, magic numbers, trailer name, name-length limit)"""
import re
from .common import read, emit, degraded

REL = "src/rpm/payload.rs"


def _bytes(s):
    return "[" + ", ".join(str(b) for b in s.encode()) + "]"


def generate():
    src = read(REL)
    body = "namespace RpmVerif.Gen\n"
    body += "/-! constants of the newc / stripped cpio codec (src/rpm/payload.rs); byte strings as lists of byte values -/\n"

    def missing(name, lean, ty, dflt):
        nonlocal body
        degraded.append(("CpioConsts", f"{name}: definition not found"))
        body += f"/-- `{name}` NOT FOUND in the source -/\ndef {lean} : {ty} := {dflt}\n"

    for rust, lean in [("HEADER_LEN", "cpioHeaderLen"), ("STRIPPED_CPIO_HEADER_LEN", "cpioStrippedHeaderLen")]:
        m = re.search(r"^const\s+" + rust + r"\s*:\s*usize\s*=\s*([0-9_]+)\s*;", src, re.M)
        if m:
            body += f"/-- `const {rust}: usize = {m.group(1)}` -/\ndef {lean} : Nat := {int(m.group(1).replace('_', ''))}\n"
        else:
            missing(rust, lean, "Nat", "0")
    for rust, lean in [("MAGIC_NUMBER_NEWASCII", "cpioMagicNewc"), ("MAGIC_NUMBER_NEWCRC", "cpioMagicCrc"),
                       ("STRIPPED_CPIO_MAGIC_NUMBER", "cpioMagicStripped")]:
        m = re.search(r"^const\s+" + rust + r"\s*:\s*&\[u8\]\s*=\s*b\"([^\"\\]*)\"\s*;", src, re.M)
        if m:
            body += f"/-- `const {rust}: &[u8] = b\"{m.group(1)}\"` -/\ndef {lean} : List UInt8 := {_bytes(m.group(1))}\n"
        else:
            missing(rust, lean, "List UInt8", "[]")
    m = re.search(r"^const\s+TRAILER_NAME\s*:\s*&str\s*=\s*\"([^\"\\]*)\"\s*;", src, re.M)
    if m:
        body += f"/-- `const TRAILER_NAME: &str = \"{m.group(1)}\"` -/\ndef cpioTrailerName : List UInt8 := {_bytes(m.group(1))}\n"
    else:
        missing("TRAILER_NAME", "cpioTrailerName", "List UInt8", "[]")
    # the name-length limit is a literal in Reader::new: `if name_len > 4096 {`
    hits = re.findall(r"if\s+name_len\s*>\s*([0-9_]+)\s*\{", src)
    if len(hits) == 1:
        body += f"/-- `if name_len > {hits[0]}` in `Reader::new` (name length including the NUL) -/\ndef cpioNameLenMax : Nat := {int(hits[0].replace('_', ''))}\n"
    else:
        missing("name_len limit", "cpioNameLenMax", "Nat", "0")
    body += "end RpmVerif.Gen\n"
    emit("CpioConsts", body)
