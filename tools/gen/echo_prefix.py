"""C02: the slice `signature::echo_signature` prints (src/rpm/signature/mod.rs), modelled by `Verify.echoSignature`.

Read from the source text: the body of `pub fn echo_signature(scope: &str, signature: &[u8])` must be ONE `log::debug!`
whose last argument is `&signature[..signature.len().min(N)]` (the slice bound is the minimum of the length and a
literal — the shape that cannot go out of range; before fix d429c1f it was `&signature[0..5]`) and whose length
argument is `signature.len()`. The literal N becomes `Gen.echoPrefixLen`; a bound of another shape degrades the
table (the model then keeps the last N and the `echo=` column of the `vsig` correspondence is what ties it)."""
import re
from .common import read, emit, degraded

T = "EchoPrefix"


def generate():
    src = read("src/rpm/signature/mod.rs")
    n = None
    m = re.search(r"pub\s+fn\s+echo_signature\s*\(\s*scope\s*:\s*&str\s*,\s*signature\s*:\s*&\[u8\]\s*\)\s*\{(.*?)\n\}", src, re.S)
    if not m:
        degraded.append((T, "`pub fn echo_signature(scope: &str, signature: &[u8])` not found in src/rpm/signature/mod.rs"))
    else:
        body = m.group(1)
        if len(re.findall(r"log::\w+!", body)) != 1 or not re.search(r"log::debug!\s*\(", body):
            degraded.append((T, "echo_signature is not a single log::debug! call"))
        s = re.search(r"&\s*signature\s*\[\s*\.\.\s*signature\s*\.\s*len\s*\(\s*\)\s*\.\s*min\s*\(\s*(\d+)\s*\)\s*\]", body)
        if not s:
            degraded.append((T, "slice `&signature[..signature.len().min(N)]` not found in echo_signature"))
        else:
            n = int(s.group(1))
        if len(re.findall(r"signature\s*\[", body)) != 1:
            degraded.append((T, "echo_signature indexes `signature` more than once"))
        if not re.search(r"signature\s*\.\s*len\s*\(\s*\)\s*,", body):
            degraded.append((T, "the printed length is not `signature.len()`"))
    out = "namespace RpmVerif.Gen\n"
    out += "/-- `echo_signature` prints `&signature[..signature.len().min(echoPrefixLen)]` -/\n"
    out += f"def echoPrefixLen : Nat := {n if n is not None else 5}\n"
    out += "end RpmVerif.Gen\n"
    emit(T, out)
