#!/usr/bin/env python3
"""One-off producer of the vendored oracle tables of C13 (NOT run by `check`; the tables are committed).

There is no rpm binary and no network in the sandbox. The only implementation of rpm's version comparison on the machine
that is independent of /repo AND of the Lean transcription is libsolv (the dependency solver of zypper / dnf / conda,
written at SUSE): `solv_vercmp_rpm` (src/evr.c) for one version string, `pool_evrcmp_str(.., EVRCMP_COMPARE)` with
DISTTYPE_RPM for whole E:V-R texts. This script calls both through ctypes and writes

  vercmp_libsolv.txt   <hex of a> <hex of b> <-1|0|1>     # a  b
  evrcmp_libsolv.txt   <hex of s> <hex of t> <-1|0|1>     # s  t

The inputs are FIXED lists (no randomness): every ordered pair over a list of short strings chosen for the corner cases
of the algorithm (empty string, zero-only segments against letters, leading zeros, `~` / `^` at every position, separator
runs, non-ASCII characters incl. ones for which `char::is_numeric` / `is_alphabetic` hold, the ASCII neighbours of the
digit and letter ranges, numbers beyond 2^64), plus a list of longer realistic versions.

EVR texts: only shapes on which rpm and libsolv parse alike — an epoch is a (possibly empty / zero-padded / very long) run
of digits, version and release hold neither ':' nor '-', a present release is non-empty.

  python3 tools/gen/data/mk_libsolv_pairs.py            # rewrite the two tables
  python3 tools/gen/data/mk_libsolv_pairs.py --check-at # compare rpmvercmp.at.txt with libsolv, write nothing
"""
import ctypes, os, re, sys

HERE = os.path.dirname(os.path.abspath(__file__))
LIB = os.environ.get("LIBSOLV", "/root/miniconda/lib/libsolv.so.1")
L = ctypes.CDLL(LIB)
L.solv_vercmp_rpm.argtypes = [ctypes.c_void_p] * 4
L.solv_vercmp_rpm.restype = ctypes.c_int
L.pool_create.restype = ctypes.c_void_p
L.pool_setdisttype.argtypes = [ctypes.c_void_p, ctypes.c_int]
L.pool_evrcmp_str.argtypes = [ctypes.c_void_p, ctypes.c_char_p, ctypes.c_char_p, ctypes.c_int]
L.pool_evrcmp_str.restype = ctypes.c_int
POOL = L.pool_create()
L.pool_setdisttype(POOL, 0)      # DISTTYPE_RPM


def sign(r):
    return (r > 0) - (r < 0)


def vercmp(a: bytes, b: bytes) -> int:
    ba, bb = ctypes.create_string_buffer(a), ctypes.create_string_buffer(b)
    pa, pb = ctypes.cast(ba, ctypes.c_void_p).value, ctypes.cast(bb, ctypes.c_void_p).value
    return sign(L.solv_vercmp_rpm(pa, pa + len(a), pb, pb + len(b)))


def evrcmp(s: bytes, t: bytes) -> int:
    return sign(L.pool_evrcmp_str(POOL, s, t, 0))   # EVRCMP_COMPARE


SHORT = [
    "", "0", "00", "1", "01", "9", "10", "a", "A", "z", "Z", "aa", "1a", "a1", "a0", "0a", "1.a", "a.1", "1.0", "1.00", "1_0", "1..0",
    "~", "^", "~~", "^^", "~^", "^~", "1~", "1^", "1~~", "1^^", "1~a", "1^a", "1~1", "1^1", "~1", "^1", "1.~", "1.^", "1~.", "1^.",
    ".", "-", "_", "+", "/", ":", "@", "[", "`", "{", "1/", "1:", "1@", "1[", "1`", "1{", "a/", "a@b", "a[b", "a`b", "a{b", "9:", "/0", "@a",
    "é", "1é", "é1", "aé", "1.é", "²", "1²", "²1", "٣", "1٣", "１", "Ａ", "aＡ", "€", "𝄞", "é", "1́",
]
LONG = [
    "1.0", "1.0.1", "1.0~rc1", "1.0~rc1~git123", "1.0^git1", "1.0^20160101", "1.0^20160101^git1", "1.0~rc1^git1", "1.0^git1~pre", "1.01",
    "1.001", "1.1", "1.10", "1.9", "2.0", "2.0.1a", "5.5p1", "5.5p10", "5.5p2", "10xyz", "10.1xyz", "xyz10", "xyz.4", "6.0.rc1", "6.0",
    "10.0001", "10.0039", "4.999.9", "5.0", "20101121", "20101122", "2_0", "2.0", "a+", "a_", "+a", "+_", "1b.fc17", "1.fc17", "1g.fc17",
    "1.1.α", "1.1.ββ", "4294967295", "4294967296", "18446744073709551615", "18446744073709551616", "00018446744073709551616",
    "18446744073709551617", "99999999999999999999", "100000000000000000000", "1.0.0", "1.0-1", "1.0_1", "1.0+1", "v1.0", "V1.0", "1.0a", "1.0A",
    "1.0Z", "1.0z", "1.0aZ", "1.0Za", "0.5.0~rc1", "0.5.0", "0.5.0^deadbeef", "3.10.0-1160.el7", "3.10.0-1160.2.1.el7",
]
EPOCHS = [None, "", "0", "00", "1", "01", "2", "9", "10", "007", "4294967295", "4294967296", "18446744073709551616"]
VERS = ["1", "1.0", "1.0~rc1", "1.0^git1", "2", "01", "a", "1a", "1.0.1", "10"]
RELS = [None, "1", "2", "01", "1.fc38", "0", "10", "1~a", "1^a"]


def hx(b):
    return b.hex() if b else "-"


def check_at():
    bad = 0
    n = 0
    for line in open(os.path.join(HERE, "rpmvercmp.at.txt"), encoding="utf-8"):
        m = re.match(r"RPMVERCMP\((.*), (.*), (-?\d)\)$", line.strip())
        if not m:
            continue
        n += 1
        got = vercmp(m.group(1).encode(), m.group(2).encode())
        if got != int(m.group(3)):
            bad += 1
            print("DIFFERS", line.strip(), "libsolv:", got)
    print(f"{n} cases, {bad} differ from libsolv")
    return bad


def main():
    if "--check-at" in sys.argv:
        sys.exit(1 if check_at() else 0)
    ver = L.solv_version if hasattr(L, "solv_version") else None
    head = ("# computed ONCE with libsolv (solv_vercmp_rpm / pool_evrcmp_str, DISTTYPE_RPM) by tools/gen/data/mk_libsolv_pairs.py;\n"
            "# library: conda package libsolv-0.7.30-h6f1ccf3_2. Not regenerated by `check` (libsolv is not part of the trusted base at run time).\n")
    with open(os.path.join(HERE, "vercmp_libsolv.txt"), "w", encoding="utf-8") as f:
        f.write(head + "# <hex a> <hex b> <rpmvercmp(a, b)>   # a | b      ('-' = empty string)\n")
        n = 0
        seen = set()

        def put(a, b, note=True):
            nonlocal n
            if (a, b) in seen:
                return
            seen.add((a, b))
            ea, eb = a.encode(), b.encode()
            f.write(f"{hx(ea)} {hx(eb)} {vercmp(ea, eb)}   # {a} | {b}\n")
            n += 1
        # every ordered pair over 22 short ASCII strings (the corner cases of the algorithm)
        core = ["", "0", "00", "1", "01", "10", "a", "A", "1a", "a1", "0a", "a0", "1.0", "~", "^", "~~", "^~", "1~", "1^", "1~a", "1^a", "."]
        for a in core:
            for b in core:
                put(a, b)
        # every short string (incl. the separators next to the digit / letter ranges and the non-ASCII ones) against a digit and a letter, both orders
        for a in SHORT:
            for b in ["0", "a"]:
                put(a, b)
                put(b, a)
        # realistic longer versions: a fixed 29th of the ordered pairs (and their mirror images)
        for i, a in enumerate(LONG):
            for j, b in enumerate(LONG):
                if (i * 5 + j * 3) % 29 == 0:
                    put(a, b)
                    put(b, a)
        print("vercmp pairs:", n)
    with open(os.path.join(HERE, "evrcmp_libsolv.txt"), "w", encoding="utf-8") as f:
        f.write(head + "# <hex s> <hex t> <comparison of the EVR texts s, t>   # s | t\n")
        texts = []
        for i, e in enumerate(EPOCHS):
            for j, v in enumerate(VERS):
                # a fixed, spread-out selection instead of the full product
                for k, r in enumerate(RELS):
                    if (i * 7 + j * 3 + k) % 5 != 0:
                        continue
                    if e == "" :
                        continue   # ":1-1": rpm-rs reads an empty epoch, libsolv reads no epoch at all — same value, kept out anyway
                    t = (e + ":" if e is not None else "") + v + ("-" + r if r is not None else "")
                    texts.append(t)
        texts = sorted(set(texts))
        n = 0
        for i, s in enumerate(texts):
            for j, t in enumerate(texts):
                if (i * 31 + j * 17) % 181 != 0:
                    continue
                es, et = s.encode(), t.encode()
                f.write(f"{hx(es)} {hx(et)} {evrcmp(es, et)}   # {s} | {t}\n")
                n += 1
        print("evr texts:", len(texts), "pairs:", n)


if __name__ == "__main__":
    main()
