"""C19: the CAPS name table of src/rpm/filecaps.rs (upper-case, as in the source), as lists of byte codes"""
import re
from .common import read, emit, rust_str, natlist, degraded


def generate():
    src = read("src/rpm/filecaps.rs")
    m = re.search(r"const\s+CAPS\s*:\s*&\[\s*&str\s*;\s*(\d+)\s*\]\s*=\s*&\[(.*?)\]\s*;", src, re.S)
    names = []
    if not m:
        degraded.append(("CapsTable", "const CAPS: &[&str; N] = &[..]; not found in src/rpm/filecaps.rs"))
    else:
        names = [rust_str(x) for x in re.findall(r'"((?:[^"\\]|\\.)*)"', m.group(2))]
        if len(names) != int(m.group(1)):
            degraded.append(("CapsTable", f"declared {m.group(1)} names, scraped {len(names)}"))
        if any(ord(c) >= 128 for n in names for c in n):
            degraded.append(("CapsTable", "non-ASCII capability name"))
    body = "namespace RpmVerif.Gen\n"
    body += "/-- the `CAPS` table of src/rpm/filecaps.rs, in source order; byte codes written out -/\n"
    body += "def capsTable : List (List Nat) := [\n"
    body += ",\n".join(f"  {natlist(n)} /- {n} -/" for n in names)
    body += "]\nend RpmVerif.Gen\n"
    emit("CapsTable", body)
