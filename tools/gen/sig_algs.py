"""C09 / C10: the signing side's algorithm tables, scraped from the source

* `SignatureHeaderBuilder::build` (src/rpm/headers/signatures.rs): the arms of `match signature.config.pub_alg`
  (`PublicKeyAlgorithm::A | … => IndexSignatureTag::T`) and that the fall-through arm is
  `return Err(crate::Error::UnsupportedPGPKeyType(..))`;
* `enum AlgorithmType` (src/rpm/signature/traits.rs);
* `impl From<AlgorithmType> for PublicKeyAlgorithm`, `Signer::new`, `Verifier::load_from_asc` and the constants
  `pgp::Signer::sign` puts into its `SignatureConfig` (src/rpm/signature/pgp.rs): `SignatureConfig::v4(SignatureType::X, .., HashAlgorithm::Y)`
  and the order of the `hashed_subpackets.push(Subpacket::regular(SubpacketData::Z(..)))` calls.

pgp-crate names are translated to their OpenPGP numbers through the enums of the pgp crate the harness is locked to
(`harness/Cargo.lock` → `~/.cargo/registry/src/*/pgp-<version>/src/...`); a name that cannot be translated degrades the table."""
import glob, os, re
from .common import read, emit, degraded
from . import constants as _consts

T = "SigAlgs"

# RFC 4880 / 9580 signature subpacket types of the `SubpacketData` variants the signer can push (pgp crate: packet/signature/types.rs
# `SubpacketType`); only used to turn the scraped variant names into numbers
SUBPACKET_TYPE_FILE = "src/packet/signature/types.rs"


def pgp_crate_dir():
    lock = os.path.join(os.path.dirname(os.path.abspath(__file__)), "..", "..", "harness", "Cargo.lock")
    try:
        text = open(lock).read()
    except OSError as e:
        degraded.append((T, f"harness/Cargo.lock: {e}"))
        return None
    m = re.search(r'name = "pgp"\nversion = "([^"]+)"', text)
    if not m:
        degraded.append((T, "pgp not found in harness/Cargo.lock"))
        return None
    roots = [os.environ.get("CARGO_HOME", ""), os.path.expanduser("~/.cargo"), "/root/.cargo"]
    for r in roots:
        if not r:
            continue
        hits = sorted(glob.glob(os.path.join(r, "registry", "src", "*", "pgp-" + m.group(1))))
        if hits:
            return hits[0]
    degraded.append((T, f"source of pgp-{m.group(1)} not found in the cargo registry"))
    return None


def repr_enum(path, name):
    """`pub enum <name> { A = 1, … }` → {variant: number}"""
    try:
        text = open(path, encoding="utf-8").read()
    except OSError as e:
        degraded.append((T, f"{path}: {e}"))
        return {}
    m = re.search(r"pub\s+enum\s+" + name + r"\s*\{(.*?)\n\}", text, re.S)
    if not m:
        degraded.append((T, f"enum {name} not found in {path}"))
        return {}
    body = re.sub(r"//[^\n]*", "", m.group(1))
    return {k: int(v, 0) for k, v in re.findall(r"\b(\w+)\s*=\s*(0x[0-9a-fA-F]+|\d+)\s*,", body)}


def match_body(src, start_pat, what):
    """text between the braces of the first `match … {` after `start_pat`"""
    m = re.search(start_pat, src, re.S)
    if not m:
        degraded.append((T, f"{what}: start pattern not found"))
        return None
    i = src.find("match", m.end())
    if i < 0:
        degraded.append((T, f"{what}: no match expression"))
        return None
    j = src.find("{", i)
    depth, k = 0, j
    while k < len(src):
        if src[k] == "{":
            depth += 1
        elif src[k] == "}":
            depth -= 1
            if depth == 0:
                return src[j + 1:k]
        k += 1
    degraded.append((T, f"{what}: unbalanced braces"))
    return None


def top_level_arrows(body):
    depth, n = 0, 0
    for i, c in enumerate(body):
        if c in "{(":
            depth += 1
        elif c in "})":
            depth -= 1
        elif c == "=" and depth == 0 and body[i:i + 2] == "=>":
            n += 1
    return n


def generate():
    sigs = read("src/rpm/headers/signatures.rs")
    csrc = _consts.strip_comments(read("src/constants.rs"))
    cenv = {}
    for cm in re.finditer(r"pub(?:\(crate\))? const ([A-Z_0-9]+): u(?:8|16|32|64|size) = ([^;]+);", csrc):
        try:
            cenv[cm.group(1)] = _consts.evaluate(cm.group(2), cenv)
        except Exception:
            pass
    n0 = len(degraded)
    tagnum = dict(_consts.enum_values(csrc, "IndexSignatureTag", {**cenv, **dict(_consts.enum_values(csrc, "IndexTag", cenv))}))
    del degraded[n0:]   # tools/gen/constants.py reports problems of these enums itself
    pgprs = read("src/rpm/signature/pgp.rs")
    traits = read("src/rpm/signature/traits.rs")
    crate = pgp_crate_dir()
    alg_id = repr_enum(os.path.join(crate, "src/crypto/public_key.rs"), "PublicKeyAlgorithm") if crate else {}
    hash_id = repr_enum(os.path.join(crate, "src/crypto/hash.rs"), "HashAlgorithm") if crate else {}
    sigtype_id = repr_enum(os.path.join(crate, "src/packet/signature/types.rs"), "SignatureType") if crate else {}
    # SubpacketType is a plain enum with a hand-written conversion: `SubpacketType::X => 2,`
    sub_id = {}
    if crate:
        try:
            st = open(os.path.join(crate, SUBPACKET_TYPE_FILE), encoding="utf-8").read()
            sub_id = {k: int(v) for k, v in re.findall(r"SubpacketType::(\w+)\s*=>\s*(\d+)\s*,", st)}
        except OSError as e:
            degraded.append((T, f"{SUBPACKET_TYPE_FILE}: {e}"))
    if crate and not sub_id:
        degraded.append((T, "SubpacketType numbers not found in the pgp crate"))

    def alg(name, where):
        if name not in alg_id:
            degraded.append((T, f"{where}: PublicKeyAlgorithm::{name} has no number"))
            return None
        return alg_id[name]

    # --- enum AlgorithmType
    m = re.search(r"pub\s+enum\s+AlgorithmType\s*\{(.*?)\}", traits, re.S)
    variants = re.findall(r"\b(\w+)\s*,", m.group(1)) if m else []
    if not variants:
        degraded.append((T, "enum AlgorithmType not found in src/rpm/signature/traits.rs"))

    # --- SignatureHeaderBuilder::build
    legacy, fall_err = [], False
    body = match_body(sigs, r"pub\s+fn\s+build\s*\(self\)", "SignatureHeaderBuilder::build")
    if body is not None:
        arms = re.findall(r"((?:PublicKeyAlgorithm::\w+\s*\|?\s*)+)=>\s*IndexSignatureTag::(\w+)\s*,", body)
        for pats, tag in arms:
            for a in re.findall(r"PublicKeyAlgorithm::(\w+)", pats):
                n = alg(a, "build")
                if tag not in tagnum:
                    degraded.append((T, f"build: IndexSignatureTag::{tag} has no number"))
                elif n is not None:
                    legacy.append((n, tagnum[tag], a + " => " + tag))
        fall_err = bool(re.search(r"\b\w+\s*=>\s*return\s+Err\(crate::Error::UnsupportedPGPKeyType\(", body))
        if not fall_err:
            degraded.append((T, "build: fall-through arm `a => return Err(crate::Error::UnsupportedPGPKeyType(` not found"))
        if top_level_arrows(body) != len(arms) + 1:
            degraded.append((T, f"build: {top_level_arrows(body)} match arms, {len(arms)} understood (+1 fall-through expected)"))
        if not arms:
            degraded.append((T, "build: no `PublicKeyAlgorithm::X => IndexSignatureTag::T` arms found"))

    # --- From<AlgorithmType> for PublicKeyAlgorithm
    to_pgp = []
    body = match_body(pgprs, r"impl\s+From<traits::AlgorithmType>\s+for\s+::pgp::crypto::public_key::PublicKeyAlgorithm", "From<AlgorithmType>")
    if body is not None:
        arms = re.findall(r"traits::AlgorithmType::(\w+)\s*=>\s*PublicKeyAlgorithm::(\w+)\s*,", body)
        for v, a in arms:
            n = alg(a, "From<AlgorithmType>")
            if n is not None and v in variants:
                to_pgp.append((v, n, a))
        if top_level_arrows(body) != len(arms):
            degraded.append((T, f"From<AlgorithmType>: {top_level_arrows(body)} arms, {len(arms)} understood"))
        if sorted(v for v, _, _ in to_pgp) != sorted(variants):
            degraded.append((T, "From<AlgorithmType>: the arms do not cover exactly the variants of AlgorithmType"))

    # --- Signer::new / Verifier::load_from_asc
    def acceptance(start_pat, what):
        out = []
        body = match_body(pgprs, start_pat, what)
        if body is None:
            return out
        arms = re.findall(r"((?:PublicKeyAlgorithm::\w+\s*\|?\s*)+)=>\s*Ok\(Self\s*\{(.*?)\}\)\s*,", body, re.S)
        for pats, fields in arms:
            mm = re.search(r"algorithm:\s*AlgorithmType::(\w+)", fields)
            if not mm or mm.group(1) not in variants:
                degraded.append((T, f"{what}: arm without `algorithm: AlgorithmType::X`"))
                continue
            for a in re.findall(r"PublicKeyAlgorithm::(\w+)", pats):
                n = alg(a, what)
                if n is not None:
                    out.append((n, mm.group(1), a))
        if not re.search(r"\b\w+\s*=>\s*Err\(Error::UnsupportedPGPKeyType\(", body):
            degraded.append((T, f"{what}: fall-through arm `x => Err(Error::UnsupportedPGPKeyType(` not found"))
        if top_level_arrows(body) != len(arms) + 1:
            degraded.append((T, f"{what}: {top_level_arrows(body)} match arms, {len(arms)} understood (+1 fall-through expected)"))
        return out

    signer_new = acceptance(r"pub\s+fn\s+new\s*\(inner:\s*T\)", "Signer::new")
    verifier_load = acceptance(r"impl\s+Verifier\s*\{\s*pub\s+fn\s+load_from_asc_bytes.*?pub\s+fn\s+load_from_asc\s*\(", "Verifier::load_from_asc")

    # --- the constants of `pgp::Signer::sign`
    cfg_version, cfg_type, cfg_hash, pushes = None, None, None, []
    m = re.search(r"fn\s+sign\s*\(&self,\s*data:\s*impl\s+io::Read,\s*t:\s*Timestamp\)(.*?)\n    fn\s+algorithm", pgprs, re.S)
    if not m:
        degraded.append((T, "pgp::Signer::sign not found"))
    else:
        body = re.sub(r"//[^\n]*", "", m.group(1))
        mm = re.search(r"SignatureConfig::v(\d+)\(\s*SignatureType::(\w+)\s*,\s*self\.algorithm\(\)\.into\(\)\s*,\s*HashAlgorithm::(\w+)\s*,?\s*\)", body)
        if not mm:
            degraded.append((T, "Signer::sign: `SignatureConfig::vN(SignatureType::X, self.algorithm().into(), HashAlgorithm::Y)` not found"))
        else:
            cfg_version = int(mm.group(1))
            cfg_type = sigtype_id.get(mm.group(2))
            cfg_hash = hash_id.get(mm.group(3))
            if cfg_type is None:
                degraded.append((T, f"SignatureType::{mm.group(2)} has no number"))
            if cfg_hash is None:
                degraded.append((T, f"HashAlgorithm::{mm.group(3)} has no number"))
        for area, kind in re.findall(r"\.\s*(hashed_subpackets|unhashed_subpackets)\s*\.push\(\s*Subpacket::regular\(\s*SubpacketData::(\w+)\(", body):
            if kind not in sub_id:
                degraded.append((T, f"SubpacketData::{kind} has no number"))
            else:
                pushes.append((area, sub_id[kind], kind))
        if len(re.findall(r"\.push\(", body)) != len(pushes):
            degraded.append((T, "Signer::sign: a `.push(` that is not a regular sub-packet push"))
        if ".timestamp_opt(t.0.into(),0).unwrap()" not in re.sub(r"\s+", "", body):
            degraded.append((T, "Signer::sign: `Utc.timestamp_opt(t.0.into(), 0).unwrap()` not found"))

    out = "namespace RpmVerif.Gen.SigAlgs\n"
    out += "/-- `rpm::signature::AlgorithmType` (src/rpm/signature/traits.rs) -/\n"
    out += "inductive AlgorithmType where\n" + "".join(f"  | {v}\n" for v in (variants or ["None_"])) + "  deriving DecidableEq, Repr\n"
    out += "def AlgorithmType.all : List AlgorithmType := [" + ", ".join("." + v for v in (variants or ["None_"])) + "]\n"
    out += "/-- `SignatureHeaderBuilder::build`: (OpenPGP number of the `PublicKeyAlgorithm` arm, legacy tag it selects) -/\n"
    out += "def buildLegacyArms : List (Nat × Nat) := [" + ", ".join(f"({n}, {t})  /- {a} -/" for n, t, a in legacy) + "]\n"
    out += "/-- every other algorithm is `Err(UnsupportedPGPKeyType)` there -/\n"
    out += f"def buildFallthroughIsErr : Bool := {'true' if fall_err else 'false'}\n"
    out += "/-- `impl From<AlgorithmType> for PublicKeyAlgorithm` -/\n"
    out += "def toPgpArms : List (AlgorithmType × Nat) := [" + ", ".join(f"(.{v}, {n})  /- {a} -/" for v, n, a in to_pgp) + "]\n"
    out += "/-- `pgp::Signer::new`: (number of the key's algorithm, `AlgorithmType` stored); anything else is `Err(UnsupportedPGPKeyType)` -/\n"
    out += "def signerNewArms : List (Nat × AlgorithmType) := [" + ", ".join(f"({n}, .{v})  /- {a} -/" for n, v, a in signer_new) + "]\n"
    out += "/-- `pgp::Verifier::load_from_asc`: the same for the verifier -/\n"
    out += "def verifierLoadArms : List (Nat × AlgorithmType) := [" + ", ".join(f"({n}, .{v})  /- {a} -/" for n, v, a in verifier_load) + "]\n"
    out += "/-- `SignatureConfig::v<version>(SignatureType::<type>, .., HashAlgorithm::<hash>)` in `pgp::Signer::sign` -/\n"
    out += f"def cfgVersion : Nat := {cfg_version if cfg_version is not None else 0}\n"
    out += f"def cfgSigType : Nat := {cfg_type if cfg_type is not None else 255}\n"
    out += f"def cfgHashAlg : Nat := {cfg_hash if cfg_hash is not None else 255}\n"
    out += "/-- the sub-packets `pgp::Signer::sign` pushes, in order: (true = hashed area, sub-packet type number) -/\n"
    out += "def cfgPushes : List (Bool × Nat) := [" + ", ".join(f"({'true' if a == 'hashed_subpackets' else 'false'}, {n})  /- {k} -/" for a, n, k in pushes) + "]\n"
    out += "/-- the numbers the pgp crate's `PublicKeyAlgorithm` names (everything else is `Unknown(n)`) -/\n"
    out += "def pgpNamedAlgs : List Nat := [" + ", ".join(str(v) for v in sorted(set(alg_id.values()))) + "]\n"
    out += "end RpmVerif.Gen.SigAlgs\n"
    emit(T, out)
