"""C04 / C16: the size arithmetic and the up-front allocations of the header reader, scraped from src/rpm/headers/header.rs

Read from the source text (each as a `WExpr` with the WIDTHS of the Rust types, Model/Width.lean, plus its plain Nat reading):
  * `Header::parse`:  `let size_rest = <expr>;`, the initialiser of `buf` (`Vec::new()` = grows with the bytes that are
    present; `Vec::with_capacity(e)` / `vec![0; e]` = sized from the untrusted intro up front) and that the read is
    `input.by_ref().take(size_rest).read_to_end(&mut buf)`
  * `parse_entry_data_number`:  the argument of `items.reserve_exact(..)` (elements reserved before the loop)
  * `Header::size`:  its `let`s and result expression
  * `padding_required`:  its expression;  `parse_signature`: `vec![0; padding as usize]`
  * every OTHER `reserve* / with_capacity / vec![..; n]` inside parse / parse_header / parse_entry_data_number /
    parse_binary_entry / parse_signature is reported (the Lean account knows exactly the sites above)
The theorems that read the table: C04 `reserve_arg_reading`, `size_rest_fits_u64`, `reserved_le_input`, `buf_grows_with_input`;
C16 `header_size_fits`, `padding_fits`.  An expression the little parser below cannot read degrades the table."""
import re
from .common import read, emit, degraded

T = "AllocSites"
WIDTH = {"u8": 8, "u16": 16, "u32": 32, "u64": 64, "usize": 64}


class Bad(Exception):
    pass


def tokenize(s):
    toks, i = [], 0
    while i < len(s):
        c = s[i]
        if c.isspace():
            i += 1
        elif c.isdigit():
            m = re.match(r"(0x[0-9a-fA-F_]+|[0-9][0-9_]*)(u8|u16|u32|u64|usize)?", s[i:])
            toks.append(("int", (int(m.group(1).replace("_", ""), 0), m.group(2))))
            i += m.end()
        elif c.isalpha() or c == "_":
            m = re.match(r"[A-Za-z_][A-Za-z0-9_]*(?:(?:::|\.)[A-Za-z_][A-Za-z0-9_]*)*", s[i:])
            toks.append(("id", m.group(0)))
            i += m.end()
        elif c in "()+-*/%,.":
            toks.append((c, c))
            i += 1
        else:
            raise Bad(f"unexpected character {c!r} in {s!r}")
    return toks


class P:
    """expr := term (('+'|'-') term)* ; term := cast (('*'|'%') cast)* ; cast := post ('as' TYPE)* ;
    post := atom ('.min(' expr ')' | '.len()')* ; atom := INT | ID | ID '(' expr ',' expr ')' | '(' expr ')'"""

    def __init__(self, toks, syms, lets):
        self.t, self.i, self.syms, self.lets = toks, 0, syms, lets

    def peek(self):
        return self.t[self.i] if self.i < len(self.t) else ("eof", None)

    def take(self, kind=None):
        k, v = self.peek()
        if kind and k != kind:
            raise Bad(f"expected {kind}, found {k} {v}")
        self.i += 1
        return v

    def expr(self):
        a = self.term()
        while self.peek()[0] in "+-" and self.peek()[0] != "eof":
            op = self.take()
            a = ("add" if op == "+" else "sub", a, self.term())
        return a

    def term(self):
        a = self.cast()
        while self.peek()[0] in ("*", "%"):
            op = self.take()
            a = ("mul" if op == "*" else "rem", a, self.cast())
        if self.peek()[0] == "/":
            raise Bad("division is not translated")
        return a

    def cast(self):
        a = self.post()
        while self.peek() == ("id", "as"):
            self.take()
            ty = self.take("id")
            if ty not in WIDTH:
                raise Bad(f"cast to {ty}")
            a = ("cast", a, WIDTH[ty])
        return a

    def post(self):
        a = self.atom()
        while self.peek()[0] == ".":
            self.take()
            name = self.take("id")
            self.take("(")
            if name == "min":
                b = self.expr()
                self.take(")")
                a = ("min", a, b)
            else:
                raise Bad(f"method .{name}()")
        return a

    def atom(self):
        k, v = self.peek()
        if k == "int":
            self.take()
            return ("lit", v[0], WIDTH.get(v[1]))
        if k == "(":
            self.take()
            a = self.expr()
            self.take(")")
            return a
        if k == "id":
            self.take()
            # `x.len()` / `x.padding_required()` arrive as one identifier followed by "(" ")"
            if self.peek()[0] == "(":
                if v in ("std::cmp::min", "cmp::min", "min"):
                    self.take("(")
                    a = self.expr()
                    self.take(",")
                    b = self.expr()
                    self.take(")")
                    return ("min", a, b)
                self.take("(")
                self.take(")")
                v = v + "()"
            if v in self.lets:
                return self.lets[v]
            if v in self.syms:
                return self.syms[v]
            raise Bad(f"unknown name {v}")
        raise Bad(f"unexpected {k} {v}")


def parse_expr(text, syms, lets=None):
    p = P(tokenize(text), syms, lets or {})
    e = p.expr()
    if p.peek()[0] != "eof":
        raise Bad(f"trailing tokens in {text!r}")
    return typed(e)


def width(e):
    k = e[0]
    if k in ("lit", "var"):
        return e[2]
    if k == "cast":
        return e[2]
    return width(e[1]) or width(e[2])


def infer(e, ctx):
    """give untyped literals the width their context demands (Rust's inference for these shapes)"""
    k = e[0]
    if k == "lit":
        w = e[2] or ctx
        if w is None:
            raise Bad("literal without a type")
        return ("lit", e[1], w)
    if k == "var":
        return e
    if k == "cast":
        return ("cast", infer(e[1], width(e[1]) or 32), e[2])
    w = width(e[1]) or width(e[2]) or ctx
    return (k, infer(e[1], w), infer(e[2], w))


def typed(e):
    return infer(e, None)


def lean_w(e):
    k = e[0]
    if k == "lit":
        return f"(.lit {e[1]} {e[2]})"
    if k == "var":
        return f"(.var {e[1]} {e[2]})"
    if k == "cast":
        return f"(.cast {lean_w(e[1])} {e[2]})"
    return f"(.{k} {lean_w(e[1])} {lean_w(e[2])})"


def lean_n(e, names):
    k = e[0]
    if k == "lit":
        return str(e[1])
    if k == "var":
        return names[e[1]]
    if k == "cast":
        return lean_n(e[1], names)
    a, b = lean_n(e[1], names), lean_n(e[2], names)
    return {"add": f"({a} + {b})", "sub": f"({a} - {b})", "mul": f"({a} * {b})", "rem": f"({a} % {b})", "min": f"(Nat.min {a} {b})"}[k]


def fn_body(src, header_re):
    """text of the function whose header matches, by brace counting"""
    m = re.search(header_re, src)
    if not m:
        return None
    i = src.index("{", m.end() - 1) if src[m.end() - 1] != "{" else m.end() - 1
    depth, j = 0, i
    while j < len(src):
        if src[j] == "{":
            depth += 1
        elif src[j] == "}":
            depth -= 1
            if depth == 0:
                return src[i:j + 1]
        j += 1
    return None


def strip_comments(s):
    return re.sub(r"//[^\n]*", "", s)


def generate():
    src = read("src/rpm/headers/header.rs")
    consts_src = read("src/constants.rs")
    consts = {}
    for name in ("INDEX_ENTRY_SIZE", "INDEX_HEADER_SIZE", "LEAD_SIZE"):
        m = re.search(rf"pub\s+const\s+{name}\s*:\s*(\w+)\s*=\s*(\d+)\s*;", consts_src)
        if m and m.group(1) in WIDTH:
            consts[name] = ("lit", int(m.group(2)), WIDTH[m.group(1)])
        else:
            degraded.append((T, f"constant {name} not found in src/constants.rs"))
    out = {}

    def site(key, text, syms, lets=None):
        try:
            out[key] = parse_expr(text, {**consts, **syms}, lets)
        except Bad as e:
            degraded.append((T, f"{key}: cannot translate `{' '.join(text.split())}`: {e}"))
        except Exception as e:  # noqa
            degraded.append((T, f"{key}: {e!r}"))

    # --- Header::parse
    body = fn_body(src, r"pub\(crate\)\s+fn\s+parse\s*\(\s*input\s*:\s*&mut\s+impl\s+io::BufRead\s*\)\s*->\s*Result<Header<T>,\s*Error>\s*\{")
    buf_kind, buf_arg = None, None
    read_bounded = False
    if not body:
        degraded.append((T, "Header::parse not found"))
    else:
        b = strip_comments(body)
        hs = {"index_header.data_section_size": ("var", 0, 32), "index_header.num_entries": ("var", 1, 32)}
        m = re.search(r"let\s+size_rest\s*=\s*(.*?);", b, re.S)
        if m:
            site("sizeRest", m.group(1), hs)
        else:
            degraded.append((T, "`let size_rest = ..;` not found in Header::parse"))
        m = re.search(r"let\s+mut\s+buf\s*(?::\s*Vec<u8>\s*)?=\s*(.*?);\s*\n\s*input", b, re.S)
        if not m:
            degraded.append((T, "`let mut buf = ..;` followed by the read not found in Header::parse"))
        else:
            init = " ".join(m.group(1).split())
            if init in ("Vec::new()", "vec![]", "Vec::<u8>::new()"):
                buf_kind = "grows"
            else:
                mm = re.fullmatch(r"Vec::with_capacity\((.*)\)", init) or re.fullmatch(r"vec!\[\s*0(?:u8)?\s*;\s*(.*)\]", init)
                if mm:
                    buf_kind = "upfront"
                    site("bufUpFront", mm.group(1), {**hs, "size_rest": ("var", 2, 64)})
                else:
                    degraded.append((T, f"initialiser of buf not understood: {init}"))
        read_bounded = bool(re.search(r"input\s*\.by_ref\(\)\s*\.take\(\s*size_rest\s*\)\s*\.read_to_end\(\s*&mut\s+buf\s*\)", b))
        if not read_bounded and buf_kind == "grows":
            degraded.append((T, "`input.by_ref().take(size_rest).read_to_end(&mut buf)` not found in Header::parse"))
    # --- parse_entry_data_number
    body = fn_body(src, r"fn\s+parse_entry_data_number\s*<")
    if not body:
        degraded.append((T, "parse_entry_data_number not found"))
    else:
        b = strip_comments(body)
        m = re.findall(r"items\s*\.\s*(reserve_exact|reserve)\s*\((.*?)\)\s*;", b, re.S)
        if len(m) != 1:
            degraded.append((T, f"{len(m)} `items.reserve*(..)` calls in parse_entry_data_number (1 expected)"))
        else:
            site("reserveArg", m[0][1], {"num_items": ("var", 0, 32), "input.len()": ("var", 1, 64)})
    # --- Header::size
    body = fn_body(src, r"pub\(crate\)\s+fn\s+size\s*\(\s*&self\s*\)\s*->\s*u64\s*\{")
    if not body:
        degraded.append((T, "Header::size not found"))
    else:
        b = strip_comments(body)[1:-1]
        ss = {"self.index_header.data_section_size": ("var", 0, 32), "self.index_header.num_entries": ("var", 1, 32)}
        lets = {}
        try:
            for name, text in re.findall(r"let\s+(\w+)\s*=\s*(.*?);", b, re.S):
                lets[name] = P(tokenize(text), {**consts, **ss}, dict(lets)).expr()
            tail = re.sub(r"let\s+\w+\s*=\s*.*?;", "", b, flags=re.S).strip()
            site("headerSize", tail, ss, lets)
        except Bad as e:
            degraded.append((T, f"Header::size: {e}"))
    # --- padding_required, parse_signature
    body = fn_body(src, r"fn\s+padding_required\s*\(\s*&self\s*\)\s*->\s*u32\s*\{")
    if not body:
        degraded.append((T, "padding_required not found"))
    else:
        site("padding", strip_comments(body)[1:-1].strip(), {"self.index_header.data_section_size": ("var", 0, 32)})
    # --- every other up-front allocation in the read path
    known = {("parse_entry_data_number", "reserve_exact"), ("parse_signature", "vec!")}
    if buf_kind == "upfront":
        known.add(("parse", "with_capacity")); known.add(("parse", "vec!"))
    others = []
    for fname, hre in [("parse", r"pub\(crate\)\s+fn\s+parse\s*\(\s*input"), ("parse_header", r"fn\s+parse_header\s*\("),
                       ("parse_entry_data_number", r"fn\s+parse_entry_data_number\s*<"), ("parse_binary_entry", r"fn\s+parse_binary_entry\s*\("),
                       ("parse_signature", r"pub\(crate\)\s+fn\s+parse_signature\s*\(")]:
        fb = fn_body(src, hre)
        if fb is None:
            degraded.append((T, f"{fname} not found"))
            continue
        fb = strip_comments(fb)
        for kind, pat in [("reserve_exact", r"\.reserve_exact\s*\("), ("reserve", r"\.reserve\s*\("), ("with_capacity", r"with_capacity\s*\("),
                          ("vec!", r"vec!\s*\[[^\]]*;"), ("resize", r"\.resize\s*\(")]:
            for _ in re.findall(pat, fb):
                if (fname, kind) not in known:
                    others.append(f"{fname}:{kind}")
    m = re.search(r"let\s+mut\s+discard\s*=\s*vec!\[\s*0\s*;\s*padding\s+as\s+usize\s*\]", src)
    if not m:
        degraded.append((T, "`vec![0; padding as usize]` not found in parse_signature"))
    if others:
        degraded.append((T, "up-front allocations the account does not know: " + ", ".join(others)))

    def both(key, lname, names, doc):
        e = out.get(key)
        if e is None:
            return f"-- {lname}: not read\n"
        params = " ".join(names)
        s = f"/-- {doc} -/\n"
        s += f"def {lname}W : WExpr := {lean_w(e)}\n"
        s += f"/-- its reading in `Nat` (no width) -/\n"
        s += f"def {lname} ({params} : Nat) : Nat := {lean_n(e, names)}\n"
        return s

    o = "import RpmVerif.Model.Width\n"
    o += "namespace RpmVerif.Gen\nopen RpmVerif\n"
    o += both("sizeRest", "sizeRest", ["dl", "n"],
              "`Header::parse`: `let size_rest = ..` (var 0 = `data_section_size : u32`, var 1 = `num_entries : u32`)")
    o += "/-- `Header::parse`: capacity `buf` is created with, as a function of `size_rest` (0 = `Vec::new()`: the buffer grows with the\nbytes `read_to_end` really finds) -/\n"
    if buf_kind == "upfront" and "bufUpFront" in out:
        o += f"def parseBufUpFront (dl n sizeRest : Nat) : Nat := {lean_n(out['bufUpFront'], ['dl', 'n', 'sizeRest'])}\n"
    else:
        o += "def parseBufUpFront (_dl _n _sizeRest : Nat) : Nat := 0\n"
    o += "/-- `Header::parse` reads through `input.by_ref().take(size_rest).read_to_end(&mut buf)` -/\n"
    o += f"def parseReadBounded : Bool := {'true' if read_bounded else 'false'}\n"
    o += both("reserveArg", "reserveArg", ["numItems", "inputLen"],
              "`parse_entry_data_number`: argument of `items.reserve_exact(..)`, in ELEMENTS (var 0 = `num_items : u32`, var 1 = `input.len() : usize`)")
    o += both("headerSize", "headerSize", ["dl", "n"],
              "`Header::size` (var 0 = `data_section_size : u32`, var 1 = `num_entries : u32`), `let`s substituted")
    o += both("padding", "paddingRequired", ["dl"], "`padding_required` (var 0 = `data_section_size : u32`)")
    o += "end RpmVerif.Gen\n"
    emit(T, o)
