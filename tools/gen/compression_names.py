"""C15: the textual names of `CompressionType`, scraped from src/rpm/compressor.rs

Three things are read from the source text:
  * the variant list of `pub enum CompressionType { … }` (declaration order = the value of `variant as usize`,
    which is how the harness identifies a variant without relying on Display or Debug),
  * the `match self` arms of `impl Display for CompressionType`   (variant -> printed name),
  * the `match raw` arms of `impl FromStr for CompressionType`     (accepted text -> variant).
Plus, from src/rpm/package.rs, the variant `get_payload_compressor` returns for an absent tag (C05).
Variants are numbered by declaration order in the Lean tables (string literals do not reduce in the kernel).
"""
import re
from .common import read, emit, rust_str, natlist, degraded


def _block(src, header_re):
    """text of the brace block that follows the first match of header_re"""
    m = re.search(header_re, src)
    if not m:
        return None
    i = src.index("{", m.end() - 1)
    depth, j = 0, i
    while j < len(src):
        if src[j] == "{":
            depth += 1
        elif src[j] == "}":
            depth -= 1
            if depth == 0:
                return src[i + 1:j]
        j += 1
    return None


def generate():
    src = read("src/rpm/compressor.rs")
    variants, display, fromstr = [], [], []
    enum = _block(src, r"pub\s+enum\s+CompressionType\s*\{")
    if enum is None:
        degraded.append(("CompressionNames", "enum CompressionType not found"))
    else:
        body = re.sub(r"//[^\n]*", "", enum)
        body = re.sub(r"#\[[^\]]*\]", "", body)
        variants = [v.strip() for v in body.split(",") if v.strip()]
        if not all(re.fullmatch(r"[A-Za-z_][A-Za-z0-9_]*", v) for v in variants):
            degraded.append(("CompressionNames", f"unexpected variant syntax: {variants!r}"))
            variants = [v for v in variants if re.fullmatch(r"[A-Za-z_][A-Za-z0-9_]*", v)]
    idx = {v: i for i, v in enumerate(variants)}

    disp = _block(src, r"impl\s+(?:std::)?(?:fmt::)?Display\s+for\s+CompressionType\s*\{")
    if disp is None:
        degraded.append(("CompressionNames", "impl Display for CompressionType not found"))
    else:
        for v, s in re.findall(r'(?:Self|CompressionType)::(\w+)\s*=>\s*write!\(\s*f\s*,\s*"((?:[^"\\]|\\.)*)"\s*\)', disp):
            if v in idx:
                display.append((idx[v], rust_str(s)))
            else:
                degraded.append(("CompressionNames", f"Display arm for unknown variant {v}"))
        if re.search(r"\b_\s*=>", disp):
            degraded.append(("CompressionNames", "Display has a wildcard arm (not modelled)"))
    missing = [v for v in variants if idx[v] not in dict(display)]
    if missing:
        degraded.append(("CompressionNames", f"no Display arm scraped for {missing}"))

    frm = _block(src, r"impl\s+(?:std::)?(?:str::)?FromStr\s+for\s+CompressionType\s*\{")
    if frm is None:
        degraded.append(("CompressionNames", "impl FromStr for CompressionType not found"))
    else:
        arms = re.findall(r'((?:"(?:[^"\\]|\\.)*"\s*\|\s*)*"(?:[^"\\]|\\.)*")\s*=>\s*Ok\(\s*(?:Self|CompressionType)::(\w+)\s*\)', frm)
        for pats, v in arms:
            for s in re.findall(r'"((?:[^"\\]|\\.)*)"', pats):
                if v in idx:
                    fromstr.append((rust_str(s), idx[v]))
                else:
                    degraded.append(("CompressionNames", f"FromStr arm for unknown variant {v}"))
        # every `=> Ok(` arm must have been understood (e.g. a guard or a binding pattern is not modelled)
        if len(re.findall(r"=>\s*Ok\(", frm)) != len(arms):
            degraded.append(("CompressionNames", "FromStr has arms the scraper does not understand"))
    if len(variants) < 2:
        degraded.append(("CompressionNames", f"only {len(variants)} variants found"))

    # `PackageMetadata::get_payload_compressor` (src/rpm/package.rs): the variant returned when the tag is absent,
    # `if matches!(e, Error::TagNotFound(_)) { Ok(CompressionType::X) }`
    default = len(variants)  # out of range when the pattern is missing: the dependent theorems then fail
    pk = read("src/rpm/package.rs")
    m = re.search(r"fn\s+get_payload_compressor\s*\(", pk)
    fn = _block(pk, r"fn\s+get_payload_compressor\s*\([^)]*\)[^{]*\{") if m else None
    if fn is None:
        degraded.append(("CompressionNames", "fn get_payload_compressor not found"))
    else:
        dm = re.findall(r"TagNotFound\(\s*_\s*\)\s*\)\s*\{\s*Ok\(\s*CompressionType::(\w+)\s*\)", fn)
        if len(dm) == 1 and dm[0] in idx:
            default = idx[dm[0]]
        else:
            degraded.append(("CompressionNames", f"get_payload_compressor: default variant not understood: {dm!r}"))
        if "CompressionType::from_str" not in fn or "get_entry_data_as_string(IndexTag::RPMTAG_PAYLOADCOMPRESSOR)" not in re.sub(r"\s+", "", fn):
            degraded.append(("CompressionNames", "get_payload_compressor no longer reads RPMTAG_PAYLOADCOMPRESSOR through from_str"))

    body = "namespace RpmVerif.Gen\n"
    body += "/-- variants of `enum CompressionType` in declaration order (index = `variant as usize`); names for display only -/\n"
    body += "def compressionVariants : List String := [" + ", ".join(f'"{v}"' for v in variants) + "]\n"
    body += f"def compressionNumVariants : Nat := {len(variants)}\n"
    body += "/-- (variant index, text written by `impl Display`), code points written out -/\n"
    body += "def compressionDisplay : List (Nat × List Nat) := [\n"
    body += ",\n".join(f"  ({i}, {natlist(s)})  /- {variants[i]} \"{s}\" -/" for i, s in display) + "]\n"
    body += "/-- (text accepted by `impl FromStr`, variant index) in source order; anything else is `Err(UnknownCompressorType)` -/\n"
    body += "def compressionFromStr : List (List Nat × Nat) := [\n"
    body += ",\n".join(f"  ({natlist(s)}, {v})  /- \"{s}\" {variants[v]} -/" for s, v in fromstr) + "]\n"
    body += "/-- variant `get_payload_compressor` (src/rpm/package.rs) returns when RPMTAG_PAYLOADCOMPRESSOR is absent -/\n"
    body += f"def payloadCompressorDefault : Nat := {default}" + (f"  /- {variants[default]} -/" if default < len(variants) else "") + "\n"
    body += "end RpmVerif.Gen\n"
    emit("CompressionNames", body)
