"""C15: the textual names of `CompressionType`, scraped from src/rpm/compressor.rs

Three things are read from the source text:
  * the variant list of `pub enum CompressionType { … }` (declaration order = the value of `variant as usize`,
    which is how the harness identifies a variant without relying on Display or Debug),
  * the `match self` arms of `impl Display for CompressionType`   (variant -> printed name),
  * the `match raw` arms of `impl FromStr for CompressionType`     (accepted text -> variant).
Plus, from src/rpm/package.rs, the variant `get_payload_compressor` returns for an absent tag (C05).
Variants are numbered by declaration order in the Lean tables (string literals do not reduce in the kernel).

Two more facts about variants are read for the read side (C12 / C05, Model/PkgFiles.lean, Model/Accessors.lean):
  * src/rpm/package.rs `get_payload_compressor`: the variant answered when RPMTAG_PAYLOADCOMPRESSOR is absent
    (`if matches!(e, Error::TagNotFound(_)) { Ok(CompressionType::<V>) }`)            -> `payloadCompressorDefault`
  * src/rpm/compressor.rs `decompress_stream`: the variants whose arm hands the reader back unchanged
    (`CompressionType::<V> => Ok(Box::new(reader))`)                                  -> `decompressIdentity`
"""
import re
from .common import read, emit, rust_str, natlist, degraded


def _block(src, header_re):
    """text of the brace block that follows the first match of header_re"""
    m = re.search(header_re, src)
    if not m:
        return None
    i = src.index("{", m.end() - 1)
    depth, j = 0, i
    while j < len(src):
        if src[j] == "{":
            depth += 1
        elif src[j] == "}":
            depth -= 1
            if depth == 0:
                return src[i + 1:j]
        j += 1
    return None


def generate():
    src = read("src/rpm/compressor.rs")
    variants, display, fromstr = [], [], []
    enum = _block(src, r"pub\s+enum\s+CompressionType\s*\{")
    if enum is None:
        degraded.append(("CompressionNames", "enum CompressionType not found"))
    else:
        body = re.sub(r"//[^\n]*", "", enum)
        body = re.sub(r"#\[[^\]]*\]", "", body)
        variants = [v.strip() for v in body.split(",") if v.strip()]
        if not all(re.fullmatch(r"[A-Za-z_][A-Za-z0-9_]*", v) for v in variants):
            degraded.append(("CompressionNames", f"unexpected variant syntax: {variants!r}"))
            variants = [v for v in variants if re.fullmatch(r"[A-Za-z_][A-Za-z0-9_]*", v)]
    idx = {v: i for i, v in enumerate(variants)}

    disp = _block(src, r"impl\s+(?:std::)?(?:fmt::)?Display\s+for\s+CompressionType\s*\{")
    if disp is None:
        degraded.append(("CompressionNames", "impl Display for CompressionType not found"))
    else:
        for v, s in re.findall(r'(?:Self|CompressionType)::(\w+)\s*=>\s*write!\(\s*f\s*,\s*"((?:[^"\\]|\\.)*)"\s*\)', disp):
            if v in idx:
                display.append((idx[v], rust_str(s)))
            else:
                degraded.append(("CompressionNames", f"Display arm for unknown variant {v}"))
        if re.search(r"\b_\s*=>", disp):
            degraded.append(("CompressionNames", "Display has a wildcard arm (not modelled)"))
    missing = [v for v in variants if idx[v] not in dict(display)]
    if missing:
        degraded.append(("CompressionNames", f"no Display arm scraped for {missing}"))

    frm = _block(src, r"impl\s+(?:std::)?(?:str::)?FromStr\s+for\s+CompressionType\s*\{")
    if frm is None:
        degraded.append(("CompressionNames", "impl FromStr for CompressionType not found"))
    else:
        arms = re.findall(r'((?:"(?:[^"\\]|\\.)*"\s*\|\s*)*"(?:[^"\\]|\\.)*")\s*=>\s*Ok\(\s*(?:Self|CompressionType)::(\w+)\s*\)', frm)
        for pats, v in arms:
            for s in re.findall(r'"((?:[^"\\]|\\.)*)"', pats):
                if v in idx:
                    fromstr.append((rust_str(s), idx[v]))
                else:
                    degraded.append(("CompressionNames", f"FromStr arm for unknown variant {v}"))
        # every `=> Ok(` arm must have been understood (e.g. a guard or a binding pattern is not modelled)
        if len(re.findall(r"=>\s*Ok\(", frm)) != len(arms):
            degraded.append(("CompressionNames", "FromStr has arms the scraper does not understand"))
    if len(variants) < 2:
        degraded.append(("CompressionNames", f"only {len(variants)} variants found"))

    body = "namespace RpmVerif.Gen\n"
    body += "/-- variants of `enum CompressionType` in declaration order (index = `variant as usize`); names for display only -/\n"
    body += "def compressionVariants : List String := [" + ", ".join(f'"{v}"' for v in variants) + "]\n"
    body += f"def compressionNumVariants : Nat := {len(variants)}\n"
    body += "/-- (variant index, text written by `impl Display`), code points written out -/\n"
    body += "def compressionDisplay : List (Nat × List Nat) := [\n"
    body += ",\n".join(f"  ({i}, {natlist(s)})  /- {variants[i]} \"{s}\" -/" for i, s in display) + "]\n"
    body += "/-- (text accepted by `impl FromStr`, variant index) in source order; anything else is `Err(UnknownCompressorType)` -/\n"
    body += "def compressionFromStr : List (List Nat × Nat) := [\n"
    body += ",\n".join(f"  ({natlist(s)}, {v})  /- \"{s}\" {variants[v]} -/" for s, v in fromstr) + "]\n"
    # --- read side: default variant of get_payload_compressor, identity arm(s) of decompress_stream
    pkg = read("src/rpm/package.rs")
    default = None
    gp = _block(pkg, r"pub\s+fn\s+get_payload_compressor\s*\([^)]*\)\s*->\s*Result<\s*CompressionType\s*,\s*Error\s*>\s*\{")
    if gp is None:
        degraded.append(("CompressionNames", "fn get_payload_compressor not found in src/rpm/package.rs"))
    else:
        m = re.findall(r"if\s+matches!\(\s*e\s*,\s*Error::TagNotFound\(_\)\s*\)\s*\{\s*Ok\(\s*CompressionType::(\w+)\s*\)\s*\}\s*else\s*\{\s*Err\(e\)\s*\}", gp)
        oks = re.findall(r"Ok\(\s*CompressionType::(\w+)\s*\)", gp)
        if len(m) == 1 and len(oks) == 1 and m[0] in idx and "CompressionType::from_str" in gp:
            default = idx[m[0]]
        else:
            degraded.append(("CompressionNames", f"get_payload_compressor: TagNotFound arm not understood ({m!r}, {oks!r})"))
    ident = []
    ds = _block(src, r"fn\s+decompress_stream\s*\(")
    # `_block` gives the first brace block after the header, which is the function body (the signature has no braces)
    if ds is None:
        degraded.append(("CompressionNames", "fn decompress_stream not found"))
    else:
        arms = re.findall(r"CompressionType::(\w+)\s*=>\s*Ok\(\s*Box::new\(\s*([^;{}]*?)\s*\)\s*\)\s*,", ds)
        understood = 0
        for v, expr in arms:
            if v not in idx:
                degraded.append(("CompressionNames", f"decompress_stream arm for unknown variant {v}"))
                continue
            understood += 1
            if re.fullmatch(r"reader", expr):
                ident.append(idx[v])
        # every variant arm must have been seen (the remaining arrow is the `_ => Err(UnsupportedCompressorType)` fall-through)
        if understood != len(variants) or len(re.findall(r"=>", ds)) != len(variants) + 1:
            degraded.append(("CompressionNames", f"decompress_stream: {len(re.findall(r'=>', ds))} arms, {understood} understood"))
        if not ident:
            degraded.append(("CompressionNames", "decompress_stream: no arm returns the reader unchanged"))
    body += "/-- `get_payload_compressor` (src/rpm/package.rs): the variant answered when RPMTAG_PAYLOADCOMPRESSOR is absent"
    body += (f" (`CompressionType::{variants[default]}`) -/\n" if default is not None else " — NOT FOUND in the source -/\n")
    body += f"def payloadCompressorDefault : Nat := {default if default is not None else len(variants)}\n"
    body += "/-- `decompress_stream` (src/rpm/compressor.rs): the variants whose arm is `Ok(Box::new(reader))` — the payload IS the archive -/\n"
    body += "def decompressIdentity : List Nat := [" + ", ".join(str(i) for i in ident) + "]\n"
    body += "end RpmVerif.Gen\n"
    emit("CompressionNames", body)
