"""C13: the oracle tables of the version comparison, from files VENDORED in /verif (tools/gen/data/), not from /repo.

* rpmvercmp.at.txt     the RPMVERCMP(a, b, r) cases of rpm's own test suite (tests/rpmvercmp.at)
* vercmp_libsolv.txt   ordered pairs of version strings with the answer of libsolv's `solv_vercmp_rpm`
* evrcmp_libsolv.txt   ordered pairs of E:V-R texts with the answer of libsolv's `pool_evrcmp_str` (DISTTYPE_RPM)
  (both computed once by tools/gen/data/mk_libsolv_pairs.py; provenance in the heads of the files)

Until 2026-09-30 the table was scraped from the `compare_version_string(..)` assertions of /repo/src/version.rs, i.e. the
oracle lived in the code under test (notes/AUDIT2.md c40). /repo is not read here any more.

A vector whose strings are pure ASCII is stored once (code points = bytes); the others carry the strings twice: as code
points (what the Rust code iterates over) and as UTF-8 bytes (what rpm's C code iterates over).
"""
import os, re
from .common import emit, degraded

DATA = os.path.join(os.path.dirname(os.path.abspath(__file__)), "data")
ORD = {-1: ".lt", 0: ".eq", 1: ".gt"}
CHUNK = 100


def nats(xs):
    return "[" + ", ".join(str(x) for x in xs) + "]"


def vec(a: bytes, b: bytes, r: int):
    if a.isascii() and b.isascii():
        return f"  ({nats(a)}, {nats(b)}, {ORD[r]})"
    sa, sb = a.decode("utf-8"), b.decode("utf-8")
    return f"  (({nats(map(ord, sa))}, {nats(map(ord, sb))}), ({nats(a)}, {nats(b)}), {ORD[r]})"


def one_table(name, ty, doc, vs):
    """a long list literal is slow to elaborate: the table is the concatenation of chunks of CHUNK vectors"""
    chunks = [vs[i:i + CHUNK] for i in range(0, len(vs), CHUNK)] or [[]]
    out = ""
    for k, c in enumerate(chunks):
        out += f"def {name}_{k} : List {ty} := [\n" + ",\n".join(vec(*v) for v in c) + "]\n"
    out += f"/-- {doc} ({len(vs)} vectors) -/\n"
    out += f"def {name} : List {ty} := " + " ++ ".join(f"{name}_{k}" for k in range(len(chunks))) + "\n"
    return out


def table(name, doc, vs):
    asc = [v for v in vs if v[0].isascii() and v[1].isascii()]
    uni = [v for v in vs if not (v[0].isascii() and v[1].isascii())]
    return (one_table(name, "AsciiVec", doc + " — the pure-ASCII ones", asc)
            + one_table(name + "U", "Utf8Vec", doc + " — the ones with non-ASCII characters", uni))


def read_at():
    out = []
    for line in open(os.path.join(DATA, "rpmvercmp.at.txt"), encoding="utf-8"):
        line = line.strip()
        if not line or line.startswith("#"):
            continue
        m = re.match(r"RPMVERCMP\((.*), (.*), (-?[01])\)$", line)
        if not m:
            raise ValueError("unreadable line: " + line)
        out.append((m.group(1).encode("utf-8"), m.group(2).encode("utf-8"), int(m.group(3))))
    return out


def read_pairs(name):
    out = []
    for line in open(os.path.join(DATA, name), encoding="utf-8"):
        if line.startswith("#") or not line.strip():
            continue
        t = line.split()
        a = b"" if t[0] == "-" else bytes.fromhex(t[0])
        b = b"" if t[1] == "-" else bytes.fromhex(t[1])
        out.append((a, b, int(t[2])))
    return out


def generate():
    try:
        at = read_at()
        solv = read_pairs("vercmp_libsolv.txt")
        evr = read_pairs("evrcmp_libsolv.txt")
    except (OSError, ValueError) as e:
        degraded.append(("VercmpVectors", f"vendored oracle tables unreadable: {e}"))
        return
    if len(at) < 100 or len(solv) < 300 or len(evr) < 100:
        degraded.append(("VercmpVectors", f"vendored oracle tables too short: {len(at)}, {len(solv)}, {len(evr)}"))
    body = "namespace RpmVerif.Gen\n"
    body += ("/-! Oracle vectors of C13. Source: files vendored under /verif/tools/gen/data (NOT /repo) — see tools/gen/vercmp_vectors.py -/\n"
             "/-- (a, b, expected): two pure-ASCII strings (code points = bytes) -/\n"
             "abbrev AsciiVec := List Nat × List Nat × Ordering\n"
             "/-- ((a, b) as code points — what the Rust code iterates over, (a, b) as UTF-8 bytes — what rpm's C code iterates over, expected) -/\n"
             "abbrev Utf8Vec := (List Nat × List Nat) × (List Nat × List Nat) × Ordering\n")
    body += table("vercmpVectors", "the `RPMVERCMP(a, b, r)` cases of rpm's own tests/rpmvercmp.at (tools/gen/data/rpmvercmp.at.txt)", at)
    body += table("vercmpLibsolvVectors", "ordered pairs answered by libsolv's `solv_vercmp_rpm` (tools/gen/data/vercmp_libsolv.txt)", solv)
    body += table("evrLibsolvVectors", "ordered pairs of E:V-R texts answered by libsolv's `pool_evrcmp_str` (tools/gen/data/evrcmp_libsolv.txt)", evr)
    body += "end RpmVerif.Gen\n"
    emit("VercmpVectors", body)
