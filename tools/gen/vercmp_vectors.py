"""C13: rpm's own test vectors, scraped from the unit tests in src/version.rs"""
import re
from .common import read, emit, rust_str, natlist, degraded


def generate():
    src = read("src/version.rs")
    pat = re.compile(r'assert_eq!\(\s*Ordering::(Equal|Less|Greater),\s*compare_version_string\(\s*"((?:[^"\\]|\\.)*)",\s*"((?:[^"\\]|\\.)*)"\s*\)', re.S)
    vecs = [(rust_str(a), rust_str(b), {"Equal": ".eq", "Less": ".lt", "Greater": ".gt"}[o]) for o, a, b in pat.findall(src)]
    if len(vecs) < 50:
        degraded.append(("VercmpVectors", f"only {len(vecs)} vectors found"))
    body = "namespace RpmVerif.Gen\n"
    body += "/-- (a, b, expected) from the `compare_version_string(..)` assertions in src/version.rs\n(rpm's rpmvercmp.at cases); code points written out -/\n"
    body += "def vercmpVectors : List (List Nat × List Nat × Ordering) := [\n"
    body += ",\n".join(f"  ({natlist(a)}, {natlist(b)}, {o})" for a, b, o in vecs)
    body += "]\nend RpmVerif.Gen\n"
    emit("VercmpVectors", body)
