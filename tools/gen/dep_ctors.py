"""C06: the constructors of `impl Dependency` (src/rpm/headers/types.rs), one table row per `pub fn`

Every constructor has the shape

    pub fn NAME(<name argument>[, version: impl Into<String>]) -> Self {
        Self::new(<name expr>, <flags expr>, <version expr>)
    }

with  <name expr>    = `ARG.into()`                     (the argument as given)
                     | `format!("pre{}post", ARG[.into()])`   (the argument wrapped in fixed text)
      <flags expr>   = `DependencyFlags::A | DependencyFlags::B | …`
      <version expr> = `version.into()`                 (the second argument)
                     | `"lit".to_string()` / `"lit".to_owned()` / `String::new()`   (fixed text)

The flags are emitted as a Lean expression over `Gen.DependencyFlags.*` (the bitflags values are scraped from
src/constants.rs by constants.py), so no number is typed or computed here. Rows are in source order; the harness and the
driver identify a constructor by its NAME. Anything that does not have the shape degrades the table.
"""
import re
from .common import read, emit, rust_str, degraded


def _strip_comments(src):
    src = re.sub(r"/\*.*?\*/", "", src, flags=re.S)
    return re.sub(r"//[^\n]*", "", src)


def _block_at(src, i):
    """text of the brace block opening at src[i] == '{'"""
    depth, j = 0, i
    while j < len(src):
        if src[j] == "{":
            depth += 1
        elif src[j] == "}":
            depth -= 1
            if depth == 0:
                return src[i + 1:j]
        j += 1
    return None


def _split_args(s):
    """split on top-level commas (parentheses / string literals respected)"""
    out, depth, cur, i = [], 0, "", 0
    while i < len(s):
        c = s[i]
        if c == '"':
            j = i + 1
            while j < len(s) and s[j] != '"':
                j += 2 if s[j] == "\\" else 1
            cur += s[i:j + 1]
            i = j + 1
            continue
        if c in "([{":
            depth += 1
        elif c in ")]}":
            depth -= 1
        if c == "," and depth == 0:
            out.append(cur.strip())
            cur = ""
        else:
            cur += c
        i += 1
    if cur.strip():
        out.append(cur.strip())
    return out


def _bytes(s):
    return "[" + ", ".join(str(b) for b in s.encode("utf-8")) + "]"


def generate():
    src = _strip_comments(read("src/rpm/headers/types.rs"))
    rows = []
    m = re.search(r"\bimpl\s+Dependency\s*\{", src)
    body = _block_at(src, m.end() - 1) if m else None
    if body is None:
        degraded.append(("DepCtors", "impl Dependency not found"))
        body = ""
    for fm in re.finditer(r"\bpub\s+fn\s+(\w+)\s*\(([^)]*)\)\s*->\s*Self\s*\{", body):
        name, params = fm.group(1), fm.group(2)
        fbody = _block_at(body, fm.end() - 1)
        pnames = [p.split(":")[0].strip() for p in _split_args(params)]
        cm = re.fullmatch(r"\s*Self::new\s*\((.*)\)\s*", fbody or "", re.S)
        if not cm or not pnames:
            degraded.append(("DepCtors", f"constructor {name}: body is not a single Self::new(..) call"))
            continue
        args = _split_args(cm.group(1))
        if len(args) != 3:
            degraded.append(("DepCtors", f"constructor {name}: Self::new with {len(args)} arguments"))
            continue
        a_name, a_flags, a_ver = [re.sub(r"\s+", " ", a).rstrip(",").strip() for a in args]
        arg0 = re.escape(pnames[0])
        # name
        if re.fullmatch(arg0 + r"(\.into\(\))?", a_name):
            pre, post = "", ""
        else:
            fmm = re.fullmatch(r'format!\(\s*"((?:[^"\\]|\\.)*)"\s*,\s*' + arg0 + r"(?:\.into\(\))?\s*,?\s*\)", a_name)
            lit = rust_str(fmm.group(1)).replace("{{", "\x00").replace("}}", "\x01") if fmm else None
            if lit is None or lit.count("{}") != 1 or "{" in lit.replace("{}", "") or "}" in lit.replace("{}", ""):
                degraded.append(("DepCtors", f"constructor {name}: name expression not understood: {a_name!r}"))
                continue
            pre, post = [x.replace("\x00", "{").replace("\x01", "}") for x in lit.split("{}")]
        # flags
        parts = [p.strip() for p in a_flags.split("|")]
        if not all(re.fullmatch(r"DependencyFlags::[A-Z_0-9]+", p) for p in parts):
            degraded.append(("DepCtors", f"constructor {name}: flags expression not understood: {a_flags!r}"))
            continue
        flags = " ||| ".join("DependencyFlags." + p.split("::")[1] for p in parts)
        # version
        if len(pnames) >= 2 and re.fullmatch(re.escape(pnames[1]) + r"(\.into\(\))?", a_ver):
            ver = "none"
        else:
            vm = re.fullmatch(r'"((?:[^"\\]|\\.)*)"\.(?:to_string|to_owned|into)\(\)', a_ver)
            if vm:
                ver = "(some " + _bytes(rust_str(vm.group(1))) + ")"
            elif a_ver == "String::new()":
                ver = "(some [])"
            else:
                degraded.append(("DepCtors", f"constructor {name}: version expression not understood: {a_ver!r}"))
                continue
        if len(pnames) > 2 or (ver != "none" and len(pnames) != 1):
            degraded.append(("DepCtors", f"constructor {name}: unexpected parameter list {pnames!r}"))
            continue
        rows.append((name, pre, post, flags, ver))
    if len(rows) < 4:
        degraded.append(("DepCtors", f"only {len(rows)} constructors understood"))
    # every `pub fn` of the impl must have been understood
    npub = len(re.findall(r"\bpub\s+fn\s+\w+", body))
    if npub != len(rows):
        degraded.append(("DepCtors", f"{npub} pub fns in impl Dependency, {len(rows)} understood"))

    out = "namespace RpmVerif.Gen\n"
    out += "/-- one `pub fn` of `impl Dependency` (src/rpm/headers/types.rs): the dependency's name is `pre ++ <name argument> ++ post`\n"
    out += "(UTF-8 bytes), its flags are `flags`, its version is the fixed text `version` or — `none` — the version argument -/\n"
    out += "structure DepCtor where\n  pre : List UInt8\n  post : List UInt8\n  flags : Nat\n  version : Option (List UInt8)\n  deriving DecidableEq, Repr\n"
    out += "/-- constructor names in source order (the wire identifies a constructor by name; `depCtors` is parallel) -/\n"
    out += "def depCtorNames : List String := [" + ", ".join(f'"{r[0]}"' for r in rows) + "]\n"
    out += "def depCtors : List DepCtor := [\n"
    out += ",\n".join(f"  ⟨{_bytes(r[1])}, {_bytes(r[2])}, {r[3]}, {r[4].strip('()') if r[4] == 'none' else r[4][1:-1]}⟩  /- {r[0]} -/" for r in rows) + "]\n"
    out += "end RpmVerif.Gen\n"
    emit("DepCtors", out, imports=["RpmVerif.Gen.Constants"])
