"""C17: the compression levels `TryFrom<CompressionWithLevel> for Compressor` accepts, scraped from src/rpm/compressor.rs

Read from the source text:
  * the variants of `pub enum CompressionWithLevel { … }` with their payload type (`Zstd(i32)`, `Gzip(u32)`, `None`):
    declaration order numbers the variants, the payload type gives the values a caller can pass at all;
  * the arms of `let level_in_range = match value { … };` in `try_from`, of the three shapes that occur:
    `V(level) => level <= N`, `V(level) => (A..=B).contains(&level)`, `V => true` / `V(_) => true`;
  * that an out-of-range level leads to `return Err(` (and not to a panic / clamp): the text between the
    match and the second `match value` must contain `if !level_in_range {` followed by `return Err(`.
Anything else (another arm shape, a wildcard arm, a missing variant) degrades the table.
"""
import re
from .common import read, emit, degraded
from .compression_names import _block

T = "CompressionLevels"
TYPES = {"u8": (0, 2**8 - 1), "u16": (0, 2**16 - 1), "u32": (0, 2**32 - 1), "u64": (0, 2**64 - 1),
         "i8": (-2**7, 2**7 - 1), "i16": (-2**15, 2**15 - 1), "i32": (-2**31, 2**31 - 1), "i64": (-2**63, 2**63 - 1)}


def _int(s):
    return int(s.replace("_", "").replace(" ", ""))


def generate():
    src = read("src/rpm/compressor.rs")
    variants, argtype, accepted, unchecked = [], {}, {}, []
    enum = _block(src, r"pub\s+enum\s+CompressionWithLevel\s*\{")
    if enum is None:
        degraded.append((T, "enum CompressionWithLevel not found"))
    else:
        body = re.sub(r"//[^\n]*", "", enum)
        body = re.sub(r"#\[[^\]]*\]", "", body)
        for item in [v.strip() for v in body.split(",") if v.strip()]:
            m = re.fullmatch(r"([A-Za-z_]\w*)(?:\(\s*(\w+)\s*\))?", item)
            if not m:
                degraded.append((T, f"unexpected variant syntax: {item!r}"))
                continue
            variants.append(m.group(1))
            if m.group(2):
                if m.group(2) in TYPES:
                    argtype[m.group(1)] = TYPES[m.group(2)]
                else:
                    degraded.append((T, f"payload type {m.group(2)} of {m.group(1)} not understood"))
    idx = {v: i for i, v in enumerate(variants)}

    m = re.search(r"let\s+level_in_range\s*=\s*match\s+value\s*\{", src)
    errors_out = False
    if not m:
        degraded.append((T, "`let level_in_range = match value {` not found"))
    else:
        arms_txt = _block(src[m.start():], r"match\s+value\s*\{") or ""
        arms_txt = re.sub(r"//[^\n]*", "", arms_txt)
        arms = [a.strip() for a in arms_txt.split(",\n") if a.strip()]
        arms = [a.rstrip(",").strip() for a in arms]
        for arm in arms:
            am = re.fullmatch(r"(?:CompressionWithLevel|Self)::(\w+)(?:\(\s*(\w+)\s*\))?\s*=>\s*(.+)", arm, re.S)
            if not am:
                degraded.append((T, f"arm not understood: {arm!r}"))
                continue
            v, var, cond = am.group(1), am.group(2), am.group(3).strip()
            if v not in idx:
                degraded.append((T, f"arm for unknown variant {v}"))
                continue
            if cond == "true":
                unchecked.append(v)
                continue
            if v not in argtype or not var or var == "_":
                degraded.append((T, f"condition on {v} without a bound payload: {cond!r}"))
                continue
            tlo, thi = argtype[v]
            c = re.fullmatch(rf"{var}\s*<=\s*(-?[\d_]+)", cond)
            if c:
                accepted[v] = (tlo, min(thi, _int(c.group(1))))
                continue
            c = re.fullmatch(rf"\(\s*(-?[\d_]+)\s*\.\.=\s*(-?[\d_]+)\s*\)\s*\.contains\(\s*&{var}\s*\)", cond)
            if c:
                accepted[v] = (max(tlo, _int(c.group(1))), min(thi, _int(c.group(2))))
                continue
            degraded.append((T, f"condition of {v} not understood: {cond!r}"))
        # what happens when the test fails
        after = src[m.end():]
        nxt = re.search(r"\n\s*match\s+value\s*\{", after)
        between = after[:nxt.start()] if nxt else after[:600]
        errors_out = bool(re.search(r"if\s+!\s*level_in_range\s*\{\s*return\s+Err\(", between))
        if not errors_out:
            degraded.append((T, "`if !level_in_range { return Err(` not found after the range test"))
    for v in variants:
        if v not in accepted and v not in unchecked:
            degraded.append((T, f"no range arm scraped for {v}"))
    if len(variants) < 2:
        degraded.append((T, f"only {len(variants)} variants found"))

    body = "namespace RpmVerif.Gen\n"
    body += "/-- variants of `enum CompressionWithLevel` in declaration order (names for display / the wire only) -/\n"
    body += "def levelVariants : List String := [" + ", ".join(f'"{v}"' for v in variants) + "]\n"
    body += "/-- (variant index, least and greatest value of the payload type); no entry = the variant carries no level -/\n"
    body += "def levelArgType : List (Nat × Int × Int) := [" + ", ".join(
        f"({idx[v]}, {argtype[v][0]}, {argtype[v][1]})" for v in variants if v in argtype) + "]\n"
    body += "/-- (variant index, lo, hi): `level_in_range` is `lo ≤ level ≤ hi`; variants whose arm is `true` have no entry -/\n"
    body += "def levelAccepted : List (Nat × Int × Int) := [" + ", ".join(
        f"({idx[v]}, {accepted[v][0]}, {accepted[v][1]})  /- {v} -/" for v in variants if v in accepted) + "]\n"
    body += "/-- an out-of-range level takes the `return Err(..)` path -/\n"
    body += f"def levelOutOfRangeIsErr : Bool := {'true' if errors_out else 'false'}\n"
    body += "end RpmVerif.Gen\n"
    emit(T, body)
