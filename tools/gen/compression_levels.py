"""C17: the compression levels `TryFrom<CompressionWithLevel> for Compressor` accepts, scraped from src/rpm/compressor.rs

Read from the source text:
  * the variants of `pub enum CompressionWithLevel { … }` with their payload type (`Zstd(i32)`, `Gzip(u32)`, `None`):
    declaration order numbers the variants, the payload type gives the values a caller can pass at all;
  * the arms of `let level_in_range = match value { … };` in `try_from`, of the three shapes that occur:
    `V(level) => level <= N`, `V(level) => (A..=B).contains(&level)`, `V => true` / `V(_) => true`;
  * that an out-of-range level leads to `return Err(` (and not to a panic / clamp): the text between the
    match and the second `match value` must contain `if !level_in_range {` followed by `return Err(`.
Anything else (another arm shape, a wildcard arm, a missing variant) degrades the table.

Default compression (C17 / C09, coverage gap G6), from the same file and Cargo.toml:
  * the arms of `impl From<CompressionType> for CompressionWithLevel` (`CompressionType::Gzip => CompressionWithLevel::Gzip(9)`):
    `defaultOfType` = (CompressionType index, CompressionWithLevel index, level);
  * `impl Default for CompressionWithLevel`: a sequence of `#[cfg(feature = "F")] return CompressionType::X.into();`
    followed by the fall-back `CompressionType::Y.into()`; a feature is identified by the CompressionType variant it gates
    in `pub enum Compressor` (`#[cfg(feature = "gzip-compression")] Gzip(..)`): `defaultPreference` = (gated type, returned type);
  * the `default = [..]` feature list of Cargo.toml: `cargoDefaultFeatureTypes` = the types whose feature is on by default.
"""
import re
from .common import read, emit, degraded
from .compression_names import _block

T = "CompressionLevels"
TYPES = {"u8": (0, 2**8 - 1), "u16": (0, 2**16 - 1), "u32": (0, 2**32 - 1), "u64": (0, 2**64 - 1),
         "i8": (-2**7, 2**7 - 1), "i16": (-2**15, 2**15 - 1), "i32": (-2**31, 2**31 - 1), "i64": (-2**63, 2**63 - 1)}


def _int(s):
    return int(s.replace("_", "").replace(" ", ""))


def generate():
    src = read("src/rpm/compressor.rs")
    variants, argtype, accepted, unchecked = [], {}, {}, []
    enum = _block(src, r"pub\s+enum\s+CompressionWithLevel\s*\{")
    if enum is None:
        degraded.append((T, "enum CompressionWithLevel not found"))
    else:
        body = re.sub(r"//[^\n]*", "", enum)
        body = re.sub(r"#\[[^\]]*\]", "", body)
        for item in [v.strip() for v in body.split(",") if v.strip()]:
            m = re.fullmatch(r"([A-Za-z_]\w*)(?:\(\s*(\w+)\s*\))?", item)
            if not m:
                degraded.append((T, f"unexpected variant syntax: {item!r}"))
                continue
            variants.append(m.group(1))
            if m.group(2):
                if m.group(2) in TYPES:
                    argtype[m.group(1)] = TYPES[m.group(2)]
                else:
                    degraded.append((T, f"payload type {m.group(2)} of {m.group(1)} not understood"))
    idx = {v: i for i, v in enumerate(variants)}

    # The range test: the first `match` in the file all of whose arms are `<variant pattern> => <boolean condition on the
    # payload>` (wherever it lives: inline in `try_from` as `let level_in_range = match value {…}`, or in a helper method).
    # Arm shapes understood: `V => true`, `V(_) => true`, `V(x) => x <= N`, `x < N`, `(A..=B).contains(&x)`, `(A..B).contains(&x)`,
    # and or-patterns `V(x) | W(x) => …` (the same condition for each alternative).
    errors_out = False
    found = None
    for mm in re.finditer(r"match\s+[\*&]?\s*[\w\.]+\s*\{", src):
        arms_txt = _block(src[mm.start():], r"match\s+[\*&]?\s*[\w\.]+\s*\{") or ""
        arms_txt = re.sub(r"//[^\n]*", "", arms_txt)
        arms = [a.strip().rstrip(",").strip() for a in re.split(r",\s*\n", arms_txt) if a.strip()]
        acc, unch, ok = {}, [], bool(arms)
        for arm in arms:
            am = re.fullmatch(r"(.+?)\s*=>\s*(.+)", arm, re.S)
            if not am:
                ok = False
                break
            cond = am.group(2).strip()
            for alt in [x.strip() for x in am.group(1).split("|")]:
                pm = re.fullmatch(r"(?:CompressionWithLevel|Self)::(\w+)(?:\(\s*(\w+)\s*\))?", alt)
                if not pm or pm.group(1) not in idx:
                    ok = False
                    break
                v, var = pm.group(1), pm.group(2)
                if cond == "true":
                    unch.append(v)
                    continue
                if v not in argtype or not var or var == "_":
                    ok = False
                    break
                tlo, thi = argtype[v]
                c = re.fullmatch(rf"{var}\s*(<=|<)\s*(-?[\d_]+)", cond)
                if c:
                    acc[v] = (tlo, min(thi, _int(c.group(2)) - (1 if c.group(1) == "<" else 0)))
                    continue
                c = re.fullmatch(rf"\(\s*(-?[\d_]+)\s*(\.\.=|\.\.)\s*(-?[\d_]+)\s*\)\s*\.contains\(\s*&{var}\s*\)", cond)
                if c:
                    acc[v] = (max(tlo, _int(c.group(1))), min(thi, _int(c.group(3)) - (1 if c.group(2) == ".." else 0)))
                    continue
                ok = False
                break
            if not ok:
                break
        if ok and acc and set(acc) | set(unch) == set(variants):
            found = (mm, acc, unch)
            break
    if not found:
        degraded.append((T, "no `match` whose arms give a level range for every variant of CompressionWithLevel"))
    else:
        mm, acc, unch = found
        accepted.update(acc)
        unchecked.extend(unch)
        # what happens when the test fails: within the next 700 characters an `Err(` is produced and there is no panic / clamp
        after = src[mm.end():mm.end() + 900]
        errors_out = bool(re.search(r"Err\(", after)) and not re.search(r"panic!|unwrap\(\)|\.clamp\(|\.min\(|\.max\(", after.split("match", 1)[0] if "match" in after else after)
        if not errors_out:
            degraded.append((T, "no `Err(` path found after the range test"))
    for v in variants:
        if v not in accepted and v not in unchecked:
            degraded.append((T, f"no range arm scraped for {v}"))
    if len(variants) < 2:
        degraded.append((T, f"only {len(variants)} variants found"))

    defaults_body = _defaults(src, idx)

    body = "namespace RpmVerif.Gen\n"
    body += "/-- variants of `enum CompressionWithLevel` in declaration order (names for display / the wire only) -/\n"
    body += "def levelVariants : List String := [" + ", ".join(f'"{v}"' for v in variants) + "]\n"
    body += "/-- (variant index, least and greatest value of the payload type); no entry = the variant carries no level -/\n"
    body += "def levelArgType : List (Nat × Int × Int) := [" + ", ".join(
        f"({idx[v]}, {argtype[v][0]}, {argtype[v][1]})" for v in variants if v in argtype) + "]\n"
    body += "/-- (variant index, lo, hi): `level_in_range` is `lo ≤ level ≤ hi`; variants whose arm is `true` have no entry -/\n"
    body += "def levelAccepted : List (Nat × Int × Int) := [" + ", ".join(
        f"({idx[v]}, {accepted[v][0]}, {accepted[v][1]})  /- {v} -/" for v in variants if v in accepted) + "]\n"
    body += "/-- an out-of-range level takes the `return Err(..)` path -/\n"
    body += f"def levelOutOfRangeIsErr : Bool := {'true' if errors_out else 'false'}\n"
    body += defaults_body
    body += "end RpmVerif.Gen\n"
    emit(T, body)


def _type_variants(src):
    enum = _block(src, r"pub\s+enum\s+CompressionType\s*\{")
    if enum is None:
        return []
    body = re.sub(r"//[^\n]*", "", enum)
    body = re.sub(r"#\[[^\]]*\]", "", body)
    return [v.strip() for v in body.split(",") if re.fullmatch(r"[A-Za-z_]\w*", v.strip())]


def _defaults(src, widx):
    """tables for `From<CompressionType> for CompressionWithLevel` and `Default for CompressionWithLevel`"""
    tvars = _type_variants(src)
    tidx = {v: i for i, v in enumerate(tvars)}
    if len(tvars) < 2:
        degraded.append((T, "enum CompressionType not found (default tables)"))
    # --- From<CompressionType> ---
    of_type = []
    frm = _block(src, r"impl\s+From<CompressionType>\s+for\s+CompressionWithLevel\s*\{")
    if frm is None:
        degraded.append((T, "impl From<CompressionType> for CompressionWithLevel not found"))
    else:
        arms_txt = re.sub(r"//[^\n]*", "", _block(frm, r"match\s+value\s*\{") or "")
        seen = set()
        for arm in [a.strip().rstrip(",").strip() for a in arms_txt.split(",\n") if a.strip()]:
            am = re.fullmatch(r"CompressionType::(\w+)\s*=>\s*(?:CompressionWithLevel|Self)::(\w+)(?:\(\s*(-?[\d_]+)\s*\))?", arm)
            if not am or am.group(1) not in tidx or am.group(2) not in widx:
                degraded.append((T, f"From<CompressionType> arm not understood: {arm!r}"))
                continue
            seen.add(am.group(1))
            of_type.append((tidx[am.group(1)], widx[am.group(2)], None if am.group(3) is None else _int(am.group(3)), am.group(1)))
        for v in tvars:
            if v not in seen:
                degraded.append((T, f"no From<CompressionType> arm scraped for {v}"))
    # --- which feature gates which type: `pub enum Compressor { #[cfg(feature = "F")] V(..), … }` ---
    gate = {}
    comp = _block(src, r"pub\s+enum\s+Compressor\s*\{")
    if comp is None:
        degraded.append((T, "enum Compressor not found"))
    else:
        comp = re.sub(r"//[^\n]*", "", comp)
        for fm in re.finditer(r'#\[cfg\(feature\s*=\s*"([^"]+)"\)\]\s*(\w+)\s*\(', comp):
            if fm.group(2) in tidx:
                gate[fm.group(1)] = tidx[fm.group(2)]
    # --- Default ---
    pref, fallback = [], None
    dflt = _block(src, r"impl\s+Default\s+for\s+CompressionWithLevel\s*\{")
    fn = _block(dflt or "", r"fn\s+default\s*\(\s*\)\s*->\s*Self\s*\{")
    if fn is None:
        degraded.append((T, "impl Default for CompressionWithLevel not found"))
    else:
        fn = re.sub(r"//[^\n]*", "", fn)
        pos = 0
        for fm in re.finditer(r'#\[cfg\(feature\s*=\s*"([^"]+)"\)\]\s*return\s+CompressionType::(\w+)\.into\(\)\s*;', fn):
            if fn[pos:fm.start()].strip():
                degraded.append((T, f"unexpected text in Default::default: {fn[pos:fm.start()].strip()!r}"))
            pos = fm.end()
            if fm.group(1) not in gate or fm.group(2) not in tidx:
                degraded.append((T, f"Default::default: feature {fm.group(1)} / type {fm.group(2)} not understood"))
                continue
            pref.append((gate[fm.group(1)], tidx[fm.group(2)], fm.group(1)))
        tail = re.fullmatch(r"CompressionType::(\w+)\.into\(\)", fn[pos:].strip())
        if tail and tail.group(1) in tidx:
            fallback = tidx[tail.group(1)]
        else:
            degraded.append((T, f"fall-back of Default::default not understood: {fn[pos:].strip()!r}"))
    # --- Cargo.toml default features ---
    cargo = read("Cargo.toml")
    dm = re.search(r"^default\s*=\s*\[(.*?)\]", cargo, re.S | re.M)
    default_types = []
    if not dm:
        degraded.append((T, "`default = [..]` not found in Cargo.toml"))
    else:
        for f in re.findall(r'"([^"]+)"', dm.group(1)):
            if f in gate:
                default_types.append(gate[f])
    b = "/-- `impl From<CompressionType> for CompressionWithLevel`: (CompressionType index, CompressionWithLevel index, level);\n"
    b += "    CompressionType variants in declaration order: " + ", ".join(f"{i} = {v}" for i, v in enumerate(tvars)) + " -/\n"
    b += "def defaultOfType : List (Nat × Nat × Option Int) := [" + ", ".join(
        f"({t}, {w}, {'none' if l is None else 'some (' + str(l) + ')'})  /- {n} -/" for t, w, l, n in of_type) + "]\n"
    b += "/-- the cargo feature that compiles a CompressionType's codec in: (CompressionType index, feature name) -/\n"
    b += "def compressionFeature : List (Nat × String) := [" + ", ".join(f'({t}, "{f}")' for f, t in sorted(gate.items(), key=lambda kv: kv[1])) + "]\n"
    b += "/-- `impl Default for CompressionWithLevel`, in source order: (type whose feature is tested, type returned when it is on) -/\n"
    b += "def defaultPreference : List (Nat × Nat) := [" + ", ".join(f"({g}, {t})  /- {f} -/" for g, t, f in pref) + "]\n"
    b += "/-- … and the type returned when none of them is on (a placeholder ≥ the number of variants when not understood) -/\n"
    b += f"def defaultFallback : Nat := {fallback if fallback is not None else 99}\n"
    b += "/-- the CompressionTypes whose feature is in Cargo.toml's `default = [..]` -/\n"
    b += "def cargoDefaultFeatureTypes : List Nat := [" + ", ".join(str(t) for t in default_types) + "]\n"
    return b
