"""C05: constants inside `PackageMetadata::get_file_entries` (src/rpm/package.rs) that the accessor model carries as literals

* the digest algorithm the entries are labelled with when `get_file_digest_algorithm()` fails:
  `.get_file_digest_algorithm().unwrap_or(DigestAlgorithm::<Variant>)` -> the variant's discriminant (src/constants.rs);
* the two size tags in the order they are tried: `get_entry_data_as_u64_array(IndexTag::<A>).or_else(.. get_entry_data_as_u32_array(IndexTag::<B>)`;
* the same for `get_installed_size` (`get_entry_data_as_u64(IndexTag::<A>).or_else(.. get_entry_data_as_u32(IndexTag::<B>)`).

Props/C05.lean proves that the model's literals are these (`digest_algo_fallback`, `size_tags_scraped`)."""
import re
from .common import read, emit, degraded

T = "FileEntriesShape"


def generate():
    src = read("src/rpm/package.rs")
    consts = read("src/constants.rs")
    en = re.search(r"pub\s+enum\s+DigestAlgorithm\s*\{(.*?)\}", consts, re.S)
    disc = dict(re.findall(r"(\w+)\s*=\s*(\d+)", en.group(1))) if en else {}
    tags = dict(re.findall(r"\b(RPMTAG_\w+)\s*=\s*(\d+)", consts))
    fallback, variant = None, "?"
    m = re.search(r"pub\s+fn\s+get_file_entries\s*\(.*?\n    \}\n", src, re.S)
    body = m.group(0) if m else ""
    if not m:
        degraded.append((T, "fn get_file_entries not found"))
    f = re.findall(r"\.get_file_digest_algorithm\(\)\s*\.unwrap_or\(\s*DigestAlgorithm::(\w+)\s*\)", body)
    if len(f) == 1 and f[0] in disc:
        fallback, variant = int(disc[f[0]]), f[0]
    else:
        degraded.append((T, "`.get_file_digest_algorithm().unwrap_or(DigestAlgorithm::X)` not found exactly once"))
    s = re.findall(r"get_entry_data_as_u64_array\(\s*IndexTag::(\w+)\s*\)\s*\.or_else\(.*?get_entry_data_as_u32_array\(\s*IndexTag::(\w+)\s*\)", body, re.S)
    sizes = None
    if len(s) == 1 and s[0][0] in tags and s[0][1] in tags:
        sizes = (int(tags[s[0][0]]), int(tags[s[0][1]]))
    else:
        degraded.append((T, "`get_entry_data_as_u64_array(IndexTag::A).or_else(.. get_entry_data_as_u32_array(IndexTag::B)` not found exactly once"))
    mi = re.search(r"pub\s+fn\s+get_installed_size\s*\(.*?\n    \}\n", src, re.S)
    ib = mi.group(0) if mi else ""
    i = re.findall(r"get_entry_data_as_u64\(\s*IndexTag::(\w+)\s*\)\s*\.or_else\(.*?get_entry_data_as_u32\(\s*IndexTag::(\w+)\s*\)", ib, re.S)
    inst = None
    if len(i) == 1 and i[0][0] in tags and i[0][1] in tags:
        inst = (int(tags[i[0][0]]), int(tags[i[0][1]]))
    else:
        degraded.append((T, "get_installed_size: `get_entry_data_as_u64(IndexTag::A).or_else(.. get_entry_data_as_u32(IndexTag::B)` not found exactly once"))
    out = "namespace RpmVerif.Gen\n"
    out += f"/-- `get_file_entries`: `.get_file_digest_algorithm().unwrap_or(DigestAlgorithm::{variant})` as the variant's discriminant -/\n"
    out += f"def fileDigestAlgoFallback : Nat := {fallback if fallback is not None else 0}\n"
    out += "/-- `get_file_entries`: (tag read first as a u64 array, tag read as a u32 array only when that getter fails) -/\n"
    out += f"def fileSizeTags : Nat × Nat := ({sizes[0] if sizes else 0}, {sizes[1] if sizes else 0})\n"
    out += "/-- `get_installed_size`: (tag read first as u64, tag read as u32 only when that getter fails) -/\n"
    out += f"def installedSizeTags : Nat × Nat := ({inst[0] if inst else 0}, {inst[1] if inst else 0})\n"
    out += "end RpmVerif.Gen\n"
    emit(T, out)
