"""C05: the (digest algorithm -> hex length) pairs `FileDigest::new` accepts, scraped from src/rpm/headers/header.rs

Read from the source text: the arms `DigestAlgorithm::<Variant> if digest.digest.len() == <N> => digest,` inside
`impl FileDigest { pub(crate) fn new(..) }`, and that every other case is `return Err(Error::UnsupportedDigestAlgorithm(`.
The variant is translated to its discriminant through `enum DigestAlgorithm` of src/constants.rs."""
import re
from .common import read, emit, degraded

T = "FileDigestLen"


def generate():
    src = read("src/rpm/headers/header.rs")
    consts = read("src/constants.rs")
    pairs, other_is_err = [], False
    m = re.search(r"impl\s+FileDigest\s*\{.*?fn\s+new\s*\(.*?\n    \}", src, re.S)
    if not m:
        degraded.append((T, "impl FileDigest { fn new } not found"))
    else:
        body = m.group(0)
        arms = re.findall(r"DigestAlgorithm::(\w+)\s+if\s+digest\.digest\.len\(\)\s*==\s*(\d+)\s*=>\s*digest\s*,", body)
        if not arms:
            degraded.append((T, "no `DigestAlgorithm::X if digest.digest.len() == N => digest,` arms found"))
        en = re.search(r"pub\s+enum\s+DigestAlgorithm\s*\{(.*?)\}", consts, re.S)
        disc = dict(re.findall(r"(\w+)\s*=\s*(\d+)", en.group(1))) if en else {}
        if not disc:
            degraded.append((T, "enum DigestAlgorithm not found in src/constants.rs"))
        for v, n in arms:
            if v in disc:
                pairs.append((int(disc[v]), int(n), v))
            else:
                degraded.append((T, f"variant {v} has no discriminant"))
        # arms of another shape inside the match would be missed by the regex above: count the arrows
        mm = re.search(r"Ok\(match\s+algorithm\s*\{(.*?)\}\)", body, re.S)
        if mm:
            arrows = len(re.findall(r"=>", mm.group(1)))
            if arrows != len(arms) + 1:
                degraded.append((T, f"{arrows} match arms, {len(arms)} understood (+1 fall-through expected)"))
            other_is_err = bool(re.search(r"=>\s*return\s+Err\(Error::UnsupportedDigestAlgorithm\(", mm.group(1)))
        if not other_is_err:
            degraded.append((T, "fall-through arm `=> return Err(Error::UnsupportedDigestAlgorithm(` not found"))
    out = "namespace RpmVerif.Gen\n"
    out += "/-- (discriminant of the `DigestAlgorithm` variant, number of hex characters `FileDigest::new` demands); every\n"
    out += "other algorithm / length is `UnsupportedDigestAlgorithm` -/\n"
    out += "def fileDigestHexLen : List (Nat × Nat) := [" + ", ".join(f"({a}, {n})  /- {v} -/" for a, n, v in pairs) + "]\n"
    out += "end RpmVerif.Gen\n"
    emit(T, out)
