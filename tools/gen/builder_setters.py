"""C06 / C17: `PackageBuilder::new` and the setters of `impl PackageBuilder`, scraped from src/rpm/builder.rs
(and `Scriptlet::new` / `flags` / `prog` from src/rpm/headers/types.rs)

Read from the source text:
  * the struct literal `Self { … ..Default::default() }` of `pub fn new(name: &str, …) -> Self`: every named field is
    either `<arg>.to_string()` (the same-named argument), a string literal `"…".to_string()` or an integer literal;
  * `#[derive(Default)]` in front of `pub struct PackageBuilder` (so every other field starts as `Default::default()`:
    empty string / vector / map, `None`, 0 — `compression` starts as `CompressionWithLevel::default()`, see
    compression_levels.py);
  * every `pub fn NAME(mut self, ARGS) -> Self` of `impl PackageBuilder`, classified by its body:
      0 assign        `self.F = X;`  /  `self.F = X.into();`
      1 assign-some   `self.F = Some(X.into());`  /  `Some(X.as_ref().to_owned())`
      2 push          `self.F.push(X);`
      3 some-unwrap   `self.F = Some(X.try_into().unwrap());`                         (source_date)
      4 changelog     `self.A.push(..to_owned()); self.B.push(..to_owned()); self.C.push(X.try_into().unwrap());`
    always followed by `self`. Anything else (apart from `with_file`, `build`, `build_and_sign`, which are modelled by hand)
    degrades the table.
  * `Scriptlet::new`: `Scriptlet { script: script.into(), flags: None, program: None }`, `flags`: `self.flags = Some(flags)`,
    `prog`: `self.program = Some(<the arguments>)`, and `impl<T: Into<String>> From<T> for Scriptlet` = `Scriptlet::new(value)`.

The Lean model (`Model/Builder.lean`: `Cfg.new`, `MetaSetter.apply`) takes the literal defaults from this table and writes
the assignments out; `RpmVerif.C06.builder_setters_standard` compares the (name, field, kind) rows with what the model
implements, so a setter that is added, renamed, re-pointed at another field or changes kind breaks that theorem.
"""
import re
from .common import read, emit, rust_str, degraded
from .compression_names import _block

T = "BuilderSetters"
HAND_MODELLED = {"new", "with_file", "build", "build_and_sign"}


def _bytes(s):
    return "[" + ", ".join(str(b) for b in s.encode()) + "]"


def _norm(s):
    return re.sub(r"\s+", " ", s or "").strip()


def _classify(body):
    b = _norm(body)
    m = re.fullmatch(r"self\.(\w+) = Some\((\w+)\.try_into\(\)\.unwrap\(\)\); self", b)
    if m:
        return (m.group(1), 3)
    m = re.fullmatch(r"self\.(\w+) = Some\((\w+)(?:\.into\(\)|\.as_ref\(\)\.to_owned\(\))?\); self", b)
    if m:
        return (m.group(1), 1)
    m = re.fullmatch(r"self\.(\w+) = (\w+)(?:\.into\(\))?; self", b)
    if m:
        return (m.group(1), 0)
    m = re.fullmatch(r"self\.(\w+)\.push\((\w+)\); self", b)
    if m:
        return (m.group(1), 2)
    m = re.fullmatch(r"self\.(\w+)\.push\((\w+)\.as_ref\(\)\.to_owned\(\)\); self\.(\w+)\.push\((\w+)\.as_ref\(\)\.to_owned\(\)\); "
                     r"self\.(\w+)\.push\((\w+)\.try_into\(\)\.unwrap\(\)\); self", b)
    if m:
        return ("+".join([m.group(1), m.group(3), m.group(5)]), 4)
    return None


def generate():
    src = read("src/rpm/builder.rs")
    code = re.sub(r"//[^\n]*", "", src)
    derive_default = re.search(r"#\[derive\(([^)]*)\)\]\s*pub\s+struct\s+PackageBuilder\b", code)
    has_default = bool(derive_default) and "Default" in [x.strip() for x in derive_default.group(1).split(",")]
    if not has_default:
        degraded.append((T, "`#[derive(Default)] pub struct PackageBuilder` not found"))
    impl = _block(code, r"impl\s+PackageBuilder\s*\{") or ""
    if not impl:
        degraded.append((T, "impl PackageBuilder not found"))

    # ---- PackageBuilder::new ----
    new_args, args_assigned, rest_default = [], False, False
    literals = {}
    m = re.search(r"pub\s+fn\s+new\s*\(([^)]*)\)\s*->\s*Self\s*\{", impl)
    if not m:
        degraded.append((T, "`PackageBuilder::new` not found"))
    else:
        new_args = [a.split(":")[0].strip() for a in m.group(1).split(",") if a.strip()]
        body = _block(impl[m.start():], r"->\s*Self\s*\{") or ""
        lit = _block(body, r"Self\s*\{")
        if lit is None:
            degraded.append((T, "struct literal of `PackageBuilder::new` not found"))
        else:
            items = [x.strip() for x in lit.split(",") if x.strip()]
            rest_default = bool(items) and items[-1] == "..Default::default()"
            if not rest_default:
                degraded.append((T, "`PackageBuilder::new` does not end in `..Default::default()`"))
            assigned = set()
            for item in items:
                if item.startswith(".."):
                    continue
                fm = re.fullmatch(r"(\w+)\s*:\s*(.+)", item, re.S)
                if not fm:
                    degraded.append((T, f"field of `new` not understood: {item!r}"))
                    continue
                f, v = fm.group(1), fm.group(2).strip()
                if v == f"{f}.to_string()" and f in new_args:
                    assigned.add(f)
                elif re.fullmatch(r'"((?:[^"\\]|\\.)*)"\.to_string\(\)', v):
                    literals[f] = ("str", rust_str(re.fullmatch(r'"((?:[^"\\]|\\.)*)"\.to_string\(\)', v).group(1)))
                elif re.fullmatch(r"[0-9_]+", v):
                    literals[f] = ("nat", int(v.replace("_", "")))
                else:
                    degraded.append((T, f"field {f} of `new` not understood: {v!r}"))
            args_assigned = assigned == set(new_args)
            if not args_assigned:
                degraded.append((T, f"`new` assigns {sorted(assigned)} from its arguments {new_args}"))

    # ---- the setters ----
    rows, unknown = [], []
    for fm in re.finditer(r"pub\s+fn\s+(\w+)\s*(?:<[^>]*>)?\s*\(([^)]*)\)\s*->\s*([^{]+)\{", impl):
        name, args, ret = fm.group(1), _norm(fm.group(2)), fm.group(3).strip()
        if name in HAND_MODELLED:
            continue
        body = _block(impl[fm.start():], r"\)\s*->\s*[^{]+\{")
        c = _classify(body) if (args.startswith("mut self") and ret == "Self") else None
        if c is None:
            unknown.append(name)
            degraded.append((T, f"setter {name} not understood: ({args}) -> {ret} {{ {_norm(body)} }}"))
            rows.append((name, "?", 9))
        else:
            rows.append((name, c[0], c[1]))
    if len(rows) < 10:
        degraded.append((T, f"only {len(rows)} setters found"))

    # ---- Scriptlet ----
    tsrc = re.sub(r"//[^\n]*", "", read("src/rpm/headers/types.rs"))
    simpl = _block(tsrc, r"impl\s+Scriptlet\s*\{") or ""
    sfn = {}
    for fm in re.finditer(r"pub\s+fn\s+(\w+)\s*\(([^)]*)\)\s*->\s*([^{]+)\{", simpl):
        sfn[fm.group(1)] = _norm(_block(simpl[fm.start():], r"\)\s*->\s*[^{]+\{"))
    s_new = re.fullmatch(r"Scriptlet \{ script: script\.into\(\), flags: None, program: None,? \}", sfn.get("new", "")) is not None
    s_flags = sfn.get("flags") == "self.flags = Some(flags); self"
    s_prog = re.fullmatch(r"self\.program = Some\(prog\.drain\(\.\.\)\.map\(\|p\| p\.into\(\)\)\.collect(?:_vec)?\(\)\); self",
                          sfn.get("prog", "")) is not None
    s_from = re.search(r"impl<T>\s*From<T>\s*for\s+Scriptlet\s+where\s+T:\s*Into<String>,?\s*\{\s*fn from\(value: T\) -> Self \{\s*"
                       r"Scriptlet::new\(value\)\s*\}\s*\}", tsrc) is not None
    for ok, what in ((s_new, "Scriptlet::new"), (s_flags, "Scriptlet::flags"), (s_prog, "Scriptlet::prog"), (s_from, "From<T> for Scriptlet")):
        if not ok:
            degraded.append((T, f"{what} does not have the expected shape"))

    b = "namespace RpmVerif.Gen\n"
    b += "/-! `PackageBuilder::new` (src/rpm/builder.rs) -/\n"
    b += "/-- the arguments of `new`, in order -/\n"
    b += "def builderNewArgs : List String := [" + ", ".join(f'"{a}"' for a in new_args) + "]\n"
    b += "/-- every argument is stored in the field of the same name (`name: name.to_string()`, …) -/\n"
    b += f"def builderNewArgsAssigned : Bool := {'true' if args_assigned else 'false'}\n"
    b += "/-- `#[derive(Default)]` on the struct and `..Default::default()` in `new`: every field not named starts empty / `None` / 0 -/\n"
    b += f"def builderNewRestDefault : Bool := {'true' if (rest_default and has_default) else 'false'}\n"
    rel = literals.get("release")
    if rel and rel[0] == "str":
        b += f"/-- `release: \"{rel[1]}\".to_string()` -/\ndef builderNewRelease : List UInt8 := {_bytes(rel[1])}\n"
    else:
        b += "/-- `release` NOT UNDERSTOOD -/\ndef builderNewRelease : List UInt8 := [0]\n"
        degraded.append((T, "literal default of `release` not found in `new`"))
    ep = literals.get("epoch")
    if ep and ep[0] == "nat":
        b += f"/-- `epoch: {ep[1]}` -/\ndef builderNewEpoch : Nat := {ep[1]}\n"
    else:
        b += "/-- `epoch` NOT UNDERSTOOD -/\ndef builderNewEpoch : Nat := 4294967296\n"
        degraded.append((T, "literal default of `epoch` not found in `new`"))
    others = sorted(set(literals) - {"release", "epoch"})
    b += "/-- fields given a literal in `new` other than `release` and `epoch` (the model knows none) -/\n"
    b += "def builderNewOtherLiterals : List String := [" + ", ".join(f'"{o}"' for o in others) + "]\n"
    if others:
        degraded.append((T, f"`new` gives literals to fields the model does not know: {others}"))
    b += "/-- the setters of `impl PackageBuilder` in source order: (name, field(s) written, kind) with kind 0 = `self.F = x`,\n"
    b += "1 = `self.F = Some(x)`, 2 = `self.F.push(x)`, 3 = `self.F = Some(x.try_into().unwrap())`, 4 = the three pushes of\n"
    b += "`add_changelog_entry` (the last one `try_into().unwrap()`), 9 = not understood -/\n"
    b += "def builderSetters : List (String × String × Nat) := [\n  " + ",\n  ".join(f'("{n}", "{f}", {k})' for n, f, k in rows) + "]\n"
    b += "/-- `Scriptlet::new(s)` = `{ script: s.into(), flags: None, program: None }`; `flags(f)` / `prog(p)` store `Some(..)`;\n"
    b += "`impl<T: Into<String>> From<T> for Scriptlet` is `Scriptlet::new` -/\n"
    b += f"def scriptletCtorsStandard : Bool := {'true' if (s_new and s_flags and s_prog and s_from) else 'false'}\n"
    b += "end RpmVerif.Gen\n"
    emit(T, b)
