"""Constants of src/constants.rs: sizes, magics, tag numbers, digest algorithm numbers, scriptlet tag triples."""
import re
from .common import read, emit, degraded


def strip_comments(src):
    src = re.sub(r"/\*.*?\*/", "", src, flags=re.S)
    return re.sub(r"//[^\n]*", "", src)


def evaluate(expr, env):
    expr = expr.strip()
    toks = re.findall(r"[A-Za-z_][A-Za-z_0-9]*|0x[0-9a-fA-F_]+|0o[0-7_]+|[0-9_]+|[+\-*()]|<<|\|", expr)
    py = []
    for t in toks:
        if re.fullmatch(r"[A-Za-z_][A-Za-z_0-9]*", t):
            if t not in env:
                raise KeyError(t)
            py.append(str(env[t]))
        else:
            py.append(t.replace("_", ""))
    return int(eval(" ".join(py), {"__builtins__": {}}))


def enum_values(src, name, env):
    m = re.search(r"pub enum " + name + r"\s*\{(.*?)\n\}", src, re.S)
    if not m:
        degraded.append(("Constants", f"enum {name} not found"))
        return []
    out, prev = [], -1
    for item in m.group(1).split(","):
        item = re.sub(r"#\[[^\]]*\]", "", item).strip()
        if not item:
            continue
        mm = re.fullmatch(r"([A-Za-z_][A-Za-z_0-9]*)\s*(?:=\s*(.+))?", item, re.S)
        if not mm:
            degraded.append(("Constants", f"cannot read enum item {item!r} of {name}"))
            continue
        expr = mm.group(2)
        if expr:
            # `IndexTag::X as u32` → the already computed discriminant of X
            expr = re.sub(r"\b[A-Za-z_]+::([A-Za-z_0-9]+)\s+as\s+u32", r"\1", expr)
        val = evaluate(expr, env) if expr else prev + 1
        out.append((mm.group(1), val))
        prev = val
    return out


def generate():
    src = strip_comments(read("src/constants.rs"))
    env = {}
    for m in re.finditer(r"pub(?:\(crate\))? const ([A-Z_0-9]+): u(?:8|16|32|64|size) = ([^;]+);", src):
        try:
            env[m.group(1)] = evaluate(m.group(2), env)
        except Exception as e:
            degraded.append(("Constants", f"const {m.group(1)}: {e!r}"))
    arrays = {}
    for m in re.finditer(r"pub const ([A-Z_0-9]+): \[u8; \d+\] = \[([^\]]*)\];", src):
        arrays[m.group(1)] = [int(x.strip(), 16) if x.strip().startswith("0x") else int(x.strip()) for x in m.group(2).split(",") if x.strip()]
    for need in ("LEAD_SIZE", "INDEX_HEADER_SIZE", "INDEX_ENTRY_SIZE"):
        if need not in env:
            degraded.append(("Constants", f"{need} not found"))
    for need in ("RPM_MAGIC", "HEADER_MAGIC"):
        if need not in arrays:
            degraded.append(("Constants", f"{need} not found"))
    tags = enum_values(src, "IndexTag", env)
    sigtags = enum_values(src, "IndexSignatureTag", {**env, **dict(tags)})
    algos = enum_values(src, "DigestAlgorithm", env)
    triples = re.findall(r"const ([A-Z]+_TAGS): ScriptletIndexTags = \(\s*IndexTag::(\w+),\s*IndexTag::(\w+),\s*IndexTag::(\w+),?\s*\)", src)
    tagmap = dict(tags)
    b = "namespace RpmVerif.Gen\n"
    for k in ("LEAD_SIZE", "INDEX_HEADER_SIZE", "INDEX_ENTRY_SIZE", "HEADER_IMAGE", "HEADER_SIGNATURES", "HEADER_IMMUTABLE",
              "HEADER_REGIONS", "HEADER_I18NTABLE", "HEADER_SIGBASE", "HEADER_TAGBASE"):
        b += f"def {k} : Nat := {env.get(k, 0)}\n"
    for k in ("RPM_MAGIC", "HEADER_MAGIC"):
        b += f"def {k} : List UInt8 := [{', '.join(str(x) for x in arrays.get(k, []))}]\n"
    b += "\n-- `IndexTag` discriminants\nnamespace IndexTag\n"
    for n, v in tags:
        b += f"def {n} : Nat := {v}\n"
    b += "end IndexTag\n\n-- `IndexSignatureTag` discriminants\nnamespace SigTag\n"
    for n, v in sigtags:
        b += f"def {n} : Nat := {v}\n"
    b += "end SigTag\n\n"
    b += "def indexTagTable : List (String × Nat) := [" + ", ".join(f'("{n}", {v})' for n, v in tags) + "]\n"
    b += "def sigTagTable : List (String × Nat) := [" + ", ".join(f'("{n}", {v})' for n, v in sigtags) + "]\n"
    b += "/-- `DigestAlgorithm` discriminants (from_u32 accepts exactly these) -/\n"
    b += "def digestAlgoTable : List (String × Nat) := [" + ", ".join(f'("{n}", {v})' for n, v in algos) + "]\n"
    b += "/-- scriptlet tag triples (script, flags, prog) -/\n"
    b += "def scriptletTags : List (String × Nat × Nat × Nat) := [" + ", ".join(
        f'("{n}", {tagmap.get(a, 0)}, {tagmap.get(bb, 0)}, {tagmap.get(c, 0)})' for n, a, bb, c in triples) + "]\n"
    # crate version (env!("CARGO_PKG_VERSION") in the RPMVERSION tag)
    cargo = read("Cargo.toml")
    mv = re.search(r'^\[package\].*?^version\s*=\s*"([^"]+)"', cargo, re.S | re.M)
    if not mv:
        degraded.append(("Constants", "package version not found in Cargo.toml"))
    ver = mv.group(1) if mv else ""
    b += f"/-- CARGO_PKG_VERSION = \"{ver}\" -/\ndef CARGO_PKG_VERSION : List UInt8 := [{', '.join(str(x) for x in ver.encode())}]\n"
    # bitflags! blocks: `const NAME = expr;` with `1 << n`, literals and `Self::X.bits() | …`
    for m in re.finditer(r"pub struct (\w+): u32 \{(.*?)\n    \}", src, re.S):
        name, body = m.group(1), m.group(2)
        fenv = {}
        b += f"\nnamespace {name}\n"
        for c in re.finditer(r"const (\w+)\s*=\s*([^;]+);", body):
            expr = re.sub(r"Self::(\w+)\.bits\(\)", r"\1", c.group(2))
            try:
                val = evaluate(expr, fenv)
            except Exception as e:
                degraded.append(("Constants", f"bitflag {name}::{c.group(1)}: {e!r}"))
                continue
            fenv[c.group(1)] = val
            b += f"def {c.group(1)} : Nat := {val}\n"
        b += f"def all : Nat := {__import__('functools').reduce(lambda a, x: a | x, fenv.values(), 0)}\n"
        b += f"end {name}\n"
    b += "end RpmVerif.Gen\n"
    if len(tags) < 100 or len(sigtags) < 10 or len(algos) < 3 or len(triples) < 8:
        degraded.append(("Constants", f"suspiciously few items: {len(tags)} tags, {len(sigtags)} sigtags, {len(algos)} algos, {len(triples)} scriptlet triples"))
    emit("Constants", b)
