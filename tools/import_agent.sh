#!/bin/sh
# import_agent.sh Cxx : copy the files an agent added/changed in /tmp/agents/Cxx/verif (relative to the commit it was
# cloned from), except the shared dispatch files, then register the property.
set -e
P=$1; A=/tmp/agents/$P/verif
BASE=$(git -C $A rev-list --max-parents=0 HEAD | tail -1)
# the clone point = the newest commit of the agent repo that also exists in /verif
for c in $(git -C $A rev-list HEAD); do if git -C /verif cat-file -e $c 2>/dev/null; then BASE=$c; break; fi; done
git -C $A diff --name-only $BASE HEAD | while read f; do
  case "$f" in
    lean/Main.lean|lean/RpmVerif.lean|harness/src/main.rs|evidence/*|MANIFEST.json|harness/Cargo.lock) echo "skip $f";;
    *) if [ -f "$A/$f" ]; then mkdir -p "/verif/$(dirname $f)"; cp "$A/$f" "/verif/$f"; echo "copy $f"; fi;;
  esac
done
python3 /verif/tools/register.py $P
