#!/bin/sh
# seed_round.sh <property> <n>… : confirm seeds from /tmp/seed/out/<property>/<n> and run them against the property's check.
# Uses private scratch copies tagged by the property (SEED_TAG), so rounds for different properties can run side by side.
P=$1; shift
export SEED_TAG=-$P
for n in "$@"; do /verif/tools/confirm_seed.sh $P $n 2>&1 | tail -1; done
ids=""; for n in "$@"; do [ -d /verif/seeded/$P-$n ] && ids="$ids $P-$n"; done
[ -n "$ids" ] && python3 /verif/tools/seed_report.py $ids 2>&1 | grep -v "^WARNING"
git -C /repo worktree remove --force /tmp/confirm-wt$SEED_TAG 2>/dev/null
git -C /repo worktree remove --force /tmp/mutrepo$SEED_TAG 2>/dev/null
rm -rf /tmp/mutverif$SEED_TAG /tmp/mutverif$SEED_TAG.src
