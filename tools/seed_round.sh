#!/bin/sh
# seed_round.sh <property> <n>… : confirm seeds from /tmp/seed/out/<property>/<n> and run them against the property's check
P=$1; shift
for n in "$@"; do /verif/tools/confirm_seed.sh $P $n 2>&1 | tail -1; done
ids=""; for n in "$@"; do ids="$ids $P-$n"; done
python3 /verif/tools/seed_report.py $ids 2>&1 | grep -v "^WARNING"
