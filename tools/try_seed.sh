#!/bin/sh
# try_seed.sh <property> <patch.diff> [tier] : run a check against a MUTATED COPY of /repo without touching /repo:
#   /tmp/mutrepo$T  = scratch worktree of /repo HEAD with the patch applied
#   /tmp/mutverif = copy of /verif whose harness, table generator and check point at /tmp/mutrepo$T
set -u
P=$1; PATCH=$2; TIER=${3:-quick}
T=${SEED_TAG:-}   # SEED_TAG=<x> gives this run private copies (/tmp/mutrepo<x>, /tmp/mutverif<x>) so several can run at once
[ -d /tmp/mutrepo$T ] || git -C /repo worktree add -q --detach /tmp/mutrepo$T HEAD
cd /tmp/mutrepo$T && git checkout -- . && git clean -fdq && git checkout -q --detach $(git -C /repo rev-parse HEAD)
git apply "$PATCH" || { echo "patch does not apply"; exit 2; }
# Cargo.lock is not tracked in /repo: the scratch worktree gets /repo's copy (the table generators and cargo read it)
[ -f /repo/Cargo.lock ] && cp /repo/Cargo.lock /tmp/mutrepo$T/Cargo.lock
mkdir -p /tmp/mutverif$T
# by default the COMMITTED state of /verif is used (edits in progress there must not disturb a long seed run);
# TRY_SEED_WORKTREE=1 takes /verif's working tree instead
if [ -z "${TRY_SEED_WORKTREE:-}" ]; then
  rm -rf /tmp/mutverif$T.src && mkdir -p /tmp/mutverif$T.src && git -C /verif archive HEAD | tar -x -C /tmp/mutverif$T.src
  SRC=/tmp/mutverif$T.src/
else
  SRC=/verif/
fi
rsync -a --delete --exclude .git --exclude harness/target --exclude harness/target-nobz --exclude harness-default/target --exclude lean/.lake --exclude work --exclude replays --exclude evidence "$SRC" /tmp/mutverif$T/
[ -d /tmp/mutverif$T/lean/.lake ] || cp -r /verif/lean/.lake /tmp/mutverif$T/lean/.lake
cd /tmp/mutverif$T
sed -i "s#path = \"/repo\"#path = \"/tmp/mutrepo$T\"#" harness/Cargo.toml harness-default/Cargo.toml
sed -i "s#^REPO = \"/repo\"#REPO = \"/tmp/mutrepo$T\"#" tools/gen/common.py check
mkdir -p evidence work
./check "$P" --tier "$TIER" | cut -c1-300 | grep -v "^TIE-BROKEN" | grep -v "^TIE-DEGRADED" | head -12
