#!/bin/sh
# try_seed.sh <property> <patch.diff> [tier] : run a check against a MUTATED COPY of /repo without touching /repo:
#   /tmp/mutrepo  = scratch worktree of /repo HEAD with the patch applied
#   /tmp/mutverif = copy of /verif whose harness, table generator and check point at /tmp/mutrepo
set -u
P=$1; PATCH=$2; TIER=${3:-quick}
[ -d /tmp/mutrepo ] || git -C /repo worktree add -q --detach /tmp/mutrepo HEAD
cd /tmp/mutrepo && git checkout -- . && git clean -fdq && git checkout -q --detach $(git -C /repo rev-parse HEAD)
git apply "$PATCH" || { echo "patch does not apply"; exit 2; }
mkdir -p /tmp/mutverif
# by default the COMMITTED state of /verif is used (edits in progress there must not disturb a long seed run);
# TRY_SEED_WORKTREE=1 takes /verif's working tree instead
if [ -z "${TRY_SEED_WORKTREE:-}" ]; then
  rm -rf /tmp/mutverif.src && mkdir -p /tmp/mutverif.src && git -C /verif archive HEAD | tar -x -C /tmp/mutverif.src
  SRC=/tmp/mutverif.src/
else
  SRC=/verif/
fi
rsync -a --delete --exclude .git --exclude harness/target --exclude harness/target-nobz --exclude harness-default/target --exclude lean/.lake --exclude work --exclude replays --exclude evidence "$SRC" /tmp/mutverif/
[ -d /tmp/mutverif/lean/.lake ] || cp -r /verif/lean/.lake /tmp/mutverif/lean/.lake
cd /tmp/mutverif
sed -i 's#path = "/repo"#path = "/tmp/mutrepo"#' harness/Cargo.toml harness-default/Cargo.toml
sed -i 's#^REPO = "/repo"#REPO = "/tmp/mutrepo"#' tools/gen/common.py check
mkdir -p evidence work
./check "$P" --tier "$TIER" | cut -c1-300 | grep -v "^TIE-BROKEN" | head -8
