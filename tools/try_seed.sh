#!/bin/sh
# try_seed.sh <property> <patch.diff> : apply a seeded change to /repo, run the check, undo it.
set -u
P=$1; PATCH=$2
cd /repo || exit 2
if ! git diff --quiet; then echo "/repo is dirty"; exit 2; fi
git apply "$PATCH" || { echo "patch does not apply"; exit 2; }
cd /verif && ./check "$P" --tier "${3:-quick}" | cut -c1-300 | grep -v "^TIE-BROKEN" | head -8
rc=$?
git -C /repo checkout -- . 
git -C /repo clean -fdq tests/ 2>/dev/null
exit $rc
