#!/usr/bin/env python3
"""Writes /verif/MANIFEST.json from tools/props.py (single source of truth for what is claimed)."""
import json, os, sys
sys.path.insert(0, os.path.dirname(os.path.abspath(__file__)))
import props

VERIF = os.path.join(os.path.dirname(os.path.abspath(__file__)), "..")
all_ids = [json.loads(l)["id"] for l in open(os.path.join(VERIF, "properties.jsonl"))]

checks = []
for pid in all_ids:
    cfg = props.PROPS.get(pid)
    if not cfg or not cfg.get("claimed", True):
        continue
    checks.append({
        "property_id": pid,
        "quick_cmd": f"./check {pid} --tier quick",
        "thorough_cmd": f"./check {pid} --tier thorough",
        "evidence_file": f"/verif/evidence/{pid}.json",
        "replay_cmd_template": f"./check {pid} --replay {{path}}",
        "engine": "lean-proof+correspondence",
        "level_claimed": {"category": "proof", "text": cfg["level_text"], "design_ref": f"DESIGN.md §6 {pid}"},
        "level_note": cfg["level_note"],
        "technique": cfg.get("technique", "Lean 4 theorems over a hand-written executable model; model tied to the code by generated tables and a differential correspondence run"),
    })
na = [{"property_id": pid, "reason": props.NOT_YET.get(pid, "check not built yet in this round; planned at level proof (DESIGN.md §6)")}
      for pid in all_ids if pid not in {c["property_id"] for c in checks}]
man = {
    "version": 1,
    "setup_cmd": "./setup.sh",
    "hooks": {
        "guard": "rpm_verif",
        "enable": "RUSTFLAGS=\"--cfg rpm_verif\" (set in /verif/harness/.cargo/config.toml; the harness crate has a path dependency on /repo)",
        "baseline_off_cmd": "cd /repo && cargo test --workspace --no-fail-fast --offline",
        "source_commits": props.HOOK_COMMITS,
        "add_only": True,
    },
    "engines": [{
        "name": "lean-proof+correspondence",
        "path": "/verif/check",
        "serves_properties": [c["property_id"] for c in checks],
        "kind_free_text": "Lean 4 machine-checked theorems about an executable model (lean/RpmVerif), axiom audit, tables regenerated from /repo, Rust harness + compiled Lean driver differential correspondence",
    }],
    "checks": checks,
    "not_applicable": na,
    "notes": "See DESIGN.md. known_findings.txt lists recorded defects (finding:) and repaired ones (fixed:).",
}
json.dump(man, open(os.path.join(VERIF, "MANIFEST.json"), "w"), indent=1, ensure_ascii=False)
print(f"MANIFEST.json: {len(checks)} checks, {len(na)} not yet claimed")
import subprocess, sys
subprocess.run([sys.executable, os.path.join(VERIF, "tools", "fingerprint.py"), "--record"])
