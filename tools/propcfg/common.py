COMMON_ASSUME = [
    "the hand-written Lean model mirrors the Rust code to the extent the correspondence run exercised it (numbers in coverage)",
]
