from .common import COMMON_ASSUME

CFG = {
    "default_features_variant": True,   # also run the harness built against rpm-rs WITHOUT its optional bzip2 feature (feature-gated code paths)
    "props_module": "RpmVerif.Props.C09",
    "required_theorems": ["RpmVerif.C09.fromEntries_valid", "RpmVerif.C09.slots_nonempty", "RpmVerif.C09.builder_records_nonempty",
                          "RpmVerif.C09.builder_tags_legal", "RpmVerif.C09.builder_records_ok", "RpmVerif.C09.build_header_valid",
                          "RpmVerif.C09.sign_clear_valid", "RpmVerif.C09.sign_clear_valid_discharged", "RpmVerif.C09.sigsOk_of_build", "RpmVerif.C09.lead_valid", "RpmVerif.C09.sigPadding_written",
                          "RpmVerif.C09.rpmlib_declared", "RpmVerif.C09.build_struct_features_declared", "RpmVerif.C09.build_rpmlib_valid",
                          "RpmVerif.C09.allRequires_cases", "RpmVerif.C09.contentDeps_clean", "RpmVerif.C09.content_declared", "RpmVerif.C09.name_mem_pushFeature",
                          "RpmVerif.C09.versionHas_of_header", "RpmVerif.C09.usesRichDeps_of_header", "RpmVerif.C09.usesInterpArgs_of_header",
                          "RpmVerif.C09.evrHasChar_built", "RpmVerif.C09.hasRichDep_built", "RpmVerif.C09.hasInterpArgs_built",
                          "RpmVerif.C09.slots_types", "RpmVerif.C09.build_tagtypes_valid", "RpmVerif.C09.asset_tag_types_agree",
                          "RpmVerif.C09.build_flags_valid", "RpmVerif.C09.sig_limits_valid", "RpmVerif.C09.history_foreign_valid",
                          "RpmVerif.C09.fPkg_foreign_valid", "RpmVerif.C09.plus_field_rejected",
                          "RpmVerif.C09.cpioCheck_archiveOf", "RpmVerif.C09.cpioCheck_stripped", "RpmVerif.C09.headerFiles_built",
                          "RpmVerif.C09.payload_valid_std", "RpmVerif.C09.payload_valid_large", "RpmVerif.C09.compressor_magic_valid",
                          "RpmVerif.C09.build_valid", "RpmVerif.C09.history_valid", "RpmVerif.C09.count_zero_rejected", "RpmVerif.C09.xz_undeclared_rejected"],
    "trivial_branches": [],
    "rule": "the validator of Spec/RpmValid.lean (a transcription of rpm's hdrblobVerifyRegion / hdrblobVerifyInfo, lead, cpio and rpmlib() rules; "
            "each rule with a stable name: lead, intro-sizes, region, tags-ascending, type, count-zero, alignment, string-term, range, overlap, "
            "sig-limits (il <= 32, dl <= 64 MiB in the signature header), tag-type (hdrchkTagType against a transcription of rpm's tag table, main header only), "
            "sig-padding, compressor-magic, payload-flags, rpmlib, cpio-entry, cpio-order, cpio-trailer — the cpio rules through the Spec's OWN newc reader "
            "(a transcription of rpmcpioHeaderRead: 13 fields of exactly eight hexadecimal digits, 1 <= namesize <= 4096, NUL-terminated name, 4-byte padding; "
            "not the model of rpm-rs' reader) — and, judged last, rpmlib-tilde / rpmlib-caret / rpmlib-rich / rpmlib-interp-args (the rpmlib() features "
            "rpmbuild derives from the content of dependencies and scriptlets: build/pack.c haveCharInDep / haveRichDep, build/parseScript.c)) run by the Lean driver on the BYTES of every package the real "
            "code emits: (1) seeded builder configurations (c06::gen_cfg: every compression type and level, all nine scriptlets incl. empty interpreter "
            "lists, capabilities, 0..6 files of 0..4096 bytes at depth 0..4, '/'-, './'- and doubled-separator destinations, all dependency kinds, "
            "changelogs), a fifth of them in large-file mode (rpm_verif threshold hook), a third built with build_and_sign (RSA 4096 / Ed25519 / ECDSA "
            "P-256 keys of the repo) and / or followed by a history over {clear_signatures, sign, write+re-parse}; (2) ten non-normalised destinations "
            "in standard and large-file form; (3) the past witnesses in corpus/C09; (4) every rpm-built package in /repo/test_assets as it is and after "
            "ten sign / clear histories (op validfile: header rules, padding, compressor magic and rpmlib rule in full; archive-vs-header restricted "
            "to what rpm guarantees for foreign packages: %ghost files may be absent, hard-link sets, source packages without './' prefix); "
            "(5) op validhand09: C10's four hand-made start packages (latin1, noncanon, swapped, extratag) and `gap` (slack bytes between two data items) as they are "
            "and after seven sign / clear histories — judged when the START is ForeignValid (latin1, gap), dontcare with the broken rule in the label otherwise; "
            "(6) a grid of content-feature configurations (c09::gen_content: 4 versions with / without '~' '^' x 10 dependency sets incl. rich dependencies of six kinds "
            "and a provide NAMED like one x 6 scriptlet sets incl. interpreters with 1 / 2 / 3 words, each also with the matching rpmlib() requirements written by "
            "the caller — all of them, or all but one). "
            "The payload is decompressed by the harness with the codec crates directly. Non-trivial = every case; distinct = distinct request lines.",
    "exhaustive": False,
    "shards": {"quick": 4, "thorough": 16},
    "shrink": False,
    "trusted_base": ["my transcription of rpm's loader rules (lib/header.c hdrblobVerifyRegion / hdrblobVerifyInfo, rpmlead.c, cpio.c, rpmlib() feature table) — "
                     "no rpm binary in the sandbox; cross-checked only by: all rpm-built asset packages are judged valid",
                     "my transcription of the type annotations of rpm's lib/rpmtag.h (Spec/RpmTagTypes.lean, 175 tags; unknown tags are permitted as rpm permits them) — cross-checked by "
                     "asset_tag_types_agree against the pairs scraped from the rpm-built assets (tools/gen/rpm_asset_tagtypes.py), and of build/pack.c / build/parseScript.c (which "
                     "content makes rpmbuild add rpmlib(TildeInVersions|CaretInVersions|RichDependencies|ScriptletInterpreterArgs))",
                     "compressors (flate2, zstd, liblzma, bzip2): the harness decompresses with the crates directly; the theorems assume CodecMagic "
                     "(a compressed stream starts with its format's magic; 'none' leaves the archive unchanged)",
                     "pgp crate: a produced signature is non-empty, its base64 text is ASCII (hypothesis SigsOk)",
                     "std::path handling of add_data (C17's model): every stored file has cpio path '.' + dir + base name and its directory registered"],
    "assumptions": COMMON_ASSUME + [
        "valid configuration (CfgOk): C06.Valid (NUL-free valid UTF-8 strings, integers in range), header store < 256 MiB, each file's size field = content "
        "length, cpio path shorter than 4096 bytes and not 'TRAILER!!!', fewer than 2^32-1 files",
        "the rpm rules are transcribed as stated at the top of Spec/RpmValid.lean (tag >= 100 also in signature headers, type 1..9, data ends before the region trailer)"],
    "level_text": "Session 5 (AUDIT2 follow-up 8) — spec closer to rpm: slots_types / build_tagtypes_valid (every one of the 102 slots carries the data type of rpm's tag table; "
                  "asset_tag_types_agree ties the transcribed table to the (tag, type) pairs scraped from the rpm-built asset packages), sig_limits_valid (il <= 32, dl <= 64 MiB), "
                  "build_flags_valid, the cpio theorems re-proved against the Spec's own newc reader (Lemmas/RpmCpio: readEntry_intoHeader / _writeEntry / _strippedHeader; "
                  "plus_field_rejected: a '+000000b' field is taken by rpm-rs' reader model and rejected by the Spec), history_foreign_valid (sign / clear preserve ForeignValid; "
                  "hypotheses satisfiable: fPkg_foreign_valid). RPMLIB CLAUSE: build_rpmlib_valid — for EVERY configuration the built header declares all thirteen rpmlib() features it uses; the four content "
                  "features (TildeInVersions, CaretInVersions, RichDependencies, ScriptletInterpreterArgs) since the fix of builder.rs (model: Bld.versionHas / usesRichDeps / "
                  "usesInterpArgs / pushFeature; content_declared; rpm's three tests on the built header imply the builder's own: versionHas_of_header, usesRichDeps_of_header, "
                  "usesInterpArgs_of_header, because what the builder adds uses none of the features: allRequires_cases, contentDeps_clean). Before that fix the clause was refuted "
                  "in general form (git history of Props/C09.lean: tilde_undeclared, …). Earlier text: Theorems for ALL record lists / configurations / signature lists (no size bound): from_entries over pairwise distinct legal tags and canonical "
                  "non-empty data yields a header satisfying every header rule (region entry and trailer, strictly ascending tags via the stable sort, legal types, "
                  "counts >= 1, type alignment, sequential non-overlapping in-range data, terminated strings); every one of the builder's 102 record slots is non-empty "
                  "and carries a tag >= 100, so the main header of every valid configuration is valid; every signature header built by build / sign / build_and_sign / "
                  "clear_signatures is valid (tags 278, 267|268, 273) — since session 5 with the 267|268 condition DISCHARGED: sign_clear_valid_discharged speaks about "
                  "whatever the fallible model of SignatureHeaderBuilder::build (Sign.sigBuilderBuild: parse, match on the public-key algorithm, encode) returns, and every "
                  "arm of that match — a table scraped from the source by tools/gen/sig_algs.py — selects RPMSIGTAG_RSA or RPMSIGTAG_DSA (sigsOk_of_build, "
                  "Sign.legacyTagOf_mem_range; exercised for all 256 algorithm numbers by C10's op sgbuild); lead fields; zero padding to 8; the rpmlib() features used are declared (zstd, xz, bzip2, FileCaps, "
                  "LargeFiles and the three base features); the archive the builder writes (standard and large-file form) passes the cpio rules against the header "
                  "built from the same files; build_valid combines all of it with write -> parse = identity into PackageValid of the written bytes; history_valid: any valid package (built or foreign) stays valid under every sign / clear history. The two repaired "
                  "defects (count-0 interpreter entry, undeclared xz/bzip2) are proved to be violations of the spec. The validator itself runs on the bytes of every "
                  "generated package and of the repo's rpm-built packages.",
    "level_note": "Trusted: Lean kernel; the transcription of rpm's rules (only external check: rpm-built assets are accepted); model fidelity (byte-exact header "
                  "prediction is exercised by C06; here the validator sees the real bytes); codec crates through CodecMagic; pgp crate through SigsOk.",
}
