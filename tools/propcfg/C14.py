from .common import COMMON_ASSUME

CFG = {
    "props_module": "RpmVerif.Props.C14",
    "required_theorems": ["RpmVerif.C14.concat_prog", "RpmVerif.C14.prog_all_writeAll", "RpmVerif.C14.write_prefix_or_all",
                          "RpmVerif.C14.write_prefix_or_all_general", "RpmVerif.C14.write_prefix_or_all_metadata",
                          "RpmVerif.C14.once_counterexample", "RpmVerif.C14.write_failure_offset",
                          "RpmVerif.C14.grouping_independent", "RpmVerif.C14.read_chunk_indep",
                          "RpmVerif.C14.payload_starts_at", "RpmVerif.C14.truncated_is_error",
                          "RpmVerif.C14.write_file_prefix_or_all", "RpmVerif.C14.write_file_old_witness",
                          "RpmVerif.C14.write_file_then_open", "RpmVerif.C14.open_write_file_open"],
    "trivial_branches": ["noparse"],
    "rule": "scripted Write sinks (accept-all, 1 byte, fixed k in {2,3,7,16,17,...}, seeded random sizes 1..=17, Interrupted every j-th call, "
            "permanent hard error / permanent Ok(0) / one transient hard error once N bytes are in) against Package::write and PackageMetadata::write: EVERY failure offset 0..=len of a ~1.2 KiB "
            "generated package under 6 chunk patterns (+ metadata only), all chunk families on generated packages (200 quick / 2000 thorough) and on "
            "the asset and fixture packages of /repo/test_assets with a strided (quick) / complete (thorough, small assets) failure sweep; "
            "scripted BufRead sources (same families, direct and through BufReader::with_capacity(1..20)) against Package::parse compared with the "
            "plain-slice parse, 20% truncated inputs; truncation at every offset of the ~1.2 KiB package, of every 10th generated package and "
            "(strided in quick) of the assets. Thorough adds a ~4 KiB package (every offset) and a ~40 KiB package (every 97th offset). "
            "write_file: its body (Package::write, flush()?, drop) over std's BufWriter::with_capacity(1,2,7,16,64,300,8192) around the scripted sinks with a "
            "permanent / Ok(0) / transient failure at every 5th (quick) / every (thorough) offset, and the REAL Package::write_file(path) in a forked child "
            "whose RLIMIT_FSIZE stops the file after N bytes (SIGXFSZ ignored: partial write, then EFBIG) for every 13th (quick) / every (thorough) N on the "
            "~1.2 KiB package (fits the 8 KiB buffer: only the final flush can fail) and a strided sweep on a ~20 KiB one (buffer flushes and direct writes). "
            "Since AUDIT2 follow-up 1 the real write_file also gets its path as &str / &Path / String, a destination that ALREADY EXISTS with 0 / 1 / len-1 / len / len+1 / 8192 / 2*len+7 ... bytes of 0xAA "
            "(File::create must truncate: ok => the file is exactly the canonical bytes, err under RLIMIT_FSIZE => a prefix of them, never old bytes), and destinations that cannot be created "
            "(missing parent directory, an existing directory: err, nothing written, nothing created); the default BufReader capacity 8192 over scripted sources on the ~20 KiB package, whole and cut at 8191 / 8192 / 8193. "
            "Non-trivial = the package parses; distinct = distinct request lines.",
    "exhaustive": False,
    "shrink": False,
    "shards": {"quick": 8, "thorough": 16},
    "trusted_base": ["std: Write::write_all, Read::read_exact, Take, Read::read_to_end, BufReader semantics (modelled in Model/Io.lean; exercised, not proved)",
                     "std: BufWriter::{write_all, flush_buf, flush, drop} (modelled in Model/BufWriter.lean from library/std/src/io/buffered/bufwriter.rs; validated against std's BufWriter by the `wf` cases) "
                     "and the kernel's RLIMIT_FSIZE behaviour for the `wfile` cases (short write up to the limit, then EFBIG)",
                     "the translation of the harness' scripted sinks / sources into model scripts (Driver/C14.lean mkPattern, same splitmix64 stream)"],
    "assumptions": COMMON_ASSUME + ["the sink obeys the Write contract (returns n <= buf.len()); the source obeys the Read contract "
                                    "(a non-empty read on a non-exhausted source returns >= 1 byte) - hypothesis ScriptWF of read_chunk_indep, shown necessary by an example"],
    "level_text": "Theorems for every package and every sink/source script of any length: the call sequence of Package::write (mirrored call by call as prog p; "
                  "concat_prog ties it to C01's writePackage) against ANY response script (partial accepts, Interrupted, Ok(0), hard failure anywhere) emits a prefix of the "
                  "canonical bytes and all of them on Ok (write_prefix_or_all, also for metadata and for any program made of write_all calls); every call is a write_all "
                  "(prog_all_writeAll) and with one plain write the claim is false (once_counterexample, by decide); sinks failing after N accepted bytes yield err with "
                  "exactly the first N bytes whatever the call grouping (write_failure_offset, grouping_independent); Package::parse over ANY chunking of the source "
                  "(read_exact / take().read_to_end / read_to_end models) equals the list-level parser of C01 (read_chunk_indep); an accepted input cut anywhere before "
                  "its payload offset is rejected with the end-of-input error (truncated_is_error). Package::write_file (BufWriter of any capacity around a file of ANY behaviour, "
                  "explicit flush, drop) leaves a prefix of the canonical bytes in the file and all of them when it returns Ok (write_file_prefix_or_all); before fix d2dbd7b it returned Ok "
                  "with nothing written on a full device (write_file_old_witness). write_file_then_open / open_write_file_open: for every package, every BufWriter capacity, every file behaviour under which write_file returns Ok and every chunking of the "
                  "BufReader, Package::open of the written file equals Package::parse of the bytes Package::write emits (the write + re-parse step of C10), and for a value parsed from any source kind the file "
                  "holds its canonical bytes and opens to the same value. Tied to the code by a differential run with scripted sinks and sources (and real files: wfile, C01 openrt01, C10 step W).",
    "level_note": "Trusted: Lean kernel; std's write_all/read_exact/read_to_end contracts as modelled; model fidelity as exercised (result class, emitted length and hash "
                  "compared on every case; spec verdict computed from the canonical bytes alone).",
}
