from .common import COMMON_ASSUME

CFG = {
    "props_module": "RpmVerif.Props.C13",
    "required_theorems": ["RpmVerif.C13.rust_eq_c", "RpmVerif.C13.rustCmp_swap", "RpmVerif.C13.rustCmp_trans",
                          "RpmVerif.C13.evr_cmp_spec", "RpmVerif.C13.evr_eq_cmp_eq", "RpmVerif.C13.nevra_eq_cmp_eq",
                          "RpmVerif.C13.vectors_ok", "RpmVerif.C13.chars_vs_bytes",
                          "RpmVerif.C13.libsolv_vectors_ok", "RpmVerif.C13.libsolv_evr_vectors_ok",
                          "RpmVerif.C13.evr_partial_cmp", "RpmVerif.C13.nevra_partial_cmp", "RpmVerif.C13.evr_ops", "RpmVerif.C13.nevra_ops",
                          "RpmVerif.C13.evr_max_spec", "RpmVerif.C13.nevra_max_spec", "RpmVerif.C13.rpmEvrCompare_spec", "RpmVerif.C13.evrText_iff",
                          "RpmVerif.C13.epoch_numeric", "RpmVerif.C13.evr_cmp_numeric_epoch"],
    "trivial_branches": ["identical"],
    "rule": "exhaustive ordered pairs of all strings up to length 3 over the alphabet {0,1,9,a,B,'.','-','_','~','^','é'} and of all strings up to "
            "length 2 over that alphabet widened by U+0663, U+00B2, U+FF11, U+FF21, U+20AC, U+1D11E, U+0301 and the ASCII neighbours / : @ [ ` { of the "
            "digit and letter ranges (both tiers), every vendored oracle pair (rpm's tests/rpmvercmp.at, libsolv's answers), plus seeded long strings "
            "biased to shared prefixes, and EVR / NEVRA / rpm_evr_compare products, where cmp, ==, partial_cmp, <, <=, >, >=, max and min are all observed; "
            "a case is non-trivial when the two strings are not identical; distinct = distinct request lines",
    "exhaustive": True,
    "shards": {"quick": 4, "thorough": 16},
    "trusted_base": ["transcription of rpm's rpmvercmp.c as `cVercmp`: checked against oracle tables vendored in /verif/tools/gen/data (NOT taken from /repo): "
                     "the 103 cases of rpm's tests/rpmvercmp.at (written down from upstream, not downloaded: no network) and 1030 + 260 pairs answered by "
                     "libsolv 0.7.30 (solv_vercmp_rpm / pool_evrcmp_str), an implementation independent of rpm-rs and of the transcription"],
    "assumptions": COMMON_ASSUME + ["rpmvercmp.c transcription is faithful (no rpm binary in the sandbox; libsolv's rpm comparison stands in for it)",
                                    "<, <=, >, >= are core::cmp::PartialOrd's provided methods over partial_cmp and max / min core::cmp::Ord's provided "
                                    "methods (`if other < self`): modelled in Model/Vercmp.lean, exercised on every EVR / NEVRA case"],
    "level_text": "Theorems for all strings of any length: compare_version_string = rpmvercmp (rust_eq_c), reflexive / swap-antisymmetric / transitive, "
                  "Evr and Nevra orders are the lexicographic products (epoch '' = '0'; for all-digit epochs the epoch stage is the comparison of the NUMBERS, "
                  "epoch_numeric), equal values compare Equal; partial_cmp is total and is that order, "
                  "<, <=, >, >= say what cmp says, max / min return a bound among their arguments; rpm_evr_compare reads each text as epoch (before the first ':'), "
                  "version (to the first '-'), release and compares those. The model is tied to the code by an exhaustive "
                  "small-alphabet differential run plus seeded long strings.",
    "level_note": "Trusted: Lean kernel; my transcription of rpmvercmp.c (checked against the vendored rpmvercmp.at cases and libsolv's answers, tools/gen/data); fidelity of the hand model as exercised by the correspondence.",
}
