from .common import COMMON_ASSUME

CFG = {
    "props_module": "RpmVerif.Props.C13",
    "required_theorems": ["RpmVerif.C13.rust_eq_c", "RpmVerif.C13.rustCmp_swap", "RpmVerif.C13.rustCmp_trans",
                          "RpmVerif.C13.evr_cmp_spec", "RpmVerif.C13.evr_eq_cmp_eq", "RpmVerif.C13.nevra_eq_cmp_eq",
                          "RpmVerif.C13.vectors_ok", "RpmVerif.C13.chars_vs_bytes"],
    "trivial_branches": ["identical"],
    "rule": "exhaustive ordered pairs of all strings up to length 3 over the alphabet {0,1,a,B,'.','~','^','é'} (quick) / "
            "{0,1,9,a,B,'.','-','_','~','^','é'} (thorough), plus seeded long strings biased to shared prefixes, and EVR / NEVRA / "
            "rpm_evr_compare products; a case is non-trivial when the two strings are not identical; distinct = distinct request lines",
    "exhaustive": True,
    "shards": {"quick": 4, "thorough": 16},
    "trusted_base": ["transcription of rpm's rpmvercmp.c as `cVercmp` (checked only against the test vectors scraped from src/version.rs)"],
    "assumptions": COMMON_ASSUME + ["rpmvercmp.c transcription is faithful (no rpm binary in the sandbox)"],
    "level_text": "Theorems for all strings of any length: compare_version_string = rpmvercmp (rust_eq_c), reflexive / swap-antisymmetric / transitive, "
                  "Evr and Nevra orders are the lexicographic products (epoch '' = '0'), equal values compare Equal. The model is tied to the code by an exhaustive "
                  "small-alphabet differential run plus seeded long strings.",
    "level_note": "Trusted: Lean kernel; my transcription of rpmvercmp.c (checked against the 106 vectors scraped from src/version.rs); fidelity of the hand model as exercised by the correspondence.",
}
