from .common import COMMON_ASSUME

CFG = {
    "props_module": "RpmVerif.Props.C05",
    "required_theorems": ["RpmVerif.C05.index_tag_numbers_standard", "RpmVerif.C05.index_tag_numbers_distinct", "RpmVerif.C05.scriptlet_tags_standard", "RpmVerif.C05.scriptlet_tags_distinct", "RpmVerif.C05.file_digest_lengths_standard", "RpmVerif.C05.fileDigestNew_ok_iff", "RpmVerif.C05.old_sha224_length_witness", "RpmVerif.C05.parsed_entries_stored", "RpmVerif.C05.getter_value_is_stored", "RpmVerif.C05.getter_absent",
                          "RpmVerif.C05.getter_wrong_type", "RpmVerif.C05.filePaths_spec", "RpmVerif.C05.filePaths_bad_index",
                          "RpmVerif.C05.deps_zip", "RpmVerif.C05.getFilePaths_total",
                          "RpmVerif.C05.installed_size_spec", "RpmVerif.C05.installed_size_is_stored", "RpmVerif.C05.compression_names_ascii",
                          "RpmVerif.C05.compressor_absent_is_none", "RpmVerif.C05.compressor_known_iff", "RpmVerif.C05.source_iff_tag_present",
                          # clause theorems of the composed accessors (AUDIT2 c13 - c15)
                          "RpmVerif.C05.zip3_spec", "RpmVerif.C05.zip3_getElem?", "RpmVerif.C05.deps_kth", "RpmVerif.C05.changelog_zip",
                          "RpmVerif.C05.changelog_kth", "RpmVerif.C05.changelog_ok_cases", "RpmVerif.C05.scriptlet_spec",
                          "RpmVerif.C05.fileEntries_spec", "RpmVerif.C05.entryAt_fields", "RpmVerif.C05.optStrings_ok_iff",
                          "RpmVerif.C05.fileDigestAlgorithm_ok_iff", "RpmVerif.C05.digest_algo_fallback", "RpmVerif.C05.size_tags_scraped"],
    "trivial_branches": ["rejected"],
    "rule": "asset + fixture packages and seeded hand-encoded headers from a typed generator: every tag an accessor reads, present with "
            "probability 3/5, its natural type 7/8 of the time and any of the 10 types otherwise, counts 0..4 (per-file arrays mostly of one common "
            "length), multi-locale i18n arrays, 32- and 64-bit size tags, dir indexes in and out of range, digest texts of every accepted and "
            "unaccepted length, algorithm numbers in and outside the enum, compressor names (every accepted one, other case, trailing blank, non-ASCII, unknown, empty), non-UTF-8 / empty strings, duplicated tags (first must win), shuffled index, "
            "optional IMA signatures in the signature header; directory indexes also from the edges (n - 1, n, 2^16 + i, 2^31 + i, 2^32 - 4 + i, 2^24); one header in six with a NON-CANONICAL "
            "index entry (offset shared with another entry, count one off, integers at an unaligned offset, an array overlapping its own tail, STRING with count != 1). "
            "Observable: a canonical dump of all 40 accessors (errors collapsed to `err`). Op get05: the nine typed getters of Header<T> (get_entry_data_as_*, entry_is_present) called "
            "DIRECTLY on six tags per generated package, main header (tags the accessors read + arbitrary IndexTag variants) or signature header (IndexSignatureTag variants). Op lossy05: "
            "String::from_utf8_lossy against Model/Utf8.lean: every (non-ASCII lead, second byte) pair, 20 x 20 (x 5) second / third (/ fourth) byte classes after twelve lead bytes incl. E0 / ED / F0 / F4, "
            "every such sequence as the END of the input, random soups; judged independently by Lean core's UTF-8 validator. "
            "Non-trivial = header accepted; distinct = distinct request lines.",
    "exhaustive": False,
    "shards": {"quick": 4, "thorough": 16},
    "shrink": False,
    "trusted_base": ["String::from_utf8_lossy (executable model Model/Utf8.lean, validated by the dedicated op lossy05 and judged by Lean core's UTF-8 validator), Path::join (executable model, exercised by the correspondence)"],
    "assumptions": COMMON_ASSUME,
    "level_text": "Theorems over ALL parsed headers: every entry's data is exactly what the store holds at its offset under a parser-independent "
                  "relational reading of the format (Stores); a typed getter yields the projection of the FIRST entry with the tag, TagNotFound when absent, "
                  "UnexpectedTagDataType for another type - never a made-up value; file paths are dirs[dirindex[k]] joined with basenames[k] (error on an "
                  "out-of-range index), dependency / changelog lists are the arrays zipped in order, empty when all three tags are absent, an error when a "
                  "member is missing; installed size is the first LONGSIZE value, else exactly what the SIZE getter gives (installed_size_spec, installed_size_is_stored); "
                  "the payload compressor is None for an absent tag, otherwise the variant the source's from_str table (regenerated on every run) pairs with the stored text, and an "
                  "error for every other text (compressor_absent_is_none, compressor_known_iff); is_source_package is presence of the tag alone (source_iff_tag_present); no accessor panics. Clause theorems of the composed accessors: zip3_spec / zip3_getElem? (a zipped list has the length of the shortest array and item k is the triple of items k), "
                  "deps_kth, changelog_zip / changelog_kth / changelog_ok_cases (Ok is either the empty list with all three tags absent or the zip of three arrays read successfully), scriptlet_spec (the script getter decides value / error; "
                  "flags and interpreter are Some exactly when their getter succeeds, None for absent AND wrong-typed tags - stated), fileEntries_spec + entryAt_fields (Ok(r): r is empty with FILEMODES absent, or "
                  "r has the length of the shortest of the nine per-file arrays, entry k consists of item k of each, capabilities / IMA signatures by index with None beyond the array's end, sizes from LONGFILESIZES whenever that getter "
                  "succeeds and from FILESIZES only otherwise, digests None for empty texts and otherwise (algorithm, text) with the pair (algorithm, length) in FileDigest::new's table), digest_algo_fallback + fileDigestAlgorithm_ok_iff "
                  "(the algorithm is FILEDIGESTALGO when it names a DigestAlgorithm variant, otherwise - absent, other type, unknown number - the variant scraped from unwrap_or(..), Md5), size_tags_scraped. The model is tied to the code by comparing the full accessor dump on every generated header. File digests: the (algorithm, hex length) pairs FileDigest::new accepts are regenerated from the source on every run and proved to be the algorithms' real output sizes (file_digest_lengths_standard, code_table_is_standard, fileDigestNew_ok_iff); the spec judges them by the real sizes (SHA-224 = 56: old_sha224_length_witness).",
    "level_note": "Trusted: Lean kernel; model fidelity as exercised (40 accessors compared textually per case); from_utf8_lossy and Path::join models.",
}
