from .common import COMMON_ASSUME

CFG = {
    "props_module": "RpmVerif.Props.C16",
    "required_theorems": ["RpmVerif.C16.offsets_exact", "RpmVerif.C16.intro_at_offsets", "RpmVerif.C16.parsed_wf", "RpmVerif.C16.offsets_fit_u64",
                          "RpmVerif.C16.empty_wf", "RpmVerif.C16.clear_eq_empty", "RpmVerif.C16.write_empty", "RpmVerif.C16.parse_write_empty",
                          "RpmVerif.C16.offsets_new_empty", "RpmVerif.C16.offsets_cleared"],
    "trivial_branches": ["rejected"],
    "rule": "asset + fixture packages; hand-encoded signature headers with 0..40 entries × store slack 0..7 (all sizes mod 8) × random main headers; "
            "seeded structure-aware packages; thorough adds two ~4 GiB stores (the overflow guard of the former u32 arithmetic). Observable: the four "
            "offsets, written length, payload length, whether a header intro (magic+version) starts at each header offset in the written bytes. "
            "Non-trivial = accepted by the parser; distinct = distinct request lines.",
    "exhaustive": False,
    "shards": {"quick": 4, "thorough": 8},
    "no_widen": True,
    "trusted_base": ["std read/write on in-memory buffers"],
    "assumptions": COMMON_ASSUME,
    "level_text": "Theorem offsets_exact: for EVERY well-formed metadata value and payload, each reported offset equals the length of what is written before "
                  "that segment (so a header intro starts at both header offsets, the distance from the payload offset to the end is the payload length, offsets "
                  "strictly increase); offsets_cleared / offsets_new_empty: the instances for a signature header cleared (Header::clear, modelled as Header.clear) or "
                  "replaced by Header::new_empty() in memory (offsets 0, 96, 112, 112 + main header size; empty_wf, clear_eq_empty, write_empty, parse_write_empty); parsed_wf: every parsed package is well formed; offsets_fit_u64: the u64 sums cannot overflow. Tied to the code by "
                  "differential runs (offsets vs positions in the bytes the implementation writes, boundaries recomputed from raw input by the spec).",
    "level_note": "Trusted: Lean kernel; model fidelity as exercised; well-formedness of builder/signer output is C09's theorem, here covered by the correspondence.",
}
