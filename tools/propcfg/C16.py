from .common import COMMON_ASSUME

CFG = {
    "props_module": "RpmVerif.Props.C16",
    "required_theorems": ["RpmVerif.C16.offsets_exact", "RpmVerif.C16.intro_at_offsets", "RpmVerif.C16.parsed_wf", "RpmVerif.C16.offsets_fit_u64",
                          "RpmVerif.C16.empty_wf", "RpmVerif.C16.clear_eq_empty", "RpmVerif.C16.write_empty", "RpmVerif.C16.parse_write_empty",
                          "RpmVerif.C16.offsets_new_empty", "RpmVerif.C16.offsets_cleared",
                          "RpmVerif.C16.size_rest_fits_u64", "RpmVerif.C16.header_size_fits", "RpmVerif.C16.padding_fits", "RpmVerif.C16.offsets_steps_fit",
                          "RpmVerif.C16.offsets_locate_input", "RpmVerif.C16.offsets_locate_input_sig", "RpmVerif.C16.digest_ranges_are_offsets", "RpmVerif.C16.offsets_of_parsed"],
    "trivial_branches": ["rejected"],
    "rule": "asset + fixture packages; hand-encoded signature headers with 0..40 entries × store slack 0..7 (all sizes mod 8) × random main headers; "
            "seeded structure-aware packages; offbig16: up to 2^20 NULL entries / 100 kB stores in the MAIN or the signature header; thorough adds ~4 GiB stores in either header and "
            "2^28 index entries in the main header (16 x 2^28 = 2^32: the overflow guard of the former u32 arithmetic; 21 GiB of RAM). Observable: the four "
            "offsets, written length, payload length, whether a header intro (magic+version) starts at each header offset in the written bytes. "
            "Non-trivial = accepted by the parser; distinct = distinct request lines.",
    "exhaustive": False,
    "shards": {"quick": 4, "thorough": 8},
    "no_widen": True,
    "trusted_base": ["std read/write on in-memory buffers"],
    "assumptions": COMMON_ASSUME,
    "level_text": "Theorem offsets_exact: for EVERY well-formed metadata value and payload, each reported offset equals the length of what is written before "
                  "that segment (so a header intro starts at both header offsets, the distance from the payload offset to the end is the payload length, offsets "
                  "strictly increase); offsets_cleared / offsets_new_empty: the instances for a signature header cleared (Header::clear, modelled as Header.clear) or "
                  "replaced by Header::new_empty() in memory (offsets 0, 96, 112, 112 + main header size; empty_wf, clear_eq_empty, write_empty, parse_write_empty); parsed_wf: every parsed package is well formed; offsets_fit_u64: the u64 sums cannot overflow; size_rest_fits_u64 / header_size_fits / padding_fits / offsets_steps_fit: the expressions of Header::parse (size_rest), Header::size and padding_required, scraped from header.rs WITH the widths of their Rust types (Gen/AllocSites.lean, Model/Width.lean: checked unsigned arithmetic), never overflow for any u32 intro fields and evaluate to the model's numbers (a product taken in u32 before widening would fail at 2^28 entries). Tied to the code by "
                  "differential runs (offsets vs positions in the bytes the implementation writes, boundaries recomputed from raw input by the spec).",
    "level_note": "Trusted: Lean kernel; model fidelity as exercised; well-formedness of builder/signer output is C09's theorem, here covered by the correspondence.",
}
