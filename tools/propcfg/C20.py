from .common import COMMON_ASSUME

CFG = {
    "props_module": "RpmVerif.Props.C20",
    "required_theorems": ["RpmVerif.C20.ts_exact", "RpmVerif.C20.ts_exact_systemtime", "RpmVerif.C20.ts_exact_chrono",
                          "RpmVerif.C20.ts_agree", "RpmVerif.C20.ts_zone_irrelevant", "RpmVerif.C20.ts_monotone",
                          "RpmVerif.C20.ts_total", "RpmVerif.C20.fromSystemTime_eq_spec", "RpmVerif.C20.fromChrono_eq_spec",
                          "RpmVerif.C20.floor_is_floor", "RpmVerif.C20.le_iff_totalNanos"],
    "trivial_branches": ["plain", "unrepresentable"],
    "rule": "every second in ±2000 around 0, 2^31 and 2^32 × sub-second parts {0, 1 ns, 0.5 s, 999 999 999 ns}, each through "
            "TryFrom<SystemTime>, TryFrom<DateTime<Utc>> and TryFrom<DateTime<FixedOffset>> (all 38 offsets −12 h…+14 h hourly plus "
            "+5:45, −3:30, +5:30, +12:45, −9:30, +8:45, ±1 s, ±86 399 s, −0:25:21 for the seconds within ±3 of a boundary and, in the "
            "thorough tier, everywhere; three rotating offsets elsewhere in the quick tier); i64 extremes, ±2^62, ±2^53, ±2^41, "
            "DateTime::<Utc>::MIN_UTC / MAX_UTC and their neighbours; 10^5 (quick) / 2·10^6 (thorough) seeded instants over ±2^40 s "
            "biased to the three boundaries; 4·10^4 / 6·10^5 ordered pairs (same instant, same second, +1 ns with carry, a few seconds "
            "apart, random) through any mix of the three conversions. A case is trivial when it is a whole-second UTC date-time well "
            "inside the range or when the value could not be constructed (outside SystemTime's / chrono's range); distinct = distinct request lines",
    "exhaustive": True,
    "shards": {"quick": 4, "thorough": 8},
    "shrink": False,   # arguments are decimal numbers, not hex blobs
    "trusted_base": ["std::time::SystemTime::duration_since / Duration::as_secs and chrono's DateTime::with_timezone / timestamp "
                     "are modelled (floor seconds, offset-independent), exercised by the correspondence, not proved"],
    "assumptions": COMMON_ASSUME + [
        "an instant is identified with (floor seconds, nanoseconds < 10^9); chrono leap-second representations (nanos ≥ 10^9) are not enumerated",
        "time zones are exercised as chrono::FixedOffset and Utc (the impl is generic in TZ but only calls with_timezone(&Utc))",
    ],
    "level_text": "Theorems for all instants (unbounded integer seconds, every nanosecond part) and all zone offsets: both conversions equal the "
                  "spec on the floor (exact in 0..2^32, Underflow below, Overflow from 2^32 on, with converses), agree with each other, ignore the "
                  "zone offset and the sub-second part, preserve order (also across the two conversions), and have no panic outcome. The model is "
                  "tied to the code by enumerating every second around the three boundaries with sub-second parts on both sides, extreme values, "
                  "38 zone offsets and seeded instants through the real TryFrom impls under catch_unwind.",
    "level_note": "Trusted: Lean kernel; that SystemTime/chrono store instants as (floor seconds, nanos) as modelled — exercised on every run by the correspondence. "
                  "Timestamp::now() is modelled and characterised (now_total_iff) but cannot be exercised (the clock cannot be set).",
}
