from .common import COMMON_ASSUME

CFG = {
    "props_module": "RpmVerif.Props.C20",
    "required_theorems": ["RpmVerif.C20.ts_exact", "RpmVerif.C20.ts_exact_systemtime", "RpmVerif.C20.ts_exact_chrono",
                          "RpmVerif.C20.ts_agree", "RpmVerif.C20.ts_zone_irrelevant", "RpmVerif.C20.ts_monotone",
                          "RpmVerif.C20.ts_total", "RpmVerif.C20.fromSystemTime_eq_spec", "RpmVerif.C20.fromChrono_eq_spec",
                          "RpmVerif.C20.floor_is_floor", "RpmVerif.C20.le_iff_totalNanos",
                          "RpmVerif.C20.ts_exact_chronoDT", "RpmVerif.C20.ts_leap_reading", "RpmVerif.C20.ts_monotone_chronoDT",
                          "RpmVerif.C20.ts_civil", "RpmVerif.C20.ts_civil_zone_irrelevant", "RpmVerif.C20.ts_total_chronoDT",
                          "RpmVerif.C20.civil_epoch", "RpmVerif.C20.civil_next_day", "RpmVerif.C20.nextDay_valid"],
    "trivial_branches": ["plain", "unrepresentable"],
    "rule": "every second in ±2000 around 0, 2^31 and 2^32 × sub-second parts {0, 1 ns, 0.5 s, 999 999 999 ns}, each through "
            "TryFrom<SystemTime>, TryFrom<DateTime<Utc>> and TryFrom<DateTime<FixedOffset>> (all 38 offsets −12 h…+14 h hourly plus "
            "+5:45, −3:30, +5:30, +12:45, −9:30, +8:45, ±1 s, ±86 399 s, −0:25:21 for the seconds within ±3 of a boundary and, in the "
            "thorough tier, everywhere; three rotating offsets elsewhere in the quick tier); i64 extremes, ±2^62, ±2^53, ±2^41, "
            "DateTime::<Utc>::MIN_UTC / MAX_UTC and their neighbours; 10^5 (quick) / 2·10^6 (thorough) seeded instants over ±2^40 s "
            "biased to the three boundaries; 4·10^4 / 6·10^5 ordered pairs (same instant, same second, +1 ns with carry, a few seconds "
            "apart, random) through any mix of the three conversions. Date-times NOT made from a timestamp: every second within ±70 of the three "
            "boundaries (and 3·10^4 / 4·10^5 seeded instants) built from calendar fields (NaiveDate::from_ymd_opt + and_hms_nano_opt + and_local_timezone "
            "over 12 offsets, Utc.with_ymd_and_hms), from an RFC 3339 text written by the harness, by DateTime::<Utc>/<Local>::from(SystemTime), and by "
            "chrono::Local under 11 POSIX TZ texts (daylight-saving rules, :30 / :45 offsets, +14, -12) in a fresh thread each, 13 of them with the offset "
            "the rule must show; readings inside a leap second (frac >= 10^9 on a wall-clock :59, second 60 in RFC 3339) built each of these ways; corner "
            "dates (leap days, century years, year 0 / 9999 / ±200 000, invalid fields); Timestamp::now() on the real clock. A case is trivial when it is a whole-second UTC date-time well "
            "inside the range or when the value could not be constructed (outside SystemTime's / chrono's range); distinct = distinct request lines",
    "exhaustive": True,
    "shards": {"quick": 4, "thorough": 8},
    "shrink": False,   # arguments are decimal numbers, not hex blobs
    "trusted_base": ["std::time::SystemTime::duration_since / Duration::as_secs and chrono's DateTime::with_timezone / timestamp "
                     "are modelled (floor seconds, offset-independent), exercised by the correspondence, not proved"],
    "assumptions": COMMON_ASSUME + [
        "an instant is identified with (floor seconds, nanoseconds < 10^9); chrono's leap-second readings (sub-second field >= 10^9) are modelled as "
        "ChronoDT and judged: the second the reading hangs on, or (only where both lie inside 0..2^32) the next one, nothing else",
        "time zones are exercised as chrono::FixedOffset, Utc and chrono::Local under POSIX TZ texts (the impl is generic in TZ but only calls with_timezone(&Utc))",
        "seconds of a calendar reading: proleptic Gregorian calendar, Model/Calendar.lean daysFromCivil (proved: day 0 = 1970-01-01, +1 per valid date); "
        "the harness derives the calendar fields of its instants with its own inverse (civil_from_days), chrono is the third party",
    ],
    "level_text": "Theorems for all instants (unbounded integer seconds, every nanosecond part) and all zone offsets: both conversions equal the "
                  "spec on the floor (exact in 0..2^32, Underflow below, Overflow from 2^32 on, with converses), agree with each other, ignore the "
                  "zone offset and the sub-second part, preserve order (also across the two conversions), and have no panic outcome; the same on chrono's own "
                  "representation with leap-second readings (ts_exact_chronoDT, ts_leap_reading, ts_monotone_chronoDT) and for wall-clock readings given as calendar "
                  "fields in a zone (ts_civil; ts_civil_zone_irrelevant: two readings of the same second in two zones convert alike). The model is "
                  "tied to the code by enumerating every second around the three boundaries with sub-second parts on both sides, extreme values, "
                  "38 zone offsets and seeded instants through the real TryFrom impls under catch_unwind.",
    "level_note": "Trusted: Lean kernel; that SystemTime/chrono store instants as (floor seconds, nanos) as modelled — exercised on every run by the correspondence. "
                  "Timestamp::now() is modelled and characterised (now_total_iff); its real path is exercised once per run against two readings of the system clock (the clock cannot be set).",
}
