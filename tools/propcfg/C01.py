from .common import COMMON_ASSUME

CFG = {
    "props_module": "RpmVerif.Props.C01",
    "required_theorems": ["RpmVerif.C01.package_roundtrip", "RpmVerif.C01.metadata_write_parse", "RpmVerif.C01.metadata_fixpoint",
                          "RpmVerif.C01.header_roundtrip", "RpmVerif.C01.lead_roundtrip",
                          "RpmVerif.C01.wf_fixpoint", "RpmVerif.C01.cleared_fixpoint",
                          "RpmVerif.C01.canon_accepted", "RpmVerif.C01.parse_injective_mod_canon", "RpmVerif.C01.parse_eq_of_canon_eq",
                          "RpmVerif.C01.roundtrip_exact_iff", "RpmVerif.C01.write_injective"],
    "trivial_branches": ["rejected-eof", "meta-rejected-eof", "openrt-small-rejected-eof"],
    "cleanup_globs": ["work/c01-blobs/*.bin"],
    "rule": "asset + fixture packages (package and metadata-only entry points) and seeded structure-aware packages: arbitrary lead fields, "
            "two headers of 0..12 entries over all 10 data types with unknown/duplicated/unsorted tags, in-range offsets, non-UTF-8 strings, "
            "arbitrary reserved and padding bytes, store slack covering all sizes mod 8, empty/short payloads; every 20th package (and every asset) also "
            "with its signature header cleared (Header::clear) / replaced by Header::new_empty() in memory before writing (op pkgrtv); 30% damaged or truncated inputs "
            "(every value class of the magic/version bytes) which are mostly rejected (property silent: dontcare). Entry points and source / sink kinds (op openrt01, every asset / fixture, "
            "every 25th generated package and 120 generated packages LARGER than std's 8192-byte BufReader capacity with the mark inside the signature header, the main index, the main store "
            "or the payload, total lengths 8191 / 8192 / 8193 / 16384, some cut at 8192 +- 3): Package::parse on a slice, on an io::Cursor, Package::open on a file (&Path and &str) must give the SAME value "
            "(metadata and content) whose written form is canon(input); Package::write_file of it must leave exactly those bytes in the file and Package::open of that file the same value "
            "(model: Io.parseChunked under an empty / an 8192-chunk script, Io.writeFile 8192 into an accepting sink). Non-trivial = not rejected for "
            "plain end-of-input; distinct = distinct request lines.",
    "exhaustive": False,
    "shards": {"quick": 4, "thorough": 16},
    "trusted_base": ["std: read_exact / read_to_end / take semantics on in-memory sources (modelled as list take/drop); BufReader<File> / BufWriter<File> of capacity 8192 as "
                     "chunk / response scripts (Model/Io.lean, Model/BufWriter.lean; exercised by openrt01 on real files)",
                     "String::from_utf8_lossy (executable model in Model/Utf8.lean, exercised by the correspondence only)"],
    "assumptions": COMMON_ASSUME,
    "level_text": "Theorem package_roundtrip: for EVERY byte string the parser model accepts (unbounded entry counts / store sizes, all 10 types), "
                  "write(parse bs) = canon bs (only the 4 reserved bytes of each intro and the signature padding zeroed), the written bytes parse to "
                  "the same value and re-write identically; likewise for metadata, a single header and the lead; wf_fixpoint / cleared_fixpoint: the written "
                  "bytes of every well-formed value, in particular of a parsed package whose signature header was cleared or is new_empty(), are a fixpoint. The model is tied to the code by a "
                  "differential run over assets and structure-aware generated packages (observable: hash+length of written bytes, reparse-equal, rewrite-equal).",
    "level_note": "Trusted: Lean kernel; model fidelity as exercised (accept/reject class and written bytes compared on every case); std I/O and from_utf8_lossy semantics.",
}
