from .common import COMMON_ASSUME

CFG = {
    "extra_harness": "harness-default",   # rpm-rs built with its default cargo features (no bzip2): feature-dependent behaviour
    "props_module": "RpmVerif.Props.C15",
    "required_theorems": ["RpmVerif.C15.evr_roundtrip", "RpmVerif.C15.evr_normalized_roundtrip", "RpmVerif.C15.evr_normalized_eq",
                          "RpmVerif.C15.evr_normalized_has_epoch", "RpmVerif.C15.evr_roundtrip_iff",
                          "RpmVerif.C15.nevra_roundtrip", "RpmVerif.C15.nevra_normalized_roundtrip", "RpmVerif.C15.nevra_normalized_eq",
                          "RpmVerif.C15.nevra_nvra_roundtrip", "RpmVerif.C15.nevra_roundtrip_iff", "RpmVerif.C15.compression_roundtrip",
                          "RpmVerif.C15.compression_display_total", "RpmVerif.C15.compression_fromStr_total"],
    # cases outside every guard: the spec is silent there
    "trivial_branches": ["evr-out-e0", "evr-out-e1", "nevra-FFF-e0-plainname", "nevra-FFF-e0-dashname",
                         "nevra-FFF-e1-plainname", "nevra-FFF-e1-dashname"],
    "rule": "exhaustive: every (epoch, version, release) triple and every (name, epoch, version, release, arch) 5-tuple over per-component pools of "
            "10-12 (quick) / 16-20 (thorough) short strings over the alphabet {a,1,'-','.',':','~'} incl. guard-violating members, through "
            "to_string / as_normalized_form / nvra and parse; plus the name/epoch/version/release/arch of every *.rpm under /repo/test_assets, "
            "22 real-world style names x epochs x versions x releases, seeded random longer tuples (multi-byte chars), every CompressionType variant "
            "Display->FromStr plus near-miss names, and 1e5 (quick) / 2e6 (thorough) arbitrary strings through Evr::parse, Nevra::parse, "
            "CompressionType::from_str under catch_unwind; a case is non-trivial when at least one guard of Spec/Version.lean holds "
            "(or it is a parse/compression case); distinct = distinct request lines",
    "exhaustive": True,
    "shards": {"quick": 4, "thorough": 16},
    "trusted_base": ["guards of Spec/Version.lean as the reading of 'component values a real package can carry' "
                     "(proved to be exactly the set of values that round-trip: *_roundtrip_iff for all five text forms; a checked counterexample per clause)",
                     "tools/gen/compression_names.py (regex scrape of the Display / FromStr match arms; cross-checked on every run by the compall / comprt correspondence)"],
    "assumptions": COMMON_ASSUME + ["Rust str::split_once / rsplit_once / rmatch_indices on an ASCII separator act on chars as the code-point model does (exercised with multi-byte text)"],
    "level_text": "Theorems for all strings of any length: parse∘Display = id componentwise exactly inside EvrGuard / NevraGuard (iff), normalized form parses to epoch ''↦'0' "
                  "and is == to the original, it always carries an epoch; NEVRA round trips for arbitrary names (dashes, dots, colons, empty) for to_string, "
                  "as_normalized_form and nvra; every CompressionType variant parses back from its Display name (tables scraped from the source). "
                  "No panic outcome exists in the model; tied to the code by exhaustive pool tuples, asset packages and 1e5 arbitrary strings under catch_unwind.",
    "level_note": "Trusted: Lean kernel; the guards as the reading of 'values a real package can carry'; fidelity of the hand model as exercised by the correspondence.",
}
