from .common import COMMON_ASSUME

CFG = {
    "default_features_variant": True,   # also run the harness built against rpm-rs WITHOUT its optional bzip2 feature (feature-gated code paths)
    "props_module": "RpmVerif.Props.C17",
    "required_theorems": ["RpmVerif.C17.add_data_total", "RpmVerif.C17.add_data_outcomes", "RpmVerif.C17.add_data_ok_iff_splittable",
                          "RpmVerif.C17.add_data_err_unsplittable", "RpmVerif.C17.add_data_ok_shape", "RpmVerif.C17.split_name_unique",
                          "RpmVerif.C17.splittableB_iff", "RpmVerif.C17.add_data_err_no_file_name", "RpmVerif.C17.hasFileNameB_iff",
                          "RpmVerif.C17.compressor_total", "RpmVerif.C17.compressor_err_iff", "RpmVerif.C17.caps_setter_total",
                          "RpmVerif.C17.timestamp_setter_panics_iff", "RpmVerif.C17.timestamp_setter_ok", "RpmVerif.C17.fileSetter_total",
                          "RpmVerif.C17.build_args_total_partial", "RpmVerif.C17.build_args_can_panic",
                          "RpmVerif.C17.with_file_total", "RpmVerif.C17.with_file_mtime_err_iff", "RpmVerif.C17.with_file_outcomes",
                          "RpmVerif.C17.setters_total", "RpmVerif.C17.build_calls_total",
                          "RpmVerif.C17.default_level_in_range", "RpmVerif.C17.default_of_every_type", "RpmVerif.C17.default_is_some_variant",
                          "RpmVerif.C17.step_total", "RpmVerif.C17.run_total", "RpmVerif.C17.build_total", "RpmVerif.C17.build_and_sign_total",
                          "RpmVerif.C17.build_total_needs_clock", "RpmVerif.C17.comp_variant_table",
                          "RpmVerif.C17.run_keeps_threshold", "RpmVerif.C17.large_file_switch", "RpmVerif.C17.build_ok_is_model_build"],
    "trivial_branches": ["bad-start", "ts:unrepresentable", "meta:nul"],
    "rule": "ALL destinations over the alphabet {'/', '.', 'a'} up to length 8 (quick, 9 841 strings) / 11 (thorough, 265 720), all token strings over "
            "{'/', '.', '..', 'a', 'b.c'} up to 5 / 7 tokens, the former panic witnesses, long (5 000-byte names, 2 000 levels, 3 000 slashes), multi-byte, "
            "NUL-containing and blank destinations, 2·10^4 / 3·10^5 seeded token strings; each through PackageBuilder::with_file → build → write → parse "
            "(`dest`, observing DIRNAMES / BASENAMES / get_file_paths) and through the real std::path functions components / parent / file_name / "
            "strip_prefix(\".\") (`pcomps`, `pparent`, `pfilename`, `pstrip`; also non-UTF-8 bytes; `pjoin` on 16 pairs). Every CompressionWithLevel variant "
            "with levels −1, 0..25, 100, 2^31−1, 2^32−1 (zstd also −131072, −131073, −2^31, 2^31, −2^31−1, …; thorough adds 15 more), each build in a forked "
            "child (`level`: ok | err | panic | abort | corrupt). source_date and add_changelog_entry with u32 / SystemTime / DateTime<Utc> / "
            "DateTime<FixedOffset> at −1 ns, 0, 2^31, 2^32−1(+0.999999999), 2^32, chrono MIN/MAX, i64 extremes, ±40 / ±2000 s windows and seeded instants "
            "(`tsset`). Capability text: all strings of up to 3 / 4 tokens over {cap_chown, cap_kill, all, cap_bogus, ',', '=', '+', '-', e, i, p, x, ' '} plus "
            "17 hand-picked ones (`capsset`, setter vs FileCaps::from_str). 20 metadata strings through every string setter, epoch, all nine scriptlet setters (from &str / String / Scriptlet with flags and interpreter), all eight dependency setters (through eight constructors), a changelog entry and a file owner / group / link, built through build (even length) or build_and_sign (odd), written, re-parsed and read back field by field (`meta`: `ok rt=all` or the fields that did not come back; a text with a NUL comes back cut and is not predicted). "
            "`wfile`: one FileOptions::new(dest).<setters> chain + with_file on a source the harness prepares — a regular file, a symbolic link to one, a FIFO (fed by "
            "a thread), a directory, a missing path; 14 permission words incl. set-uid / set-gid / sticky / 0 / 0o7777 (and random 12-bit words); 16 modification times "
            "from −2^31 s over −1 ns, 0, 2^31, 2^32−1(+0.999999999 s), 2^32 to 1.5·10^10 s (set with futimens, read back before use); 49 option chains (every is_* setter, "
            "repeated / combined setters, owner, link target, valid and unknown capability text, verify flags, mode(i32) at −2^31, −32769, −32768, −1, 0, 65535, 65536, "
            "0o271664, 2^31−1, FIFO / char-device words, mode(u16), FileMode::regular/dir/symbolic_link with oversized permissions, the mode() call before and after "
            "other setters and twice); good, unsplittable and relative destinations; 300 / 6 000 seeded combinations. Observed: st_mode of the source, error class "
            "(io | TimestampConv | InvalidDestinationPath | InvalidCapabilities) or the read-back mode word, cpio c_mode, mtime, flags, owner, group, link, caps, verify "
            "flags, size. `leveld`: compression(CompressionType::T) for every T and no compression() call at all (also on the build without bzip2), observing "
            "PAYLOADCOMPRESSOR / PAYLOADFLAGS. A case is trivial when "
            "the destination does not start with '/' or './', when a timestamp value cannot be constructed, or a `meta` text containing a NUL; distinct = distinct request lines",
    "exhaustive": True,
    "shards": {"quick": 4, "thorough": 16},
    "trusted_base": ["Unix std::path (components, parent, file_name, strip_prefix, join) is modelled on byte strings (Model/Path.lean) and compared function by "
                     "function with the real std on every enumerated string; not proved against the std source",
                     "the external encoders (flate2, zstd, liblzma, bzip2) do not panic inside the level ranges the source checks (hypothesis "
                     "EncodersDoNotPanic; exercised by the level sweep in child processes)",
                     "capability validation is an abstract parameter here (property C19 models it); the setter is compared with FileCaps::from_str at run time",
                     "the operating system's view of the source path (open / read outcome, st_mode, mtime) is the argument `Source` of the with_file model; fstat on the "
                     "open descriptor is taken not to fail; the S_IF* constants are the OS's (checked against the st_mode the harness reads back on every wfile case)"],
    "assumptions": COMMON_ASSUME + [
        "a destination is a Rust String, i.e. valid UTF-8, so to_string_lossy is the identity on its '/'-separated pieces",
        "for the destination / layout / level ops the source file given to with_file exists and is readable; `wfile` lifts this (missing path, directory, FIFO)",
        "build_total's provisos: the system clock inside 1970..2106 (Timestamp::now() unwraps; the hook pins the clock to a u32, so this site is model-only: "
        "build_total_needs_clock), the codec crates do not panic, fewer than 2^32 − 1 files and 2^64 content bytes, the large-file limit at most u32::MAX",
    ],
    "level_text": "Theorems for ALL destination byte strings of any length: add_data never panics (add_data_total), it accepts exactly the destinations that "
                  "start with '/' or './' and read d/name followed only by separators and '/.' pieces with name a real file name "
                  "(add_data_ok_iff_splittable, add_data_err_unsplittable: everything else is Err(InvalidDestinationPath)); an accepted destination is stored "
                  "with a non-empty '/'-free base name, a dir that starts and ends with '/', cpio path './…', the same name components as the destination, "
                  "and reads back as dir ++ base (add_data_ok_shape). Compressor construction never panics and errs exactly outside the ranges scraped from "
                  "compressor.rs (compressor_total, compressor_err_iff; encoders assumed panic-free inside those ranges). The caps setter reports exactly the "
                  "validator's verdict (caps_setter_total). with_file (model Model/WithFile.lean: source = open/read outcome, content, st_mode word, mtime instant; options = "
                  "FileOptions::new defaults scraped from types.rs + any chain of setters) never panics for ANY st_mode word, instant, options and destination "
                  "(with_file_total, build_calls_total for whole call sequences); it returns Err(TimestampConv) exactly for a readable source whose mtime is before 1970 "
                  "or from 2106-02-07T06:28:16Z on — tested before the destination — and Ok exactly for readable + in-range + splittable (with_file_mtime_err_iff, "
                  "with_file_outcomes). Every default level of From<CompressionType> passes the range check of its variant, every type has an arm that keeps the type, "
                  "and CompressionWithLevel::default() is, for every combination of cargo features, a variant with an accepted level whose codec is compiled in "
                  "(default_level_in_range, default_of_every_type, default_is_some_variant; tables scraped from compressor.rs / Cargo.toml). The WHOLE build is a function into ok | err | panic (Model/PrepareData.lean: Build.run over every metadata / scriptlet / dependency / changelog setter, source_date, "
                  "with_file; Build.prepareData / build / buildAndSign with one explicit outcome for every `?`, unwrap, expect, checked `+=` / `*` and narrowing cast of prepare_data, "
                  "create_region_tag and Timestamp::now): step_total / run_total — no call panics except the two timestamp conversions; build_total — new(..).<any calls>.build() never "
                  "panics provided no out-of-range instant reaches a timestamp setter, the clock is inside 1970..2106, the codecs do not panic, fewer than 2^32 − 1 files / 2^64 bytes are "
                  "added and the large-file limit is at most u32::MAX; the sites `position(..).unwrap()` and the two `expect`s are unreachable because every call sequence leaves each "
                  "file's directory registered and size = content length (Build.Inv); large_file_switch: after any call sequence uses_large_files is exactly 'the CONTENTS sum to more than u32::MAX bytes' and otherwise the combined size and every single size fit a u32; build_ok_is_model_build: an Ok of build() into an all-accepting compressor is Bld.build (the total model of C06 – C09) with Cpio.builderArchive / builderArchiveLarge as the archive; build_and_sign_total adds the signer; build_total_needs_clock: with the clock outside 1970..2106 the "
                  "plainest build panics (model-only site). PARTIAL: build_args_total_partial needs the hypothesis that no out-of-range instant reaches "
                  "source_date / add_changelog_entry; those setters unwrap the conversion and panic exactly outside 0 ≤ t < 2^32 "
                  "(timestamp_setter_panics_iff, build_args_can_panic) — known finding class timestamp-setter-panic. The model is tied to the code by the "
                  "exhaustive destination enumeration, the per-function std::path comparison, the level sweep in child processes and boundary timestamps.",
    "level_note": "Trusted: Lean kernel; the byte-level model of Unix std::path (validated against the real functions on every enumerated string); the encoders' "
                  "behaviour inside their ranges; the generated level / default tables (tools/gen/compression_levels.py) and FileOptions table (tools/gen/file_options.py), both degrade loudly. Known finding: timestamp setters panic "
                  "outside 1970..2106.",
}
