from .common import COMMON_ASSUME

CFG = {
    "props_module": "RpmVerif.Props.C19",
    "required_theorems": ["RpmVerif.C19.caps_iff", "RpmVerif.C19.caps_accept_of_wellFormed", "RpmVerif.C19.caps_admissible_of_accept",
                          "RpmVerif.C19.caps_accepts_iff_code_reading", "RpmVerif.C19.caps_meets_demand", "RpmVerif.C19.caps_total",
                          "RpmVerif.C19.caps_total_entry_points", "RpmVerif.C19.caps_reject_is_error", "RpmVerif.C19.caps_new_ok_iff",
                          "RpmVerif.C19.caps_verbatim", "RpmVerif.C19.dontcare_where_silent"],
    "trivial_branches": ["reject-empty"],
    "rule": "complete enumeration of all strings of up to 5 tokens (quick) / up to 6 tokens plus all 7-token strings over a 9-token "
            "sub-alphabet (thorough) over {cap_chown, cap_kill, all, cap_bogus, ',', '=', '+', '-', e, i, p, x, ' '}, each through "
            "FileCaps::from_str, FileCaps::new, Display, validate_caps_text and FileOptions::caps; plus 1e5 (quick) / 1e6 (thorough) seeded "
            "longer texts (grammar-shaped clauses over all 41 capability names in lower/upper/mixed case, every ASCII whitespace kind, "
            "injected defects, some non-ASCII) and a few hundred texts carried through PackageBuilder::build and read back from the file entry; "
            "a case is non-trivial when the text is not empty/all-whitespace; distinct = distinct request lines",
    "exhaustive": True,
    "shards": {"quick": 4, "thorough": 16},
    "trusted_base": ["Spec/FileCaps.lean: my formalisation of the property sentence as a grammar with two explicit readings (strict / lenient) "
                     "and the don't-care region between them",
                     "CAPS table scraped from src/rpm/filecaps.rs on every run (tools/gen/caps_table.py)"],
    "assumptions": COMMON_ASSUME + [
        "ASCII input: non-ASCII text is outside the model and the grammar (Unicode to_uppercase / Unicode whitespace); for it only 'no panic' and "
        "'verbatim when accepted' are checked on the real code",
        "Rust std semantics of str::trim, split_whitespace, find, split, to_uppercase, eq_ignore_ascii_case on ASCII as transcribed in Model/FileCaps.lean",
    ],
    "level_text": "Theorems for all strings of any length: the model of validate_caps_text accepts exactly the grammar of the property under one reading "
                  "of its two ambiguous points (caps_accepts_iff_code_reading), hence accepts every text that is well formed under all readings and only texts "
                  "well formed under some reading (caps_iff outside the don't-care set); it never panics (the debug_assert in validate_suffix is unreachable), "
                  "rejected text is an error, accepted text is stored and displayed verbatim by FileCaps::new / from_str / FileOptions::caps. The model is tied "
                  "to the code by the regenerated CAPS table and a complete small-scope differential run over the property's token alphabet plus seeded long texts.",
    "level_note": "Trusted: Lean kernel; the grammar in Spec/FileCaps.lean as a reading of the English sentence (don't-care: flagless last group, 'all' inside a "
                  "comma list, U+000B as whitespace, non-ASCII); fidelity of the hand model as exercised by the correspondence.",
}
