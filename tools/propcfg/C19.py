from .common import COMMON_ASSUME

CFG = {
    "props_module": "RpmVerif.Props.C19",
    "required_theorems": ["RpmVerif.C19.caps_iff", "RpmVerif.C19.caps_accept_of_wellFormed", "RpmVerif.C19.caps_admissible_of_accept",
                          "RpmVerif.C19.caps_accepts_iff_code_reading", "RpmVerif.C19.caps_meets_demand", "RpmVerif.C19.caps_total",
                          "RpmVerif.C19.caps_total_entry_points", "RpmVerif.C19.caps_reject_is_error", "RpmVerif.C19.caps_new_ok_iff",
                          "RpmVerif.C19.caps_verbatim", "RpmVerif.C19.dontcare_where_silent",
                          "RpmVerif.C19.caps_nonascii_name_rejected", "RpmVerif.C19.caps_nonascii_rejected",
                          "RpmVerif.C19.old_unicode_upper_witness"],
    "trivial_branches": ["reject-empty"],
    "rule": "complete enumeration of all strings of up to 5 tokens (quick) / up to 6 tokens plus all 7-token strings over a 9-token "
            "sub-alphabet (thorough) over {cap_chown, cap_kill, all, cap_bogus, ',', '=', '+', '-', e, i, p, x, ' '}; complete enumeration of "
            "all strings of up to 3 (quick) / 4 (thorough) tokens over that alphabet enlarged by 11 non-ASCII tokens {cap_k\u0131ll, "
            "cap_\u017fetuid, cap_\u212aill, cap_f\u00dfetid, cap_net_broadca\ufb06, U+00A0, U+3000, U+0085, \u00e9, U+FF1D, U+200B} and of "
            "4 (quick) / 5 and 6 (thorough) tokens over a 12-token mixed sub-alphabet; each through FileCaps::from_str, FileCaps::new, Display, "
            "validate_caps_text and FileOptions::caps; plus 1e5 (quick) / 1e6 (thorough) seeded longer texts (grammar-shaped clauses over all 41 "
            "capability names in lower/upper/mixed case, every ASCII and every non-ASCII White_Space code point, blanks that are not "
            "White_Space, non-ASCII look-alikes and case-mapping relatives injected into names, 'all', operators, flags; injected defects) and "
            "a few hundred texts carried through PackageBuilder::build and read back from the file entry; "
            "a case is non-trivial when the text is not empty/all-whitespace; distinct = distinct request lines",
    "exhaustive": True,
    "shards": {"quick": 4, "thorough": 16},
    "trusted_base": ["Spec/FileCaps.lean: my formalisation of the property sentence as a grammar with two explicit readings (strict / lenient) "
                     "and the don't-care region between them; names, 'all', operators, flags are the ASCII characters (a name with a non-ASCII "
                     "code point is unknown)",
                     "the Unicode White_Space table (Rust char::is_whitespace), transcribed by hand twice: as ranges in Model/FileCaps.lean "
                     "(isWs) and as a list in Spec/FileCaps.lean (isUniSpace); proved equal (isSpace_eq_isWs), exercised against the real "
                     "code on every listed code point by the seeded texts",
                     "CAPS table scraped from src/rpm/filecaps.rs on every run (tools/gen/caps_table.py)"],
    "assumptions": COMMON_ASSUME + [
        "a Rust String is the list of its Unicode scalar values; the driver decodes the request's UTF-8 into code points (the harness only "
        "sends valid UTF-8)",
        "Rust std semantics of str::trim, split_whitespace (char::is_whitespace = White_Space), find / byte slicing at an ASCII match, split, "
        "to_ascii_uppercase, eq_ignore_ascii_case as transcribed in Model/FileCaps.lean",
    ],
    "level_text": "Theorems for all strings of Unicode code points of any length (no ASCII restriction): the model of validate_caps_text accepts "
                  "exactly the grammar of the property under one reading of its ambiguous points (caps_accepts_iff_code_reading), hence accepts every "
                  "text that is well formed under all readings and only texts well formed under some reading (caps_iff outside the don't-care set); "
                  "any text with a non-ASCII code point that is not White_Space - in particular a clause with a non-ASCII code point in its name list - "
                  "is rejected and must be rejected (caps_nonascii_rejected, caps_nonascii_name_rejected), while the pre-e20037b validator "
                  "(Unicode to_uppercase) accepted \"cap_k\u0131ll=ep\" (old_unicode_upper_witness); it never panics (the debug_assert in validate_suffix is "
                  "unreachable), rejected text is an error, accepted text is stored and displayed verbatim by FileCaps::new / from_str / "
                  "FileOptions::caps. The model is tied to the code by the regenerated CAPS table and a complete small-scope differential run over "
                  "the property's token alphabet enlarged by non-ASCII tokens, plus seeded long texts with injected non-ASCII characters.",
    "level_note": "Trusted: Lean kernel; the grammar in Spec/FileCaps.lean as a reading of the English sentence (don't-care: flagless last group, 'all' inside a "
                  "comma list, U+000B and the non-ASCII White_Space code points as whitespace); the hand-transcribed White_Space table; fidelity of the hand "
                  "model as exercised by the correspondence.",
}
