from .common import COMMON_ASSUME

CFG = {
    "extra_props_modules": ["RpmVerif.Props.Pipeline"],
    "props_module": "RpmVerif.Props.C06",
    "required_theorems": ["RpmVerif.C06.build_reparse", "RpmVerif.C06.getter_of_slot", "RpmVerif.C06.slots_tags_nodup",
                          "RpmVerif.C06.readback_name", "RpmVerif.C06.readback_packager", "RpmVerif.C06.readback_group",
                          "RpmVerif.C06.readback_verify", "RpmVerif.C06.readback_requires", "RpmVerif.C06.readback_changelog",
                          "RpmVerif.C06.readback_paths", "RpmVerif.C06.readback_mtimes",
                          "RpmVerif.C06.readback_sizes", "RpmVerif.C06.readback_caps", "RpmVerif.C06.readback_digest_algo",
                          "RpmVerif.C06.readback_file_entries_tbl", "RpmVerif.C06.readback_file_entries",
                          "RpmVerif.C06.entryOf_path_cpio", "RpmVerif.C06.readback_file_entries_build",
                          "RpmVerif.C06.readback_file_entries_reparsed",
                          "RpmVerif.C06.dep_ctor_spec", "RpmVerif.C06.dep_ctor_defined", "RpmVerif.C06.builder_ctors_in_table",
                          "RpmVerif.C06.dep_ctor_flags_readback", "RpmVerif.C06.dep_ctor_table_standard",
                          "RpmVerif.C06.file_option_defaults_standard", "RpmVerif.C06.file_option_setters_standard",
                          "RpmVerif.C06.file_option_setters_shape", "RpmVerif.C06.setterBits_standard",
                          "RpmVerif.C06.with_file_inherit_mode", "RpmVerif.C06.with_file_inherit_regular", "RpmVerif.C06.explicit_mode_wins",
                          "RpmVerif.C06.explicit_mode_i32", "RpmVerif.C06.mode_header_eq_cpio", "RpmVerif.C06.mode_header_eq_cpio_stored",
                          "RpmVerif.C06.with_file_readback", "RpmVerif.C06.readback_flags_of_setters", "RpmVerif.C06.defaults_readback",
                          "RpmVerif.C06.readback_verifyflags",
                          "RpmVerif.C06.builder_setters_standard", "RpmVerif.C06.builder_new_standard", "RpmVerif.C06.opt_setters_last_call_wins",
                          "RpmVerif.C06.opt_setters_never_called", "RpmVerif.C06.script_setters_last_call_wins",
                          "RpmVerif.C06.dep_setters_accumulate_in_order", "RpmVerif.C06.changelog_accumulates_in_order",
                          "RpmVerif.C06.plain_setters_last_call_wins", "RpmVerif.C06.setters_keep_new_args", "RpmVerif.C06.state_of_calls",
                          "RpmVerif.C06.url_of_calls", "RpmVerif.C06.new_defaults_readback", "RpmVerif.C06.provides_of_calls",
                          "RpmVerif.C06.valid_of_cfg", "RpmVerif.C06.valid_of_inputs", "RpmVerif.C06.valid_of_args",
                          "RpmVerif.Pipeline.build_file_entries", "RpmVerif.Pipeline.build_file_entries_reparsed",
                          "RpmVerif.Pipeline.built_history_file_entries", "RpmVerif.Pipeline.built_package_sound"],
    "trivial_branches": ["build-rejected", "ctor-names", "wfile:fs-unsupported"],
    "rule": "seeded builder configurations through the real PackageBuilder (source files written to a scratch dir with chosen mode and mtime, "
            "clock pinned through the rpm_verif hook): any subset of optional fields; strings from {empty, ASCII, multi-line, tabs, multi-byte, quotes}; "
            "0..6 files at depth 0..4 incl. directly under '/', '/'- and './'-style and doubled-separator destinations, explicit modes (regular, dir, "
            "symlink, all 12 permission bits) and inherited modes, non-root owners, file flags, capabilities, verify flags, mtimes before/after the source "
            "date; the mode() call before / after the other setters and through From<u16>, mode(i32) outside 16 bits (0o271664, 2^31−1, −1, −32769, −2^31, 65536+0o100644), "
            "inherited set-uid / set-gid / sticky bits, sub-second mtimes, the is_* setters by name and in any order, compression(CompressionType) and no compression() call; "
            "plus (this property only) sources whose mtime is outside 1970..2106, a directory / a missing path as source (the model predicts the Err), and the `wfile6` "
            "cases of C17's `wfile` generator (one options chain + with_file on a regular file / symlink / FIFO / directory / missing path, every permission word, "
            "16 mtimes, 49 chains) judged for read-back; dependencies of all eight kinds; all nine scriptlets with/without flags and interpreters (incl. empty list); changelog; every "
            "compression type and level. Plus the 14 public Dependency constructors (op dep): every constructor under every one of the eight builder methods, "
            "and every constructor over names {empty, ASCII, parentheses, blank, multi-byte} × versions with the method rotating — constructed value and the "
            "value read back from the built, written and re-parsed package, against the constructor table scraped from src/rpm/headers/types.rs (op depctors: "
            "the harness calls every constructor in it). Observable: fnv of lead / signature header / main header bytes (predicted byte for byte by the model), "
            "reparse equality, and the full accessor dump judged against the request by the spec. Non-trivial = build succeeded; distinct = distinct requests.",
    "exhaustive": False,
    "shards": {"quick": 4, "thorough": 16},
    "shrink": False,
    "trusted_base": ["compressors and SHA-256 (payload/archive digests are taken from the harness, which computes them with the codec and sha2 crates directly)",
                     "std::path functions used by add_data (model Model/Path.lean, validated separately in C17)"],
    "assumptions": COMMON_ASSUME + ["valid configuration = RecsOk: NUL-free valid UTF-8 strings, integers in range, header below 2 GiB (explicit hypothesis of the "
                                    "read-back theorems; DERIVED by valid_of_inputs from the arguments of the calls: NUL-free Rust strings, numbers of the width of their "
                                    "Rust types, total string weight of the state below 10.5 MB, contents below 2^64 bytes)"],
    "level_text": "Theorems for EVERY valid configuration (any field values, any number of files / dependencies / changelog entries): the records prepare_data "
                  "emits have pairwise distinct tags; from_entries yields a well-formed header, so build → write → parse returns the built value (build_reparse); "
                  "each typed getter on that header returns exactly the record's data, hence name, epoch, version, release, arch, licence, summary, description "
                  "(default: summary), group (default: Unspecified), vendor, packager, url, vcs, cookie, build host, all nine scriptlets (script, flags, "
                  "interpreter), the eight dependency lists (user-supplied ones as a prefix of what is read back), the changelog, per-file modes / owners / "
                  "flags / link targets / digests / clamped mtimes and the file paths dir ++ basename are read back as supplied. "
                  "get_file_entries() itself is proved end to end (readback_file_entries): on the built header and any signature header without IMA "
                  "signatures — in particular those build, sign and clear_signatures install — it returns one record per builder file, in order, with the "
                  "file's destination path (the cpio name without its leading '.'), mode, owner, group, min(mtime, source_date), size (FILESIZES or "
                  "LONGFILESIZES), flags, SHA-256 digest, capabilities and link target, and [] for a package without files; the same holds on the written "
                  "and re-parsed package (readback_file_entries_reparsed, Pipeline.build_file_entries_reparsed) and after any sign / clear / write + "
                  "re-parse history (Pipeline.built_history_file_entries); hypotheses: every file's directory is registered and every digest text is "
                  "empty or 64 characters (both guaranteed by add_data). The model predicts the emitted "
                  "lead, signature header and main header byte for byte on every generated configuration. "
                  "The builder FRONT-END is a Lean model too (Model/WithFile.lean; the driver's prediction runs through it): for the state ANY sequence of "
                  "FileOptions::new(dest).<setters> + with_file(source, ..) calls leaves behind, the per-file arrays and get_file_paths() read back the stored entries, "
                  "every entry stems from one of the calls and carries that source's size / mtime / digest and those options' fields, and every entry's directory is "
                  "registered (with_file_readback); without a mode() call the stored mode word is the source's st_mode, low 16 bits — type and all 12 permission bits, for "
                  "every st_mode word (with_file_inherit_mode; with_file_inherit_regular: 0o100000|p, read back as Regular{p}); the LAST mode(m) of a chain wins whatever "
                  "the source and the other setters (explicit_mode_wins), for mode(i32) the word is the integer's low 16 bits and the FILEMODES word equals the cpio c_mode, "
                  "for EVERY i32 incl. those From<i32> maps to Invalid (mode_header_eq_cpio); the FILEFLAGS word is the OR of rpm's attribute bits of the is_* setters called "
                  "(readback_flags_of_setters + file_option_setters_standard: the insert(..) arguments scraped from types.rs are rpm's RPMFILE_* values), a bare "
                  "FileOptions::new(dest) reads back root / root / no flags / every verify flag (defaults_readback + file_option_defaults_standard). The PACKAGE builder's state is a function of the calls (Bld.Cfg.new, MetaSetter.apply; "
                  "builder_setters_standard / builder_new_standard: the setter table and the two literals of `new` scraped from builder.rs are what the model implements): for the "
                  "eight Option<String> setters and the nine scriptlet setters the argument of the LAST call is what the state holds, whatever is called before and whatever other "
                  "setters after (opt_setters_last_call_wins, script_setters_last_call_wins; never called = None: opt_setters_never_called); epoch / release / source_date / "
                  "compression likewise (plain_setters_last_call_wins); the eight dependency setters and add_changelog_entry accumulate in call order "
                  "(dep_setters_accumulate_in_order, changelog_accumulates_in_order); no setter touches the arguments of new, the files or the directories "
                  "(setters_keep_new_args); a sequence interleaving setters and with_file calls leaves Cfg.applyAll of the former and WithFile.buildState of the latter "
                  "(state_of_calls); composed with the read-back theorems: url_of_calls, provides_of_calls, new_defaults_readback (release \"1\", epoch 0, no optional tag). "
                  "`Valid` is no longer only a hypothesis: valid_of_cfg derives it from the builder state (NUL-free Rust strings, u32 / u16 numbers, weight bound) and "
                  "valid_of_inputs / valid_of_args from the ARGUMENTS of PackageBuilder::new and of any call sequence (valid_of_args: the size bound is on the lengths of the arguments themselves, Lemmas/ValidWeight.lean) (Lemmas/RustStr.lean: valid UTF-8 is a fixed point of from_utf8_lossy and "
                  "closed under concatenation; Lemmas/ValidCalls.lean: directory and base name of a Rust-string destination are Rust strings; Lemmas/ValidInputs.lean: each of the "
                  "102 slots emits canonical data of bounded length). A dependency made by any public Dependency constructor (table regenerated from the source) reads back, under each of the eight kinds, with the constructor's wrapped name, the version and exactly the table's flags (dep_ctor_flags_readback; builder_ctors_in_table; dep_ctor_table_standard: the rows are rpm's RPMSENSE meanings).",
    "level_note": "Trusted: Lean kernel; model fidelity as exercised (byte-exact header prediction per case); compressors / SHA-256 crates; "
                  "add_data's path handling is C17's model. get_file_entries' composition is a theorem (readback_file_entries) and is also exercised by the correspondence.",
}
