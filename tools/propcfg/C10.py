from .common import COMMON_ASSUME

CFG = {
    "extra_props_modules": ["RpmVerif.Props.Pipeline"],
    "props_module": "RpmVerif.Props.C10",
    "required_theorems": ["RpmVerif.C10.run_total", "RpmVerif.C10.history_bytes", "RpmVerif.C10.history_wf", "RpmVerif.C10.writeParse_id",
                          "RpmVerif.C10.first_op_wf", "RpmVerif.C10.history_digests", "RpmVerif.C10.history_verify",
                          "RpmVerif.C10.history_verify_none", "RpmVerif.C10.history_verify_cleared", "RpmVerif.C10.history_keyids",
                          "RpmVerif.C10.history_keyids_cleared", "RpmVerif.C10.history_initial", "RpmVerif.C10.run_total_any",
                          "RpmVerif.Pipeline.build_metadata_wf", "RpmVerif.Pipeline.build_payload_digest_ok", "RpmVerif.Pipeline.build_unsigned",
                          "RpmVerif.Pipeline.built_history_total", "RpmVerif.Pipeline.built_history_digests",
                          "RpmVerif.Pipeline.built_history_verify", "RpmVerif.Pipeline.built_history_verify_none",
                          "RpmVerif.Pipeline.built_history_keyids", "RpmVerif.Pipeline.built_history_bytes",
                          "RpmVerif.Pipeline.built_history_reparse", "RpmVerif.Pipeline.build_sign_verifies",
                          "RpmVerif.Pipeline.build_sign_keyids", "RpmVerif.Pipeline.build_sign_digests",
                          "RpmVerif.Pipeline.built_package_sound"],
    "trivial_branches": ["start-rejected"],
    "rule": "ALL operation sequences over {sign with RSA-4096, passphrase-protected RSA-3072, Ed25519, ECDSA-P256 (the repo's test keys, "
            "sign_with_timestamp(.., 1_600_000_000)); clear_signatures; write to a buffer + Package::parse} up to length 3 (quick) / 5 (thorough) "
            "from two packages built by the real PackageBuilder (without files, with two files) and up to length 2 / 3 from each of the four foreign "
            "asset packages (v3 and v4 RSA signatures, MD5/SHA1/SHA256 digests) and the two fixture packages, evaluated as a tree (the state after a "
            "prefix is shared). After EVERY step the real package is asked: verify_signature with each of the four public keys (4 bits), "
            "signature_key_ids(), verify_digests(), and the FNV of the serialised main header and of the payload. The model (Lean parser on the start "
            "package, Sign.step with the symbolic scheme, verifyWith / keyIds / verifyDigests with the driver's own hashes) predicts every record; "
            "the spec is computed from the op list and the raw start bytes. Thorough tier: every fresh signature (legacy tag bytes) is additionally "
            "checked with gpgv against a keyring holding only the claimed key. Non-trivial = start package accepted; distinct = distinct histories.",
    "exhaustive": True,
    "shards": {"quick": 8, "thorough": 16},
    "shrink": False,
    "no_widen": True,
    "trusted_base": ["the OpenPGP implementation (pgp crate: sign, verify, issuer, base64) enters the theorems as the SigScheme hypotheses Correct, Binds, "
                     "IssuerOk, B64, LegacyOk; it is exercised with the four real keys on every history and cross-checked with gpgv in the thorough tier",
                     "SHA-256 / SHA-1 / MD5 crates (parameters of the model; the driver recomputes all digests with its own implementations)",
                     "RSA signatures are memoised per (key, bytes, time) in the harness after checking that the real signer is a function of them"],
    "assumptions": COMMON_ASSUME + [
        "start package well formed (MetadataWF: every parsed or built package is, C16.parsed_wf / C06.build_reparse); after the first sign / clear "
        "nothing is assumed about the start package's signature header (first_op_wf, run_total_any)",
        "SigRecsOk: base64 text is NUL-free UTF-8 and signature + text + digest text stay below 2 GiB (explicit hypothesis)",
        "PayloadDigestOk p0: the start package's own payload digest tags verify (they live in the untouched main header)",
    ],
    "level_text": "Theorems by induction over operation lists of ANY length, for ANY signature scheme satisfying Correct / Binds / IssuerOk / B64 / LegacyOk, ANY "
                  "hash functions and ANY well-formed start package: the history never fails and its result is the start package with the signature header of "
                  "the final signature state (run_total); main header, lead and payload are untouched as values and bytes (history_bytes); every reachable "
                  "state is well formed, so write + re-parse is the identity (history_wf, writeParse_id, history_writeParse); after any sign or clear the digests "
                  "verify (history_digests); if k signed most recently with no clear since, verify_signature with k' succeeds iff k' = k (history_verify) and "
                  "signature_key_ids is exactly [keyId k] (history_keyids); after a clear, or never signed from an unsigned start, no key verifies and "
                  "signature_key_ids is an error (history_verify_none, history_verify_cleared, history_keyids_cleared). Non-vacuity: the symbolic scheme "
                  "satisfies all hypotheses (proved), a concrete history is evaluated by the kernel. Pipeline theorems (Props/Pipeline.lean) discharge the "
                  "start hypotheses for the package PackageBuilder::build returns (build_metadata_wf, build_payload_digest_ok, build_unsigned) and instantiate the "
                  "history theorems there (built_history_*: build, then any sign / clear / write + re-parse sequence — digests verify after every history incl. the "
                  "empty one, exactly the last signer's key verifies and is reported, main header and payload byte-identical to the built ones), cover "
                  "build_and_sign (build_sign_verifies / _keyids / _digests) and bundle everything in built_package_sound.",
    "level_note": "Trusted: Lean kernel; model fidelity as exercised (every record of every enumerated history predicted); the pgp crate behind the SigScheme "
                  "hypotheses (exercised with four real keys, gpgv as independent oracle in the thorough tier); hash crates.",
}
