from .common import COMMON_ASSUME

CFG = {
    "extra_props_modules": ["RpmVerif.Props.Pipeline"],
    "props_module": "RpmVerif.Props.C10",
    "required_theorems": ["RpmVerif.C10.run_total", "RpmVerif.C10.history_bytes", "RpmVerif.C10.history_wf", "RpmVerif.C10.writeParse_id",
                          "RpmVerif.C10.first_op_wf", "RpmVerif.C10.history_digests", "RpmVerif.C10.history_verify",
                          "RpmVerif.C10.history_verify_none", "RpmVerif.C10.history_verify_cleared", "RpmVerif.C10.history_keyids",
                          "RpmVerif.C10.history_keyids_cleared", "RpmVerif.C10.history_initial", "RpmVerif.C10.run_total_any",
                          # the signing side with its failure / panic paths (Model/SignE.lean; gaps G4, G7, G8)
                          "RpmVerif.C10.legacyTagOf_range", "RpmVerif.C10.signer_algs_subset", "RpmVerif.C10.signer_tag_total",
                          "RpmVerif.C10.verifier_accepts_signer_keys", "RpmVerif.C10.legacyOk_discharged",
                          "RpmVerif.C10.config_one_issuer", "RpmVerif.C10.config_created_eq", "RpmVerif.C10.timestamp_opt_total",
                          "RpmVerif.C10.pgp_signer_sign", "RpmVerif.C10.pgp_issuerOk", "RpmVerif.C10.pgp_legacyOk", "RpmVerif.C10.pgp_algOk",
                          "RpmVerif.C10.sign_success_eq", "RpmVerif.C10.sign_outcomes", "RpmVerif.C10.sign_fail_unchanged",
                          "RpmVerif.C10.sign_ok_frame", "RpmVerif.C10.sign_panics_iff", "RpmVerif.C10.sign_now_eq",
                          "RpmVerif.C10.sign_now_panics_iff", "RpmVerif.C10.clear_total",
                          "RpmVerif.C10.runF_eq_run", "RpmVerif.C10.runF_failed_only", "RpmVerif.C10.runF_no_panic", "RpmVerif.C10.runF_panics_at",
                          "RpmVerif.C10.historyF_total", "RpmVerif.C10.historyF_bytes", "RpmVerif.C10.historyF_digests",
                          "RpmVerif.C10.historyF_verify", "RpmVerif.C10.historyF_verify_none", "RpmVerif.C10.historyF_keyids",
                          "RpmVerif.C10.historyF_legacy", "RpmVerif.C10.history_verify_discharged", "RpmVerif.C10.history_keyids_discharged",
                          "RpmVerif.C10.history_legacy_discharged", "RpmVerif.C10.pgp_history_verify", "RpmVerif.C10.pgp_history_keyids",
                          # the two mirrors of verify_signature (C10's verifyWith, C02's verifySignatureS) are one function (AUDIT2 a7)
                          "RpmVerif.C10.verifyWith_eq_verifySignatureS",
                          "RpmVerif.Pipeline.build_metadata_wf", "RpmVerif.Pipeline.build_payload_digest_ok", "RpmVerif.Pipeline.build_unsigned",
                          "RpmVerif.Pipeline.built_history_total", "RpmVerif.Pipeline.built_history_digests",
                          "RpmVerif.Pipeline.built_history_verify", "RpmVerif.Pipeline.built_history_verify_none",
                          "RpmVerif.Pipeline.built_history_keyids", "RpmVerif.Pipeline.built_history_bytes",
                          "RpmVerif.Pipeline.built_history_reparse", "RpmVerif.Pipeline.build_sign_verifies",
                          "RpmVerif.Pipeline.build_sign_keyids", "RpmVerif.Pipeline.build_sign_digests",
                          "RpmVerif.Pipeline.built_package_sound"],
    "trivial_branches": ["start-rejected"],
    "rule": "ALL operation sequences over {sign with RSA-4096, passphrase-protected RSA-3072, Ed25519, ECDSA-P256 (the repo's test keys, "
            "sign_with_timestamp(.., 1_600_000_000)); clear_signatures; write to a buffer + Package::parse} up to length 3 (quick) / 5 (thorough) "
            "from two packages built by the real PackageBuilder (without files, with two files) and up to length 2 / 3 from each of the four foreign "
            "asset packages (v3 and v4 RSA signatures, MD5/SHA1/SHA256 digests) and the two fixture packages, evaluated as a tree (the state after a "
            "prefix is shared). After EVERY step the real package is asked: verify_signature with each of the four public keys (4 bits), "
            "signature_key_ids(), verify_digests(), and the FNV of the serialised main header and of the payload. The model (Lean parser on the start "
            "package, Sign.step with the symbolic scheme, verifyWith / keyIds / verifyDigests with the driver's own hashes) predicts every record; "
            "the spec is computed from the op list and the raw start bytes. "
            "Since session 5 the model of a step is Sign.attemptF / Sign.settle (Model/SignE.lean): sign_with_timestamp with the timestamp conversion, "
            "the signer's answer and SignatureHeaderBuilder::build as fallible steps; records carry a last column (creation time of a fresh signature as "
            "read back from the packet / error class of a refused attempt). Added step forms, run as explicit histories from every start: the instant as "
            "u32 / SystemTime / DateTime<Utc> / DateTime<FixedOffset> incl. both ends of the range; Package::sign (by reference: impl Signing for &T); "
            "signers that refuse (locked key: SignError; foreign implementation: KeyNotFoundError) and foreign signers whose bytes build() turns down "
            "(no packet: NoSignatureFound; a DSA packet: UnsupportedPGPKeyType) — after each the state must be what it was; instants outside 0..2^32 "
            "(the unwrap panics before the signer is asked: observed `P:<op>`, predicted by the model, judged dontcare — the property speaks of valid "
            "operations; same defect class as the known finding C17 timestamp-setter-panic, label `tsoutofrange(timestamp-setter-panic)`). "
            "Step W = Package::write_file to a fresh path + Package::open of that file (the other sink / source kind of write + re-parse): from every start a,W / W,a for a in "
            "{sR,sP,sE,sC,c}, a,W,b (a rotating fifth in quick, all 25 in thorough) and 11 fixed histories (W,W; sE,W,sC,W; sP,W,w; nE,W; sE,xP,W ...); the model computes it through "
            "Io.writeFile 8192 (BufWriter around an accepting file) and Io.parseChunked under 8192-byte chunks (equal to writeParse by C14.write_file_then_open). "
            "Four more start packages (latin1, noncanon, swapped, extratag): the built package with a main header that is valid but not what the library "
            "itself lays out (non-UTF-8 byte in a string; slack bytes after the store; data of two entries swapped; an extra tag below 1000), which a "
            "sign / clear that re-built the main header would silently rewrite. Table ties: sgbuild / sgnew / vfload for every algorithm number 0..255 "
            "(hand-made signature and key packets) against legacyTagOf / signerNew / verifierLoad (tables scraped by tools/gen/sig_algs.py); sgcfg / sgcfgk: "
            "the real <pgp::Signer as Signing>::sign (fake secret-key operation for every accepted algorithm, and the four real keys) read back and compared "
            "with mkConfig (version, type, algorithm, hash, sub-packet types in order, creation time, issuers, fingerprints) at 0, 2^31-1, 2^31, 2^32-1 …; "
            "tsopt: chrono's timestamp_opt at the ends of its range. Thorough tier: every fresh signature (legacy tag bytes) is additionally "
            "checked with gpgv against a keyring holding only the claimed key. Non-trivial = start package accepted; distinct = distinct histories.",
    "exhaustive": True,
    "shards": {"quick": 8, "thorough": 16},
    "shrink": False,
    "no_widen": True,
    # the generator is an exhaustive enumeration that never looks at the seed: re-running it under other seeds adds nothing
    "no_escalate": True,
    "trusted_base": ["the OpenPGP implementation (pgp crate: sign, verify, issuer, base64) enters the theorems as the SigScheme hypotheses Correct, Binds, "
                     "IssuerOk, B64, LegacyOk; it is exercised with the four real keys on every history and cross-checked with gpgv in the thorough tier. "
                     "For a PgpScheme (Model/SignE.lean: only the secret-key operation + packet serialisation `sealSig` and the packet reader `parse` are "
                     "abstract) IssuerOk and LegacyOk are theorems; what is left is ParseSeal (a packet the signer wrote reads back with the configuration it "
                     "was made from), Correct, Binds, B64",
                     "chrono's DateTime::from_timestamp (range -262143-01-01 ..= +262142-12-31, leap-second notation) is transcribed in Sign.chronoTimestampOpt "
                     "and compared with the crate at the ends of the range (op tsopt)",
                     "SHA-256 / SHA-1 / MD5 crates (parameters of the model; the driver recomputes all digests with its own implementations)",
                     "RSA signatures are memoised per (key, bytes, time) in the harness after checking that the real signer is a function of them"],
    "assumptions": COMMON_ASSUME + [
        "start package well formed (MetadataWF: every parsed or built package is, C16.parsed_wf / C06.build_reparse); after the first sign / clear "
        "nothing is assumed about the start package's signature header (first_op_wf, run_total_any)",
        "SigRecsOk: base64 text is NUL-free UTF-8 and signature + text + digest text stay below 2 GiB (explicit hypothesis)",
        "PayloadDigestOk p0: the start package's own payload digest tags verify (they live in the untouched main header)",
        "AlgOk S pubAlg (in place of LegacyOk in the _discharged / historyF_* theorems): the scheme's signatures parse and their algorithm selects the key's "
        "legacy tag in the table scraped from SignatureHeaderBuilder::build — proved for the symbolic scheme and, from ParseSeal, for every PgpScheme",
        "histories with failing attempts (historyF_*): every attempt is Quiet — its timestamp converts (otherwise the history panics there: runF_panics_at) "
        "and a foreign signer's bytes are turned down by build()",
    ],
    "level_text": "Theorems by induction over operation lists of ANY length, for ANY signature scheme satisfying Correct / Binds / IssuerOk / B64 / LegacyOk, ANY "
                  "hash functions and ANY well-formed start package: the history never fails and its result is the start package with the signature header of "
                  "the final signature state (run_total); main header, lead and payload are untouched as values and bytes (history_bytes); every reachable "
                  "state is well formed, so write + re-parse is the identity (history_wf, writeParse_id, history_writeParse); after any sign or clear the digests "
                  "verify (history_digests); if k signed most recently with no clear since, verify_signature with k' succeeds iff k' = k (history_verify) and "
                  "signature_key_ids is exactly [keyId k] (history_keyids); after a clear, or never signed from an unsigned start, no key verifies and "
                  "signature_key_ids is an error (history_verify_none, history_verify_cleared, history_keyids_cleared). Non-vacuity: the symbolic scheme "
                  "satisfies all hypotheses (proved), a concrete history is evaluated by the kernel. Pipeline theorems (Props/Pipeline.lean) discharge the "
                  "start hypotheses for the package PackageBuilder::build returns (build_metadata_wf, build_payload_digest_ok, build_unsigned) and instantiate the "
                  "history theorems there (built_history_*: build, then any sign / clear / write + re-parse sequence — digests verify after every history incl. the "
                  "empty one, exactly the last signer's key verifies and is reported, main header and payload byte-identical to the built ones), cover "
                  "build_and_sign (build_sign_verifies / _keyids / _digests) and bundle everything in built_package_sound. "
                  "The signing side with its ways out (Model/SignE.lean): sign_with_timestamp = timestamp conversion (unwrap) → signer → SignatureHeaderBuilder::build "
                  "→ ONE assignment; sign_outcomes lists every way out; on the success path it IS signOp (sign_success_eq), an Err leaves the package exactly as it "
                  "was (sign_fail_unchanged), success replaces the signature header only (sign_ok_frame), it panics iff the SystemTime / DateTime is outside "
                  "0..2^32 — before the signer is asked (sign_panics_iff = C17.timestamp_setter_panics_iff on Package), sign(s) = sign_with_timestamp(s, now) "
                  "(sign_now_eq, sign_now_panics_iff), clear_signatures cannot fail (clear_total). Histories with refused attempts are the histories of their "
                  "effective operations from ANY package (runF_eq_run), so every history theorem holds for them with 'last SUCCESSFUL signer' (historyF_*); no "
                  "history panics unless a timestamp is out of range and then exactly there (runF_no_panic, runF_panics_at). Tables scraped from the source: "
                  "every arm of build()'s algorithm match selects RPMSIGTAG_RSA / RPMSIGTAG_DSA for ALL algorithm numbers (legacyTagOf_range), so LegacyOk is "
                  "discharged (legacyOk_discharged, *_discharged); a key Signer::new accepts converts back to its own algorithm and never meets "
                  "UnsupportedPGPKeyType in build (signer_algs_subset, signer_tag_total), and the verifier loads it (verifier_accepts_signer_keys). The "
                  "configuration pgp::Signer::sign assembles has exactly one Issuer and one IssuerFingerprint sub-packet and the given creation time "
                  "(config_one_issuer, config_one_fingerprint, config_created_eq), timestamp_opt(..).unwrap() cannot panic for a u32 (timestamp_opt_total); hence "
                  "IssuerOk / LegacyOk / AlgOk are theorems for every PgpScheme with ParseSeal (pgp_issuerOk, pgp_legacyOk, pgp_algOk, pgp_history_verify, "
                  "pgp_history_keyids). verifyWith — this property's mirror of Package::verify_signature — IS C02's verifySignatureS at the stateless verifier object of the key "
                  "and the scheme's base64 decoder, result and error class (verifyWith_eq_verifySignatureS): one function, two views; C02's theorems apply to it (used by "
                  "C02.tamper_rejected_build_sign). signature_key_ids narrows the issuer count to u32 with an unwrap (Sign.issuerCountErr), unreachable under "
                  "SigScheme.IssuerSmall (C04.oneIssuer_total / oneIssuer_u32_overflow).",
    "level_note": "Trusted: Lean kernel; model fidelity as exercised (every record of every enumerated history predicted); the pgp crate behind the SigScheme "
                  "hypotheses (exercised with four real keys, gpgv as independent oracle in the thorough tier); hash crates.",
}
