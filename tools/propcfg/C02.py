from .common import COMMON_ASSUME

CFG = {
    "extra_props_modules": ["RpmVerif.Props.C02Bytes"],
    "props_module": "RpmVerif.Props.C02",
    "required_theorems": ["RpmVerif.C02.signature_tags_standard", "RpmVerif.C02.verify_ok_sound", "RpmVerif.C02.verify_log_faithful", "RpmVerif.C02.verify_data_right",
                          "RpmVerif.C02.verify_first_reject", "RpmVerif.C02.verify_total", "RpmVerif.C02.verify_no_sig_is_error",
                          "RpmVerif.C02.verify_digest_error_first", "RpmVerif.C02.tamper_rejected", "RpmVerif.C02.tamper_rejected_digest",
                          "RpmVerif.C02.tamper_rejected_verifier", "RpmVerif.C02.tamper_rejected_payload",
                          "RpmVerif.C02.tamper_rejected_pgp_payload", "RpmVerif.C02.model_satisfies_spec",
                          "RpmVerif.C02.pgp_verifier_sound", "RpmVerif.C02.old_verifier_repeated_issuer_witness",
                          "RpmVerif.C02.old_verifier_same_id_subkeys_witness",
                          "RpmVerif.C02.parse_none_iff", "RpmVerif.C02.parse_some_iff", "RpmVerif.C02.parse_of_single_packet",
                          "RpmVerif.C02.leading_packet_skipped", "RpmVerif.C02.trailing_packets_ignored", "RpmVerif.C02.trailing_bytes_ignored",
                          "RpmVerif.C02.trailing_garbage_refused", "RpmVerif.C02.trailing_packets_witness",
                          "RpmVerif.C02.pgp_verifier_sound_parsed", "RpmVerif.C02.pgp_verifier_no_signature",
                          "RpmVerif.C02.pgp_verifier_ignores_trailing", "RpmVerif.C02.pgp_verifier_parsed_eq",
                          "RpmVerif.C02.issuerOk_of_single_packet", "RpmVerif.C02.builderTag_of_single_packet",
                          "RpmVerif.C02.scheme_ignores_trailing",
                          # echo_signature in place (AUDIT2 a10)
                          "RpmVerif.C02.verify_echo_eq", "RpmVerif.C02.echo_total", "RpmVerif.C02.verify_total_echo",
                          # bytes level, library-signed packages (Props/C02Bytes.lean; AUDIT2 c1, c2)
                          "RpmVerif.C02.writeHeader_injective", "RpmVerif.C02.parse_of_prefix", "RpmVerif.C02.tamper_rejected_value",
                          "RpmVerif.C02.tamper_rejected_bytes", "RpmVerif.C02.signOp_libSigned", "RpmVerif.C02.verify_of_signedSig",
                          "RpmVerif.C02.binds_of_scheme", "RpmVerif.C02.tamper_rejected_build_sign",
                          "RpmVerif.C02.verify_ok_digests_spec"],
    "trivial_branches": ["orig", "orig-parse-err"],
    "rule": "(a) recording implementation of the public Verifying trait (scripted accept/reject pattern: i-th consult accepted iff bit i; logs "
            "length+FNV of the data read to the end, length+FNV of the signature, verdict) on hand-encoded packages (pkggen: 3+ main-header "
            "entries, payload 3..22 bytes, true PAYLOADDIGEST): the full product of OPENPGP in {absent, BIN, STRING, STRING_ARRAY with 0, 1, 2 "
            "entries of every kind, 3 entries (quick: all all-valid triples + a seeded fifth of the 125; thorough: all), I18NSTRING} x "
            "{absent, binary, wrong type (rotating through STRING_ARRAY / STRING / INT8 / NULL / CHAR)}^3 for RSA / DSA / PGP x SHA256 header "
            "digest {correct, wrong (thorough: + absent, BIN-typed)} x every accept pattern of the length that can matter (+ the empty pattern, "
            "+ one longer); entry kinds: two well-formed base64 texts, text with invalid characters, empty string, base64 with CR/LF "
            "(random part adds: valid prefix + garbage, truncated quantum, padding only, blanks, leading blank, '=' in the middle, URL-safe "
            "alphabet, 160 characters over three lines); plus seeded random shapes (quick 4000, thorough 40000) varying everything: duplicated "
            "tags (first entry wins), hidden OPENPGP array behind a wrong-typed one, shuffled index order, extra entries, MD5/SHA1/SHA256/"
            "payload digests correct / wrong / absent / wrong type, empty binaries, random patterns. The base64 results are supplied by the "
            "harness (pgp's Base64Decoder(Base64Reader) run on each text) as the model's abstract b64 parameter. "
            "(b) the real pgp::Verifier with 5 keys (ed25519, ECDSA P-256, RSA-4096, passphrase-protected RSA-3072, the RSA test key) on a package "
            "built by PackageBuilder (2 files, no compression, source_date) and signed with build_and_sign: every 7th (thorough: every) single-bit "
            "flip of the header and payload regions, a sample of lead / signature-header bits, and random multi-byte edits (overwrite, per-byte "
            "bit flips, delete, insert, truncate, append; quick 254, thorough 4004 per key). (c) regression cases for fix c25de51: hand-made packages "
            "whose only OPENPGP signature was made by the test key's subkey / primary key over the header or over the EMPTY message, issuer id listed "
            "once or twice (a signature over the empty message must give an error: fails:unsigned-header-accepted otherwise). Non-trivial = everything except the five unmodified "
            "packages; distinct = distinct request lines. (d) Verifier::parse_signature (sigpkts): for each of the 5 keys a hand-made package whose signature blob is a "
            "SEQUENCE of OpenPGP packets around real signatures made over its header — [junk][sig], [garbage in a signature frame][sig], [sig][sig by another key] "
            "and the reverse, [sig over the empty message][sig], sig followed by trailing packets / a second signature / unframed bytes / a truncated or "
            "oversize packet, truncated sig, no signature at all, the signature re-framed with every length format (old 1/2/4 octets, indeterminate, new "
            "1/2/5 octets; indeterminate swallowing what follows), subkey signatures — placed as the OPENPGP base64 entry (also as the first of two "
            "entries) or as the binary RSA / DSA tag; observed: signature_key_ids(), verify_signature(real Verifier), and the legacy tag "
            "SignatureHeaderBuilder::build files the blob under. The pgp crate is the model's abstract per-packet parser: the harness asks it about each "
            "single packet directly (signature? issuers, algorithm, which keys of the certificate accept it over the header) and the model must predict "
            "all three observations from its own framing + first-signature rule. Verdicts: vsig err = holds (the text restricts success only), vsig ok = judged by "
            "VerifySpec.successAllowed; flips/edits: parsed (header bytes, content) changed inside the header/payload regions => must not be ok; "
            "dontcare = edited bytes do not parse, nothing parsed changed, or the edit lies outside the header/payload regions. "
            "(e) since AUDIT2: forge02 — right key, DIFFERENT data: the same five library-signed packages, edited (quick: every 7th bit of the WHOLE main header, "
            "every 13th payload bit, 150 random multi-byte edits, structured index/store extensions, appended bytes per key; thorough: every bit, 3000 edits) and then "
            "FORGED: PAYLOADDIGEST, SHA256, SHA1, MD5 recomputed over the edited package, signatures kept, so verify_digests passes and only the real pgp::Verifier "
            "can refuse; harness and driver forge independently (compared through the FNV of the forged bytes); the model runs verifySignatureS with the verifier the "
            "SigScheme hypotheses describe for the signer's key (the original's signatures, each for exactly the data it was made for); parsed (header bytes, content) "
            "changed => must not be ok. sigpkts additionally: every composition as the binary under RPMSIGTAG_PGP over signatures made for header ++ payload (the real "
            "verifier ACCEPTS there), three DIFFERENT blobs under RSA / DSA / PGP (and every subset that keeps PGP) — other key, empty message, no signature packet, "
            "header-only signature under PGP, issuer listed twice — with signature_key_ids observed (last readable tag wins; error class and UnexpectedIssuerCount's "
            "field printed), a signature whose issuer is listed twice under every legacy tag. vsig additionally observes signature_key_ids() on every shape (the "
            "second, inline base64 decoder of package.rs meets every malformed text; one of the entry kinds is a real signature packet so that texts behind it are "
            "reached) and what echo_signature hands to a Debug logger (scope, length, printed slice), both predicted by the model (Sign.keyIds with the same table; "
            "verifySignatureSE).",
    "exhaustive": True,
    "shards": {"quick": 4, "thorough": 16},
    "shrink": False,
    "widen_thorough": False,
    "trusted_base": ["pgp crate (OpenPGP parsing, cryptographic verification, issuer extraction): behind the Verifying trait it is a PARAMETER of every "
                     "theorem (any verifier, even stateful); exercised with 5 real keys, not verified",
                     "pgp's Base64Decoder/Base64Reader: abstract parameter b64 of the model; its results are fed to the driver by the harness",
                     "sha2 / sha1 / md-5 crates: parameters (any functions); the tamper corollaries carry NoCollision for the two byte strings at hand",
                     "the header/package parser model of C01 and the digest model of C03 (reused)",
                     "Verifier::parse_signature: the pgp crate's packet parser is a PARAMETER (Bytes -> Option sig, one packet at a time); the framing and "
                     "the first-signature rule around it are modelled (Model/PgpFraming.lean) and proved for every parser"],
    "assumptions": COMMON_ASSUME + [
        "tamper_rejected holds under NoCollision sha256 (the two serialised headers / payloads at hand) OR Binds (the verifier accepts each signature "
        "of the good run only for the data it was accepted with there); both are explicit hypotheses of the theorems",
        "'a change that changes what is parsed' = the re-serialised main header bytes or the content of the parsed package differ from the "
        "original's; edits that only touch the lead, reserved intro bytes, signature-header padding or the signature header are outside the clause",
        "the driver cannot run OpenPGP: for modified signed packages it predicts err by the digest route (own SHA-256/MD5/SHA-1) and makes no "
        "prediction where only the signature header changed",
        "tamper_rejected_build_sign (bytes level): C06.Valid of the configuration, SigRecsOk, the scheme laws LegacyOk / Correct / Binds / B64, and NoCollision sha256 on "
        "the two payloads (needed only when the header bytes are unchanged: the signature covers the header, the header records the payload digest); the edit may be "
        "anything from the first byte of the main header on — lead and signature header are the signed file's",
        "echo_signature is evaluated only under a Debug logger; the slice bound is scraped (tools/gen/echo_prefix.py); a bound of another shape degrades the table",
        "rpm-rs's own Verifier::verify (key selection) is modelled as it is after fix c25de51 (data buffered once, every attempt over the whole "
        "data); the code before that commit is kept as pgpVerifierVerifyOld for the two negative witnesses only"],
    "level_text": "Theorems for EVERY Package value (any signature header: any entries, types, counts, duplicates), ANY verifier (including stateful "
                  "ones: verdict may depend on all earlier consults), ANY base64 decoder and ANY three hash functions: success => at least one consult, "
                  "all accepted, each over the serialised main header or (for the binary under RPMSIGTAG_PGP) header ++ payload, and verifyDigests = ok "
                  "(verify_ok_sound, verify_data_right, verify_log_faithful); a rejected consult is the last log entry and makes the result the "
                  "verifier's error (verify_first_reject); no panic (verify_total); empty OPENPGP array or no readable signature tag => error "
                  "without consulting (verify_no_sig_is_error); digest errors precede any consult (verify_digest_error_first); tampering with header "
                  "or payload of a verified package is rejected under NoCollision or Binds (tamper_rejected*, 5 theorems); the model's outcome always "
                  "passes the observer-level spec applied to the implementation (model_satisfies_spec). rpm-rs's own Verifier::verify: success => "
                  "a key selected by the signature's issuer ids (the primary key when there is none) cryptographically accepted the FULL data "
                  "(pgp_verifier_sound, full statement); old_verifier_*_witness: the code before c25de51 accepted a subkey signature over the "
                  "empty message for any data. Verifier::parse_signature (framing -> first packet the pgp parser returns as a signature; any parser, any blob): "
                  "NoSignatureFound exactly when the framing is broken or no packet parses (parse_none_iff); the result is the first parsable packet's "
                  "signature whatever follows (parse_some_iff, trailing_packets_ignored / trailing_bytes_ignored with trailing_packets_witness: bytes "
                  "behind the first signature packet are never parsed nor authenticated; trailing_garbage_refused: they must still be well framed); "
                  "leading non-signature packets are skipped silently (leading_packet_skipped); a one-packet blob yields its signature "
                  "(parse_of_single_packet, which reduces C10's IssuerOk hypothesis to single-packet facts: issuerOk_of_single_packet; "
                  "builderTag_of_single_packet for SignatureHeaderBuilder::build); success of Verifier::verify => the FIRST parsable packet's signature "
                  "was accepted by a selected key over the full data (pgp_verifier_sound_parsed), same verdict for blobs that agree up to that packet "
                  "(pgp_verifier_ignores_trailing), and the packet-level model equals the blob-level one at issuers := parseSignature.map issuers "
                  "(pgp_verifier_parsed_eq). With the echo_signature calls in place (verifySignatureSE: slice indexing explicit) result and log are the same and nothing panics; "
                  "the logger is handed length and first N bytes per consult (verify_echo_eq, echo_total, verify_total_echo). Bytes level (Props/C02Bytes.lean): "
                  "Header::write is injective on well-formed headers (writeHeader_injective); a file that agrees with a written package in front of the main header "
                  "parses to the same lead and signature header (parse_of_prefix); tamper_rejected_value / tamper_rejected_bytes: 'changes what is parsed' literally "
                  "(p' /= p), header route by Binds, payload route by the recorded payload digest; sign_with_timestamp installs the LibSigned shape (signOp_libSigned), "
                  "verify_signature on ANY package carrying such a signature header makes exactly one consult (verify_of_signedSig), C10's scheme-level Binds gives the "
                  "log-level Binds (binds_of_scheme); tamper_rejected_build_sign: for Pipeline.buildAndSign (any valid configuration, any scheme with C10's laws), any edit "
                  "of the written file behind the signature header that still parses to something else verifies with NO key; verify_ok_digests_spec: success => every record "
                  "of C03's DigestSpec.Recorded matches (verify_ok_sound composed with C03.digests_iff). "
                  "Model tied to the code by the recording-verifier differential run (result class + full consult log "
                  "compared) and by the real verifier on bit flips / edits of library-signed packages.",
    "level_note": "Trusted: Lean kernel; fidelity of the hand model as exercised; pgp crate, base64 decoder and hash crates are parameters / exercised.",
}
