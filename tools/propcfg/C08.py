from .common import COMMON_ASSUME

CFG = {
    "extra_props_modules": ["RpmVerif.Props.Pipeline"],
    "props_module": "RpmVerif.Props.C08",
    "required_theorems": ["RpmVerif.C08.writeAllH_hashed_eq_accepted", "RpmVerif.C08.runH_hashed_eq_accepted", "RpmVerif.C08.alt_digest",
                          "RpmVerif.C08.build_digests", "RpmVerif.C08.sig_header_sha256", "RpmVerif.C08.file_digests",
                          "RpmVerif.C08.sha_writer_write", "RpmVerif.C08.prepare_archive_hashed", "RpmVerif.C08.prepare_digests_spec",
                          "RpmVerif.C08.prepare_digests_total", "RpmVerif.C08.prepare_digests_none",
                          "RpmVerif.C08.file_digest_is_content_digest", "RpmVerif.C08.file_digests_of_contents",
                          "RpmVerif.C08.buildFilesC_fst", "RpmVerif.C08.insertFileC_keeps_entries",
                          "RpmVerif.C08.clear_header_digest_fresh", "RpmVerif.C08.sign_header_digest_fresh",
                          "RpmVerif.Pipeline.build_with_spec", "RpmVerif.Pipeline.build_with_digests",
                          "RpmVerif.Pipeline.built_item_digests", "RpmVerif.Pipeline.history_header_digest_fresh",
                          "RpmVerif.Pipeline.build_verifies_digests", "RpmVerif.Pipeline.build_payload_digest_ok",
                          "RpmVerif.Pipeline.build_reparse_verifies", "RpmVerif.Pipeline.build_offsets",
                          "RpmVerif.Pipeline.build_files_roundtrip", "RpmVerif.Pipeline.build_valid",
                          "RpmVerif.Pipeline.built_package_sound"],
    "trivial_branches": ["build-rejected"],
    "rule": "(a) rpm::Sha256Writer over scripted inner sinks (accept k bytes, Interrupted, hard failure, Ok(0); data submitted as 1..3 write_all calls): "
            "digest vs SHA-256 of the bytes the sink accepted; (b) real builds: every compressor × file sizes 0 / 1 / 4 KiB / 70 kB / 300 kB (3 MB in thorough, "
            "one 3 MB gzip case in quick) × compressible and incompressible content, plus C06-style random configurations: recorded PAYLOADDIGEST, "
            "PAYLOADDIGESTALT, signature-header SHA256 (also after clear_signatures) and per-file digests against digests recomputed with the sha2 crate over "
            "the written bytes, the payload decompressed with the codec crates directly, and the content iterated from the payload. The model PREDICTS "
            "PAYLOADDIGESTALT (the cpio Writer stacked on Sha256Writer stacked on an all-accepting sink, Model/ShaSink.lean, standard and large-file form, run on "
            "the regenerated contents; Lean SHA-256), RPMTAG_FILEDIGESTS text by text (fd=), PAYLOADDIGEST for c=none, and the header digest (sha256 of its own "
            "predicted header bytes); for the real codecs the payload digest is the harness' recomputation (only its place is predicted). Compression levels: EVERY "
            "level of the ranges scraped from compressor.rs on this run (zstd's negative range sampled); sizes 0 / 1 / 4 KiB / 32 KiB ± 1 / 64 KiB ± 1 / 70 kB / "
            "128 KiB ± 1 / 300 kB; lf=0 and lf at the combined size ± 1 (large-file switch through the hook). (c) sign08: Ed25519 / RSA-4096 / ECDSA-P256 through "
            "Package::sign, sign_with_timestamp and build_and_sign, on the package value build() returned and on the re-parsed one: all recorded digests predicted, "
            "verify_digests and verify_signature must accept, clear_signatures afterwards. (d) hist08: sign / clear / write + re-parse histories from ANY start "
            "package (the crate's assets, hand-assembled packages without digests, built packages with a stale header digest or a replaced payload): the recorded "
            "header digest after the history is predicted from Hdr.parsePackage + writeHeader, main header and payload bytes must be the start package's. "
            "(e) every shaw script is also run through the stacked model (HSink) and must agree with ShaW.runH. "
            "Non-trivial = build accepted / non-empty script; distinct = distinct requests.",
    "exhaustive": False,
    "shards": {"quick": 8, "thorough": 16},
    "shrink": False,
    "trusted_base": ["sha2 crate and the codec crates (used as the independent oracle in the harness); the Lean SHA-256 in Driver/Hash.lean (self-tested in C03)"],
    "assumptions": COMMON_ASSUME + ["hash functions are parameters of the theorems; 'true digest' means the digest function applied to the right bytes"],
    "level_text": "Theorems for ANY hash function and ANY behaviour of the inner writer (every response script: partial writes, Interrupted, failures): the bytes "
                  "Sha256Writer feeds to the hasher are exactly the bytes the inner writer accepted, so when all write_all calls succeed PAYLOADDIGESTALT is the "
                  "digest of the whole uncompressed archive (alt_digest; the pre-fix code is refuted by a concrete witness); build records the digest of the "
                  "serialised main header under RPMSIGTAG_SHA256 (also for the signature headers produced by sign / clear), the payload digest under "
                  "PAYLOADDIGEST and one digest per file in file order. Tied to the code by scripted-sink runs and by real builds checked against independent digests. "
                  "Pipeline theorems (Props/Pipeline.lean) compose this with the other layers at the package build returns, for every configuration, clock value, "
                  "archive, payload and hash function: it passes verify_digests (build_verifies_digests, no hypothesis), for valid configurations it re-parses to "
                  "itself and still passes (build_reparse_verifies), its offsets are the real boundaries (build_offsets), files() yields the builder's files in path "
                  "order with their contents (build_files_roundtrip), and one summary statement bundles these with the signing histories (built_package_sound). "
                  "WHICH bytes are hashed (Model/ShaSink.lean: payload::Writer over Sha256Writer over the compressor, the stack prepare_data builds; every compressor "
                  "behaviour = response script + failing flush, every finish_compression, every hash function): sha_writer_write (one write: same outcome and "
                  "compressor state as without the hashing layer, hasher fed exactly buf[..n]), prepare_archive_hashed (both loops + trailer: Ok or an I/O error, "
                  "never a panic; when Ok the hasher was fed exactly the cpio archive of the files — builderArchive / builderArchiveLarge — and the compressor "
                  "accepted exactly that), prepare_digests_spec (PAYLOADDIGESTALT = digest of that archive = the compressor's INPUT, PAYLOADDIGEST = digest of what "
                  "finish_compression returned after exactly that input), Pipeline.build_with_spec / build_with_digests (the package so built IS Bld.build at that "
                  "archive and payload, so every Pipeline theorem applies with archive := the cpio of the files). File digests: file_digest_is_content_digest (after "
                  "ANY sequence of with_file calls every map entry carries the digest and the length of the content stored IN THE SAME ENTRY — the bytes archived "
                  "under its path; keep-first or_insert: insertFileC_keeps_entries; the content-free projection is the builder state of the header theorems: "
                  "buildFilesC_fst), file_digests_of_contents, and end to end Pipeline.built_item_digests (every item (k, content) that files() yields from the built "
                  "package has FILEDIGESTS[k] = digest(content) and recorded size = |content|). After sign / clear from ANY start: clear_header_digest_fresh / "
                  "sign_header_digest_fresh (any package value, no hypothesis on it), Pipeline.history_header_digest_fresh (any parsed start package, any history that "
                  "begins with a sign or clear: no PayloadDigestOk, nothing about the start's own signature header).",
    "level_note": "Trusted: Lean kernel; sha2 / codec crates as oracle; model fidelity as exercised.",
}
