from .common import COMMON_ASSUME

CFG = {
    "extra_props_modules": ["RpmVerif.Props.Pipeline"],
    "props_module": "RpmVerif.Props.C08",
    "required_theorems": ["RpmVerif.C08.writeAllH_hashed_eq_accepted", "RpmVerif.C08.runH_hashed_eq_accepted", "RpmVerif.C08.alt_digest",
                          "RpmVerif.C08.build_digests", "RpmVerif.C08.sig_header_sha256", "RpmVerif.C08.file_digests",
                          "RpmVerif.Pipeline.build_verifies_digests", "RpmVerif.Pipeline.build_payload_digest_ok",
                          "RpmVerif.Pipeline.build_reparse_verifies", "RpmVerif.Pipeline.build_offsets",
                          "RpmVerif.Pipeline.build_files_roundtrip", "RpmVerif.Pipeline.build_valid",
                          "RpmVerif.Pipeline.built_package_sound"],
    "trivial_branches": ["build-rejected"],
    "rule": "(a) rpm::Sha256Writer over scripted inner sinks (accept k bytes, Interrupted, hard failure, Ok(0); data submitted as 1..3 write_all calls): "
            "digest vs SHA-256 of the bytes the sink accepted; (b) real builds: every compressor × file sizes 0 / 1 / 4 KiB / 70 kB / 300 kB (3 MB in thorough, "
            "one 3 MB gzip case in quick) × compressible and incompressible content, plus C06-style random configurations: recorded PAYLOADDIGEST, "
            "PAYLOADDIGESTALT, signature-header SHA256 (also after clear_signatures) and per-file digests against digests recomputed with the sha2 crate over "
            "the written bytes, the payload decompressed with the codec crates directly, and the content iterated from the payload. The model predicts the header "
            "digest (sha256 of its own predicted header bytes). Non-trivial = build accepted / non-empty script; distinct = distinct requests.",
    "exhaustive": False,
    "shards": {"quick": 8, "thorough": 16},
    "shrink": False,
    "trusted_base": ["sha2 crate and the codec crates (used as the independent oracle in the harness); the Lean SHA-256 in Driver/Hash.lean (self-tested in C03)"],
    "assumptions": COMMON_ASSUME + ["hash functions are parameters of the theorems; 'true digest' means the digest function applied to the right bytes"],
    "level_text": "Theorems for ANY hash function and ANY behaviour of the inner writer (every response script: partial writes, Interrupted, failures): the bytes "
                  "Sha256Writer feeds to the hasher are exactly the bytes the inner writer accepted, so when all write_all calls succeed PAYLOADDIGESTALT is the "
                  "digest of the whole uncompressed archive (alt_digest; the pre-fix code is refuted by a concrete witness); build records the digest of the "
                  "serialised main header under RPMSIGTAG_SHA256 (also for the signature headers produced by sign / clear), the payload digest under "
                  "PAYLOADDIGEST and one digest per file in file order. Tied to the code by scripted-sink runs and by real builds checked against independent digests. "
                  "Pipeline theorems (Props/Pipeline.lean) compose this with the other layers at the package build returns, for every configuration, clock value, "
                  "archive, payload and hash function: it passes verify_digests (build_verifies_digests, no hypothesis), for valid configurations it re-parses to "
                  "itself and still passes (build_reparse_verifies), its offsets are the real boundaries (build_offsets), files() yields the builder's files in path "
                  "order with their contents (build_files_roundtrip), and one summary statement bundles these with the signing histories (built_package_sound).",
    "level_note": "Trusted: Lean kernel; sha2 / codec crates as oracle; model fidelity as exercised.",
}
