from .common import COMMON_ASSUME

CFG = {
    "props_module": "RpmVerif.Props.C11",
    "required_theorems": ["RpmVerif.C11.build_deterministic", "RpmVerif.C11.build_bytes_deterministic", "RpmVerif.C11.buildtime_clamped",
                          "RpmVerif.C11.mtimes_clamped", "RpmVerif.C11.owners_order_independent", "RpmVerif.C11.sign_time_deterministic",
                          # AUDIT2 c35 - c37: signed builds, the signature's creation time, the archive, accessor-level mtimes
                          "RpmVerif.C11.clampNow_le", "RpmVerif.C11.build_sign_bytes_deterministic", "RpmVerif.C11.sigtime_clamped",
                          "RpmVerif.C11.archive_entries_spec", "RpmVerif.C11.archive_clock_free", "RpmVerif.C11.file_entry_mtimes_clamped"],
    "trivial_branches": ["build-rejected", "future-source-date"],
    "rule": "C06-style random configurations with a source date in the past of every clock used and 0..5 extra files owned by distinct non-root users / "
            "groups (the former HashSet order), file mtimes before and after the source date; every configuration is built 5 times in-process with "
            "different pinned clocks and in 2 (quick) / 4 (thorough) freshly started child processes (different RandomState seeds, TZ, LANG, environment, each in its own "
            "working directory), "
            "a quarter signed with Ed25519 and a few with RSA-4096 (deterministic schemes; ECDSA excluded); all package bytes are compared, the main "
            "header also with the model's byte-exact prediction; build time, max file mtime, the greatest c_mtime of the cpio archive and the signature creation time are read back - the latter from the legacy tag AND from every "
            "base64 item under RPMSIGTAG_OPENPGP (count, creation times, byte-equality of the two copies). "
            "Every eighth configuration is also run with a source date in the FUTURE of every clock (1 800 000 000, now + 900 000, u32::MAX; half of them signed): "
            "outside the reproducibility clause (the model predicts that every run differs, in the build time), judged for 'no timestamp later than the source date'. "
            "Non-trivial = build accepted with a source date in the past; distinct = distinct requests.",
    "exhaustive": False,
    "shards": {"quick": 8, "thorough": 16},
    "shrink": False,
    "trusted_base": ["'no other hidden input' is tested (repeated / cross-process builds), not proved", "pgp crate signing is deterministic for Ed25519 and RSA PKCS#1 v1.5"],
    "assumptions": COMMON_ASSUME + ["source date ≤ clock (the theorem's guard); a source date in the future is outside the property's reproducibility clause"],
    "level_text": "Theorems for EVERY configuration: with a source date not later than either clock reading, the main header and the whole unsigned package are "
                  "identical for both clocks (the clock enters only through clampNow); the signature timestamp is clamped identically; build time and every "
                  "recorded file mtime are ≤ the source date; the generated user()/group() dependencies are independent of the order in which owners are "
                  "encountered (sorted set). build_sign_bytes_deterministic: build_and_sign (two clock readings per run) returns the same package and writes the same bytes for every "
                  "signature scheme whose sign is a function of (key, data, time); sigtime_clamped: the signature header build_and_sign installs holds one signature - base64 under OPENPGP, raw under the "
                  "legacy tag - which is the sealed SignatureConfig Signer::sign assembles for the time clampNow(source date, clock), whose creation time read back from the packet is that time, <= source date for "
                  "EVERY clock (clampNow_le o C10 config_created_eq; also for a source date in the future); archive_clock_free + archive_entries_spec: with the archive = C09.archiveFor(configuration, uid, gid, files) and the payload = "
                  "any FUNCTION compress of it the whole written package is identical for both clocks, every cpio entry carrying only name, position as inode, mode, uid, gid (c_mtime = 0); "
                  "file_entry_mtimes_clamped: every modified_at that get_file_entries reports for the built package is <= source date. That the real build has no OTHER hidden input is what the correspondence tests: repeated in-process and "
                  "cross-process builds must be byte-identical and equal to the model's predicted header.",
    "level_note": "Trusted: Lean kernel; model fidelity as exercised; absence of further hidden inputs is tested, not proved.",
}
