from .common import COMMON_ASSUME

CFG = {
    "props_module": "RpmVerif.Props.C11",
    "required_theorems": ["RpmVerif.C11.build_deterministic", "RpmVerif.C11.build_bytes_deterministic", "RpmVerif.C11.buildtime_clamped",
                          "RpmVerif.C11.mtimes_clamped", "RpmVerif.C11.owners_order_independent", "RpmVerif.C11.sign_time_deterministic"],
    "trivial_branches": ["build-rejected", "future-source-date"],
    "rule": "C06-style random configurations with a source date in the past of every clock used and 0..5 extra files owned by distinct non-root users / "
            "groups (the former HashSet order), file mtimes before and after the source date; every configuration is built 5 times in-process with "
            "different pinned clocks and in 2 (quick) / 4 (thorough) freshly started child processes (different RandomState seeds, TZ, LANG, environment, each in its own "
            "working directory), "
            "a quarter signed with Ed25519 and a few with RSA-4096 (deterministic schemes; ECDSA excluded); all package bytes are compared, the main "
            "header also with the model's byte-exact prediction; build time, max file mtime and signature creation time are read back. "
            "Every eighth configuration is also run with a source date in the FUTURE of every clock (1 800 000 000, now + 900 000, u32::MAX; half of them signed): "
            "outside the reproducibility clause (the model predicts that every run differs, in the build time), judged for 'no timestamp later than the source date'. "
            "Non-trivial = build accepted with a source date in the past; distinct = distinct requests.",
    "exhaustive": False,
    "shards": {"quick": 8, "thorough": 16},
    "shrink": False,
    "trusted_base": ["'no other hidden input' is tested (repeated / cross-process builds), not proved", "pgp crate signing is deterministic for Ed25519 and RSA PKCS#1 v1.5"],
    "assumptions": COMMON_ASSUME + ["source date ≤ clock (the theorem's guard); a source date in the future is outside the property's reproducibility clause"],
    "level_text": "Theorems for EVERY configuration: with a source date not later than either clock reading, the main header and the whole unsigned package are "
                  "identical for both clocks (the clock enters only through clampNow); the signature timestamp is clamped identically; build time and every "
                  "recorded file mtime are ≤ the source date; the generated user()/group() dependencies are independent of the order in which owners are "
                  "encountered (sorted set). That the real build has no OTHER hidden input is what the correspondence tests: repeated in-process and "
                  "cross-process builds must be byte-identical and equal to the model's predicted header.",
    "level_note": "Trusted: Lean kernel; model fidelity as exercised; absence of further hidden inputs is tested, not proved.",
}
