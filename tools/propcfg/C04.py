from .common import COMMON_ASSUME

CFG = {
    "extra_props_modules": ["RpmVerif.Props.C04Readside", "RpmVerif.Props.C04Alloc"],
    "cleanup_globs": ["work/c04-mut-*.bin"],
    "props_module": "RpmVerif.Props.C04",
    "required_theorems": ["RpmVerif.C04.split_partition", "RpmVerif.C04.split_bounded", "RpmVerif.C04.split_witness", "RpmVerif.C04.split_declared", "RpmVerif.C04.parser_sees_only_slices", "RpmVerif.C04.parser_alloc_bound",
                          "RpmVerif.C04.parser_calls_prefix", "RpmVerif.C04.parser_calls_faithful", "RpmVerif.C04.parse_depends_on_slices", "RpmVerif.C04.parsePackage_total", "RpmVerif.C04.parseMetadata_total", "RpmVerif.C04.decode_total",
                          "RpmVerif.C04.accepted_count_bounded", "RpmVerif.C04.accepted_sizes_bounded", "RpmVerif.C04.getFileEntries_total",
                          "RpmVerif.C04.readside_total", "RpmVerif.C04.readerNew_total", "RpmVerif.C04.iterate_total", "RpmVerif.C04.keyIds_total", "RpmVerif.C04.oneIssuer_u32_overflow",
                          "RpmVerif.C04.iterator_no_runaway", "RpmVerif.C04.collectMem_total",
                          "RpmVerif.C04.reserve_arg_reading", "RpmVerif.C04.buf_grows_with_input", "RpmVerif.C04.size_rest_is_model", "RpmVerif.C04.reserve_le_remaining",
                          "RpmVerif.C04.decode_reserve_le", "RpmVerif.C04.reserved_le_input", "RpmVerif.C04.acct_of_accepted", "RpmVerif.C04.decode_kept_le",
                          "RpmVerif.C04.decode_kept_le_used", "RpmVerif.C04.kept_le_quadratic", "RpmVerif.C04.kept_le_linear", "RpmVerif.C04.accepted_kept_le_linear",
                          "RpmVerif.C04.live_le", "RpmVerif.C04.package_requests_le_input", "RpmVerif.C04.overlap_refused", "RpmVerif.C04.overlap_one_accepted",
                          "RpmVerif.C04.fromEntries_within_budget", "RpmVerif.C04.harness_limit_holds", "RpmVerif.C04.overlap_old_decoder_accepted"],
    "trivial_branches": [],
    "rule": "every case runs the whole read side (Package::parse, PackageMetadata::parse, all 40 accessors, the Display / Debug impls of Header, IndexEntry, IndexData, Lead and PackageMetadata on the parsed values (stage fmt, into a discarding sink), verify_digests, verify_signature with a "
            "rejecting verifier, signature_key_ids, files() iteration on uncompressed payloads) in a forked child with a panic hook, RLIMIT_AS = 3 GiB, "
            "a MEASURING allocator (largest single request, peak of the bytes alive together, cumulative bytes; per stage) whose numbers the driver judges against Spec/Alloc.lean "
            "(single <= 64 KiB + 64·len, alive <= 64 KiB + 128·len, cumulative <= 1 MiB + 1024·len) and compares with the model's allocation account of the same input "
            "(Hdr.parsePackageAcct: kept <= measured, measured peak of the parse stages <= 2 x account + 16 KiB), and a Debug-level logger installed; on uncompressed payloads files() is also "
            "drained past error items like collect() does and the number / classes / contents of the items are compared with the state-machine model "
            "(iter=<k>:<classes>:<fnv>; iter=runaway fails). Inputs: boundary-value products "
            "of intro fields (entries × store size) and of one index entry (type 0..10 × offset −1/0/len−1/len/len+1/i32 extremes × count 0/1/len/len+1/2^12/2^16/2^20/2^31/2^32−1, "
            "terminated and unterminated strings) in either header; hostile digest / signature tags; every truncation of two builder-made packages; "
            "single-byte mutations (3 values per position; every 3rd position in quick); hostile cpio headers (name length 0/4096/4097/2^32−1/bad hex, "
            "sizes beyond the archive, stripped magic with indexes 0/1/2/2^31−1/2^32−1); seeded structure-aware damage; thorough adds mutated assets. "
            "Signature blobs made of SEVERAL packets around real signatures of the 5 test keys (junk / garbage in a signature frame / second signature / "
            "trailing packets or unframed bytes / every length format, ~240 blobs): the framing through the hook (pgpframes) and a package carrying the blob "
            "under RSA / DSA / PGP / OPENPGP through the whole allocation-counted read side. "
            "Since AUDIT2 follow-up 1: stage sigreal = verify_signature with a REAL pgp::Verifier (the Ed25519 test key, loaded before the fork) on every case next to the rejecting one; "
            "a third base package BUILT AND SIGNED by the library (build_and_sign, Ed25519; digests + OPENPGP + legacy tag in the signature header) for every truncation and the "
            "single-byte mutations in quick; op hostsrc04: every truncation of the three base packages (and every 12th mutated signed package) once more in the child through the other source kinds / "
            "entry points — Package::parse on an io::Cursor, Package::open(&Path) and (&str) on a file (default BufReader<File>), Package::parse over BufReader::with_capacity(16, File), "
            "PackageMetadata::open — predicted by Io.parseChunked / Io.parseMetadataC under the corresponding chunk scripts; a source kind accepting what another rejects fails (source-kinds-differ). "
            "Op alloc04 (packages of 10^3..10^6 bytes built from seven numbers on both sides): counts 2^12 / 2^16 (thorough: 2^20) on every entry type over stores that are "
            "empty / short / one element short / exactly long enough, 2^16 empty strings, 4096 index entries, and the OVERLAP family (N entries pointing at the same S store bytes, "
            "BIN / INT32 / STRING_ARRAY, in either header; up to N x S = 4 MiB from 16.5 KB before parse_header had its byte budget — now refused, parse=err on both sides, "
            "and beyond the limits again if the budget check is lost). "
            "Non-trivial: all; distinct = distinct request lines.",
    "exhaustive": False,
    "shards": {"quick": 8, "thorough": 16},
    "shrink": False,
    "trusted_base": ["dependencies (pgp packet parser, decompressors, nom) are exercised, not modelled",
                     "memory is MEASURED by a counting allocator in the harness and judged against the limits of Spec/Alloc.lean (a reading of 'in proportion': the property gives no number); "
                     "the theorems bound what the model's account of Header::parse requests (reserve_exact argument and buffer initialiser scraped from the source, sizes of String / IndexEntry of a 64-bit target assumed)",
                     "allocations of the pgp crate, the decompressors, the accessors and the Display / Debug impls are measured, not modelled"],
    "assumptions": COMMON_ASSUME + ["panic-freedom of dependencies is outside the model (the harness reports any crash with its input)",
                                    "keyIds_total / readside_total: SigScheme.IssuerSmall — the OpenPGP layer never reports 2^32 or more issuers for one signature "
                                    "(the count goes through usize -> u32 with an unwrap, package.rs:309, 352; oneIssuer_u32_overflow shows the panic branch of the model)"],
    "level_text": "Theorems for EVERY byte string: parsing a package or metadata never reaches a panic outcome (the model makes each partial Rust operation an "
                  "explicit panic and proves it unreachable, incl. Lead::parse's unwrap), decoding never panics for any type/offset/count, every accepted entry's "
                  "count is bounded by the store length and index + store fit inside the input, and no accessor (incl. the unreachable!() arms of the list "
                  "accessors and get_file_entries) can panic. The tie and the parts outside the model (dependencies, allocator behaviour, cpio reader, signature "
                  "code) are exercised by running the real read side on hostile inputs in a child process. Signature blobs: the OpenPGP packets handed to the pgp crate's parser are a partition of the blob, so no declared length exceeds it (split_partition, split_bounded, for every blob; the 104 MB witness of the old code is split_witness); each packet's own header declares exactly the packet's length (split_declared); for ANY packet parser, every byte string parse_signature hands to it is a non-empty contiguous slice of the blob whose declared length is its real length <= the blob (parser_sees_only_slices), all calls together are at most the blob (parser_alloc_bound), the calls are a prefix of the packet list ending at the first signature (parser_calls_prefix, parser_calls_faithful), and the result depends on the parser only through its answers on such slices (parse_depends_on_slices); model tied through the guarded hook pgp_split_packets and, for the first-signature rule, C02's sigpkts correspondence. The correspondence also drains files() past errors (iterator must end). Memory as statements (Props/C04Alloc.lean, Header::parse as an allocation account that also covers REJECTED inputs; the argument of reserve_exact and the initial capacity of the read buffer are scraped from header.rs, tools/gen/alloc_sites.py): reserve_arg_reading (the argument is min(count, bytes left), no overflow in the widths of the code), buf_grows_with_input (Vec::new + take(size_rest).read_to_end), reserved_le_input (EVERY byte string: nothing sized up front, buffer <= input, every reservation <= 8 bytes per store byte, at most one per entry, largest single request <= 8 x input), package_requests_le_input (the same for both headers of Package::parse), acct_of_accepted, decode_kept_le (<= 24 bytes kept per store byte per entry), decode_kept_le_used (what an entry keeps <= 24 x the store bytes parse_header CHARGES it against its budget of the data section's length), kept_le_linear (EVERY byte string, accepted or rejected half way: decoded data alive at the end of parse_header <= 48 x data section <= 48 x input), accepted_kept_le_linear (an accepted header keeps <= 24 bytes per byte of its data section), live_le (everything alive at the end of parse_header <= 61 x input, inside the limit of Spec/Alloc.lean), harness_limit_holds (the limit the differential run applies holds of every accepted header), kept_le_quadratic (the older 24 x entries x store bound, sharper for one or two entries). Overlapping entries: overlap_refused (N >= 2 entries over the same S >= 1 store bytes are rejected, class overlap; the instance replayed on the real code is alloc04 h 512 8192 7 0 8192 0), overlap_one_accepted (the budget is tight: the single entry is accepted), Hdr.parseHeader_write_overlap (ANY header whose entries are charged more than its data section is refused), fromEntries_within_budget (headers written by from_entries never are: the builder lays data out without overlap, and what Header::write emits for them parses back), overlap_old_decoder_accepted (a copy of the loop before the fix accepts the family and keeps N x S bytes — what the budget is for). No runaway is now a theorem: iterator_no_runaway — for EVERY behaviour of the payload stream (any decompressor state, any position after an error) a files() iterator over n header files hands out at most n items, collect() ends within n + 1 calls and the iterator is fused from then on (FileIterator::next as a state machine, Model/FileIter.lean); collectMem_total: the items after an error are values or errors too. The drained iteration of uncompressed payloads is predicted exactly (iter=<items>:<Ok/Err classes>:<hash>) from the accessor model's file list and the in-memory stream positions every error path leaves.",
    "level_note": "Trusted: Lean kernel; model fidelity as exercised (parse ok/err class compared on every case); verify_digests / verify_signature / cpio totality "
                  "are proved in C03 / C02 / C07's models; dependencies are exercised only.",
}
