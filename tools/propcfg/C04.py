from .common import COMMON_ASSUME

CFG = {
    "extra_props_modules": ["RpmVerif.Props.C04Readside"],
    "cleanup_globs": ["work/c04-mut-*.bin"],
    "props_module": "RpmVerif.Props.C04",
    "required_theorems": ["RpmVerif.C04.split_partition", "RpmVerif.C04.split_bounded", "RpmVerif.C04.split_witness", "RpmVerif.C04.split_declared", "RpmVerif.C04.parser_sees_only_slices", "RpmVerif.C04.parser_alloc_bound",
                          "RpmVerif.C04.parser_calls_prefix", "RpmVerif.C04.parser_calls_faithful", "RpmVerif.C04.parse_depends_on_slices", "RpmVerif.C04.parsePackage_total", "RpmVerif.C04.parseMetadata_total", "RpmVerif.C04.decode_total",
                          "RpmVerif.C04.accepted_count_bounded", "RpmVerif.C04.accepted_sizes_bounded", "RpmVerif.C04.getFileEntries_total",
                          "RpmVerif.C04.readside_total", "RpmVerif.C04.readerNew_total", "RpmVerif.C04.iterate_total", "RpmVerif.C04.keyIds_total", "RpmVerif.C04.oneIssuer_u32_overflow",
                          "RpmVerif.C04.iterator_no_runaway", "RpmVerif.C04.collectMem_total"],
    "trivial_branches": [],
    "rule": "every case runs the whole read side (Package::parse, PackageMetadata::parse, all 40 accessors, the Display / Debug impls of Header, IndexEntry, IndexData, Lead and PackageMetadata on the parsed values (stage fmt, into a discarding sink), verify_digests, verify_signature with a "
            "rejecting verifier, signature_key_ids, files() iteration on uncompressed payloads) in a forked child with a panic hook, RLIMIT_AS = 3 GiB, "
            "a counting allocator flagging any single request above 64 MiB + 16·len, and a Debug-level logger installed; on uncompressed payloads files() is also "
            "drained past error items like collect() does and the number / classes / contents of the items are compared with the state-machine model "
            "(iter=<k>:<classes>:<fnv>; iter=runaway fails). Inputs: boundary-value products "
            "of intro fields (entries × store size) and of one index entry (type 0..10 × offset −1/0/len−1/len/len+1/i32 extremes × count 0/1/len/len+1/2^31/2^32−1, "
            "terminated and unterminated strings) in either header; hostile digest / signature tags; every truncation of two builder-made packages; "
            "single-byte mutations (3 values per position; every 3rd position in quick); hostile cpio headers (name length 0/4096/4097/2^32−1/bad hex, "
            "sizes beyond the archive, stripped magic with indexes 0/1/2/2^31−1/2^32−1); seeded structure-aware damage; thorough adds mutated assets. "
            "Signature blobs made of SEVERAL packets around real signatures of the 5 test keys (junk / garbage in a signature frame / second signature / "
            "trailing packets or unframed bytes / every length format, ~240 blobs): the framing through the hook (pgpframes) and a package carrying the blob "
            "under RSA / DSA / PGP / OPENPGP through the whole allocation-counted read side. "
            "Non-trivial: all; distinct = distinct request lines.",
    "exhaustive": False,
    "shards": {"quick": 8, "thorough": 16},
    "shrink": False,
    "trusted_base": ["dependencies (pgp packet parser, decompressors, nom) are exercised, not modelled",
                     "the allocation bound is measured by a counting allocator in the harness; the theorem bounds accepted counts and sizes by the input length"],
    "assumptions": COMMON_ASSUME + ["panic-freedom of dependencies is outside the model (the harness reports any crash with its input)",
                                    "keyIds_total / readside_total: SigScheme.IssuerSmall — the OpenPGP layer never reports 2^32 or more issuers for one signature "
                                    "(the count goes through usize -> u32 with an unwrap, package.rs:309, 352; oneIssuer_u32_overflow shows the panic branch of the model)"],
    "level_text": "Theorems for EVERY byte string: parsing a package or metadata never reaches a panic outcome (the model makes each partial Rust operation an "
                  "explicit panic and proves it unreachable, incl. Lead::parse's unwrap), decoding never panics for any type/offset/count, every accepted entry's "
                  "count is bounded by the store length and index + store fit inside the input, and no accessor (incl. the unreachable!() arms of the list "
                  "accessors and get_file_entries) can panic. The tie and the parts outside the model (dependencies, allocator behaviour, cpio reader, signature "
                  "code) are exercised by running the real read side on hostile inputs in a child process. Signature blobs: the OpenPGP packets handed to the pgp crate's parser are a partition of the blob, so no declared length exceeds it (split_partition, split_bounded, for every blob; the 104 MB witness of the old code is split_witness); each packet's own header declares exactly the packet's length (split_declared); for ANY packet parser, every byte string parse_signature hands to it is a non-empty contiguous slice of the blob whose declared length is its real length <= the blob (parser_sees_only_slices), all calls together are at most the blob (parser_alloc_bound), the calls are a prefix of the packet list ending at the first signature (parser_calls_prefix, parser_calls_faithful), and the result depends on the parser only through its answers on such slices (parse_depends_on_slices); model tied through the guarded hook pgp_split_packets and, for the first-signature rule, C02's sigpkts correspondence. The correspondence also drains files() past errors (iterator must end) and limits every single allocation to 4 MiB + 16 * input length. The correspondence also drains files() past errors (iterator must end) and limits every single allocation to 4 MiB + 16 * input length. No runaway is now a theorem: iterator_no_runaway — for EVERY behaviour of the payload stream (any decompressor state, any position after an error) a files() iterator over n header files hands out at most n items, collect() ends within n + 1 calls and the iterator is fused from then on (FileIterator::next as a state machine, Model/FileIter.lean); collectMem_total: the items after an error are values or errors too. The drained iteration of uncompressed payloads is predicted exactly (iter=<items>:<Ok/Err classes>:<hash>) from the accessor model's file list and the in-memory stream positions every error path leaves.",
    "level_note": "Trusted: Lean kernel; model fidelity as exercised (parse ok/err class compared on every case); verify_digests / verify_signature / cpio totality "
                  "are proved in C03 / C02 / C07's models; dependencies are exercised only.",
}
