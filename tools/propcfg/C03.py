from .common import COMMON_ASSUME

CFG = {
    "props_module": "RpmVerif.Props.C03",
    "required_theorems": ["RpmVerif.C03.digest_tags_standard", "RpmVerif.C03.digests_iff", "RpmVerif.C03.digests_first_failure", "RpmVerif.C03.digests_mismatch",
                          "RpmVerif.C03.digests_unsupported", "RpmVerif.C03.digests_unsupported_class", "RpmVerif.C03.digests_total",
                          "RpmVerif.C03.model_satisfies_spec", "RpmVerif.C03.raw_ranges", "RpmVerif.C03.recomputeRaw_eq"],
    "trivial_branches": ["parse-err-eof", "parse-err-magic", "parse-err-version", "parse-err-tagtype", "parse-err-offset",
                         "parse-err-short-bin", "parse-err-unterminated", "hash-selftest"],
    "rule": "hand-encoded packages (pkggen: random lead/other entries, reserved bytes, padding, store slack, 0..40 payload bytes) with "
            "the true MD5/SHA-1/SHA-256 computed by the harness: the full product {absent, correct, wrong}^4 for MD5 (BIN), SHA1, SHA256 "
            "(STRING), PAYLOADDIGEST (STRING_ARRAY) x PAYLOADDIGESTALGO in {absent, 1, 8, 9, 10, 11, 12, 14, 0, 2, 99, 2^32-1}; every variant of "
            "every slot (bit flip, one hex digit changed, upper case, truncated, one longer, empty, blank/0x prefix, every wrong data type, "
            "duplicates with the right entry in first / middle / last position, empty digest array, empty algorithm array, two-element arrays "
            "first-wrong/second-right and vice versa, I18N-typed digest) against random states of the other slots; fully random slot choices; "
            "the asset and fixture packages of /repo and three packages produced by the real builder (none/gzip/zstd); single-bit flips: all "
            "bits of one hand-encoded fully-recorded package, seeded positions in lead / signature header / header / payload of the smallest "
            "real package (quick ~2000; thorough: all bits of both headers, every 8th elsewhere), seeded (quick) or every 64th (thorough) bit of "
            "the largest asset, seeded bits of the built packages; op digmem03: verify_digests() on the UN-REPARSED Package value that build() / build_and_sign(Ed25519) returned "
            "(3 configurations each; never written, never parsed), as it is and with one bit of `content` flipped in memory (first, last, seeded bits), predicted from the bytes the value writes (\"same as parse\"); plus the driver's own MD5/SHA-1/SHA-256 against fixed hashlib vectors and "
            "against the Rust crates on every length 0..150 (thorough 0..600). Non-trivial = the bytes parse as a package; distinct = distinct "
            "request lines. Verdicts: dontcare = rejected by the parser or inside the spec's don't-care region (wrong data type, digest without "
            "algorithm or vice versa, empty digest array, duplicated digest tags).",
    "exhaustive": True,
    "shards": {"quick": 4, "thorough": 16},
    "shrink": False,
    "widen_thorough": False,
    "trusted_base": ["md-5 / sha1 / sha2 crates: parameters of every theorem (any three functions); exercised against the driver's own "
                     "Lean implementations (fixed hashlib vectors + differential run), not verified",
                     "hex::encode = lower-case hex (modelled, exercised)",
                     "the header/package parser model of C01 (Recorded is read off its parse result)"],
    "assumptions": COMMON_ASSUME + [
        "reading of 'records in its standard tags': first index entry with the tag, of the tag's standard data type; payload digest = first "
        "string of PAYLOADDIGEST under the first number of PAYLOADDIGESTALGO; recorded hex text is compared as text (upper case differs)",
        "'recomputed from the package's own bytes' = the main header region with its four reserved intro bytes zeroed (what rpm hashes) and "
        "everything after it (theorem raw_ranges ties this to the re-serialised header of the model)"],
    "level_text": "Theorems for EVERY Package value and ANY three hash functions: verifyDigests = ok <-> every recorded digest is of a supported "
                  "algorithm and equals its recomputation (digests_iff); the first record in the order md5, sha1, sha256, payload that is not fine "
                  "decides the result and its class (digests_first_failure); any supported recorded digest that differs gives exactly the mismatch "
                  "error (digests_mismatch); a payload digest under any algorithm number other than Sha2_256's gives an error, never success or panic "
                  "(digests_unsupported, _class); no panic (digests_total); the outcome is always accepted by the spec's verdict function "
                  "(model_satisfies_spec); for parsed packages the hashed strings are the package's own header region (canonical) and payload bytes "
                  "(raw_ranges). Model tied to the code by a differential run in which the driver recomputes every digest with its own MD5/SHA-1/SHA-256.",
    "level_note": "Trusted: Lean kernel; fidelity of the hand model as exercised (observation classes compared on every case); hash crates and "
                  "hex::encode are parameters / exercised; the generated DigestAlgorithm table.",
}
