from .common import COMMON_ASSUME

CFG = {
    "props_module": "RpmVerif.Props.C18",
    "required_theorems": ["RpmVerif.C18.consts_ok", "RpmVerif.C18.u16_parts", "RpmVerif.C18.u16_recombine",
                          "RpmVerif.C18.u16_roundtrip", "RpmVerif.C18.u16_classify",
                          "RpmVerif.C18.i32_out_of_range", "RpmVerif.C18.i32_in_range", "RpmVerif.C18.i32_roundtrip",
                          "RpmVerif.C18.i32_invalid_iff", "RpmVerif.C18.ctor_masks", "RpmVerif.C18.ctor_raw",
                          "RpmVerif.C18.ctor_roundtrip", "RpmVerif.C18.spec_word", "RpmVerif.C18.spec_int",
                          "RpmVerif.C18.spec_ctor", "RpmVerif.C18.ctor_field", "RpmVerif.C18.u16_field", "RpmVerif.C18.u16_reconverted",
                          "RpmVerif.C18.i32_reconverted_iff", "RpmVerif.C18.reconverted_eq_iff", "RpmVerif.C18.built_canonical",
                          "RpmVerif.C18.derivedEq_iff", "RpmVerif.C18.hashFeed_inj", "RpmVerif.C18.observe_eqHashOk"],
    "trivial_branches": [],
    "rule": "complete enumeration: every 16-bit word through From<u16> and through each of the three named constructors "
            "(4 x 65 536 cases); for i32 every integer of [-70 000, 70 000], every +-2^k and +-2^k+-1, the ends of i32 and 10^5 seeded "
            "random values (half uniform over i32, half near the 16-bit range) (quick); thorough adds 10^6 random values, a stride-2^11 "
            "sweep of i32 (2^21 values) and ALL 2^32 integers in 65 536 blocks of 65 536 whose per-value observations are compared "
            "through a 64-bit digest computed on both sides (plus the count of values reported invalid and the first one that was not); "
            "every observation includes the variant's public `permissions` field (read by pattern matching), FileMode::from(m.raw_mode()) == m and "
            "the equality of the two hashes; every case is non-trivial; distinct = distinct request lines",
    "exhaustive": True,
    "shards": {"quick": 4, "thorough": 16},
    "shrink": False,   # arguments are decimal numbers, each failing case already is a minimal concrete input
    "trusted_base": ["64-bit digest (xor-multiply-shift over the packed observations) standing in for 65 536 observations per block in the thorough sweep"],
    "assumptions": COMMON_ASSUME + ["the `reason` TEXT of FileMode::Invalid / Error::InvalidFileMode is not part of the property; only which of the two reasons a value "
                                    "carries is observed (by comparison with reference values), because it enters the derived == and Hash",
                                    "hash equality is observed with std's DefaultHasher (fixed keys); the model predicts 'different' for different values, i.e. assumes no collision"],
    "level_text": "Theorems for all 16-bit words (bit-level, no enumeration) and all integers: raw_mode/u16::from/u32::from give the word back, "
                  "file_type | permissions = word (and they are exactly the masked parts), Dir/Regular/SymbolicLink iff the type bits are "
                  "0o040000/0o100000/0o120000, integers above 65535 or below -32768 become Invalid (an error from try_from_raw), integers in "
                  "between behave as the u16 conversion of n mod 2^16, the constructors mask to 0o7777 — in the public variant field too, not only behind the getters — and agree with the conversion; "
                  "FileMode::from(m.raw_mode()) == m exactly for the canonical values (everything the conversions and constructors build except an out-of-range integer), "
                  "the derived == is equality of values and Hash agrees with it. "
                  "The model is tied to the code by complete enumeration of the u16 domain and (thorough) of the i32 domain.",
    "level_note": "Trusted: Lean kernel; fidelity of the hand model as exercised by the (complete) correspondence; mask constants are regenerated "
                  "from src/rpm/headers/types.rs on every run and pinned to the property's numbers by consts_ok.",
}
