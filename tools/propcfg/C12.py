from .common import COMMON_ASSUME

CFG = {
    "props_module": "RpmVerif.Props.C12",
    "required_theorems": ["RpmVerif.C12.extract_hostile", "RpmVerif.C12.extract_hostile_wf", "RpmVerif.C12.extract_benign",
                          "RpmVerif.C12.extract_faithful", "RpmVerif.C12.extract_total", "RpmVerif.C12.extract_log_sound",
                          "RpmVerif.C12.regress_dotdot", "RpmVerif.C12.regress_symlink", "RpmVerif.C12.regress_symlink_chmod",
                          "RpmVerif.C12.regress_symlink_same", "RpmVerif.C12.regress_special_type",
                          # the package view `PkgFiles.extractInput` is the composition of the proved read-side models
                          "RpmVerif.C12.input_files_failed", "RpmVerif.C12.input_of_files", "RpmVerif.C12.input_items_are_iteration",
                          "RpmVerif.C12.input_index_in_range", "RpmVerif.C12.input_item_designated", "RpmVerif.C12.input_digests_standard",
                          "RpmVerif.C12.compressor_tables_agree", "RpmVerif.C12.default_compressor_is_identity", "RpmVerif.C12.compressor_names_ascii",
                          "RpmVerif.C12.payload_compressor_bridge", "RpmVerif.C12.extract_package_hostile",
                          "RpmVerif.C12.extract_package_total", "RpmVerif.C12.digest_table_decides",
                          "RpmVerif.C12.digest_algo_fallbacks"],
    "trivial_branches": ["parse-err"],
    "rule": "every case = one package extracted by the real Package::extract inside a chroot jail with decoys outside /target "
            "(snapshot of the whole jail before/after). Builder-made packages are ALSO extracted as the un-reparsed Package value build() returned (op extractmem12: the value is rebuilt "
            "from a file spec in the request, checked to write exactly the package bytes the driver sees, and extracted without ever being written or parsed; all fixed builder cases, every compressor, every "
            "third seeded benign one; one with the destination spelled relatively). Hand-encoded packages come in two archive forms, since files() looks the header file up per "
            "entry (fix 3cfa908): stripped entries (07070X + file index: entry i belongs to header file i whatever the paths, duplicates included) and "
            "newc entries named after the header path; every family is run in both. Cases: the corpus witnesses, ~75 hand-encoded hostile packages covering every family of the "
            "quantifier text ('..' in directory and base names, absolute/empty/relative names, duplicate paths in all type combinations, a link followed "
            "by a file/dir/link at or below it, link loops/chains/dangling links, FIFO/char/block/socket modes, bad dir indexes, missing tags, truncated "
            "payloads, unknown compressor), file digests under every RPMTAG_FILEDIGESTALGO (the five supported algorithms with the right and the neighbouring "
            "wrong hex lengths - SHA-224: 56 read, 60 refused -, numbers that are no algorithm such as 2 = SHA-1, SHA-3 numbers, a tag of the wrong type, "
            "lengths counted in bytes), compressor names next to the accepted ones, the cpio name-size limit (4096 read, 4097 refused), destination variants (exists, no parent, nested, is a link), builder-made packages (all 12 permission bits on "
            "files and directories, setgid inheritance, files under '/', nested and explicit directories, links, gzip / zstd / xz / bzip2 payloads, the empty package, "
            "hostile destinations the builder accepts), then seeded random builder-made benign packages and seeded random hand-encoded hostile packages. "
            "Non-trivial = the package parses; distinct = distinct request lines.",
    "exhaustive": False,
    "shards": {"quick": 1, "thorough": 4},
    "shrink": False,
    "no_widen": True,
    "trusted_base": ["POSIX/Linux semantics of mkdir, open(O_CREAT|O_TRUNC), chmod, lstat, unlink, symlink and of the kernel's path walk (modelled in Model/Fs.lean; "
                     "validated by the jail snapshots, not proved)",
                     "std: fs::create_dir_all (recursive formulation), Path::join / strip_prefix / components (modelled; validated by the correspondence)",
                     "the extraction runs as root with umask 022 (permission bits never make a call fail); names < 256 bytes, paths < 4096 bytes",
                     "Model/PkgFiles.lean decodes the package for the driver: no code of its own but the composition of Acc.getFileEntries (C04/C05/C06), "
                     "Acc.getPayloadCompressorVariant and Cpio.iterate (C07) over the tables scraped from the source (file digest lengths, cpio constants, "
                     "compressor names, default / identity compressor variant) - stated by the input_* theorems; exercised on every case"],
    "assumptions": COMMON_ASSUME + ["kernel path resolution is modelled, not verified (DESIGN §6 C12: partial by nature)"],
    "level_text": "Theorems for all package views, destinations and file systems of any size, about the code after the fix 44c69bc: "
                  "(extract_hostile) for EVERY package view - '..' components, absolute/empty names, duplicates, links followed by entries at or below "
                  "them, special file types, errors in the middle - extraction into a clean destination never panics, ends ok or err, and creates, modifies "
                  "or removes nothing outside the destination, every logged path being below it (extract_hostile_wf: the same for any tree-shaped file system "
                  "with no assumption on the destination); (extract_benign) a benign (built) package extracted into a vacant destination ends ok, is contained "
                  "and leaves every directory / file / link entry at destination+path with exactly its permission bits, content and link target; "
                  "(extract_total) no run panics; (extract_log_sound) the model's log accounts for every change. The views are tied to packages: "
                  "(input_of_files, input_files_failed, input_items_are_iteration, input_index_in_range) what extract reads from a package is get_file_entries, "
                  "get_payload_compressor and the cpio iteration of the C05 / C07 models composed as Package::extract composes them, the items being exactly the Ok prefix "
                  "of the iteration under the metadata of the header file each entry designates (input_item_designated: C07 pairing_by_name "
                  "carried over); (input_digests_standard, digest_table_decides, digest_algo_fallbacks) files are handed to extract only if every non-empty file digest has "
                  "a hex length the source's own table pairs with the algorithm (SHA-224: 56; that these are the real digest sizes is C05 file_digest_lengths_standard); (payload_compressor_bridge) the compressor "
                  "variant is the one whose name the C05 accessor answers; (extract_package_hostile, extract_package_total) the hostile clause and totality for every package. The former counterexamples are regression "
                  "theorems (regress_*) and corpus cases replayed on the real code in a chroot jail. The FS model is tied to the code by the differential run: "
                  "status, the set of paths changed outside the destination and the full listing of the destination tree must be textually equal.",
    "level_note": "Trusted: Lean kernel; the modelled POSIX / std semantics (validated by the jail snapshots on every case); the package decoder is the composition of the C05 / C07 models (Model/PkgFiles.lean, input_* theorems) over generated tables. "
                  "A regression of the fix is reported as fails:dotdot-escape / symlink-follow-escape / special-type-panic / unfaithful with a replay.",
}
