#!/bin/sh
# confirm_seed.sh <property> <n> : confirm a seeded change from /tmp/seed/out/<property>/<n> in a scratch worktree:
#   it applies, compiles, the existing suite passes with it, the demo fails with it and passes without it.
# On success the change is stored as /verif/seeded/<property>-<n>/ (patch.diff, demo.rs, meta.json + confirm.txt).
set -u
P=$1; N=$2
SRC=/tmp/seed/out/$P/$N
WT=/tmp/confirm-wt${SEED_TAG:-}
LOG=/tmp/confirm-$P-$N.log
export CARGO_NET_OFFLINE=true
[ -n "${SEED_RUSTFLAGS:-}" ] && export RUSTFLAGS="$SEED_RUSTFLAGS"
[ -d $WT ] || git -C /repo worktree add -q --detach $WT HEAD
cd $WT && git checkout -- . && git clean -fdq tests/ && git checkout -q --detach $(git -C /repo rev-parse HEAD)
: > $LOG
say() { echo "$*" | tee -a $LOG; }
cp $SRC/demo.rs tests/seed_demo.rs
# demo must pass on clean code
if ! cargo test --offline --test seed_demo >>$LOG 2>&1; then say "REJECT $P/$N: demo fails on the clean tree"; rm -f tests/seed_demo.rs; exit 1; fi
if ! git apply $SRC/patch.diff >>$LOG 2>&1; then say "REJECT $P/$N: patch does not apply"; git checkout -- .; rm -f tests/seed_demo.rs; exit 1; fi
# demo must fail with the change
if cargo test --offline --test seed_demo >>$LOG 2>&1; then say "REJECT $P/$N: demo passes with the change"; git checkout -- .; rm -f tests/seed_demo.rs; exit 1; fi
rm -f tests/seed_demo.rs
# existing suite must pass with the change
if ! cargo test --workspace --no-fail-fast --offline >>$LOG 2>&1; then say "REJECT $P/$N: existing suite fails with the change"; git checkout -- .; exit 1; fi
git checkout -- .
D=/verif/seeded/$P-$N
mkdir -p $D
cp $SRC/patch.diff $SRC/demo.rs $SRC/meta.json $D/
{
  echo "confirmed $(date -u +%FT%TZ) against /repo $(git -C /repo rev-parse --short HEAD) in a scratch worktree:"
  echo "  cargo test --offline --test seed_demo   (clean tree)      -> pass"
  echo "  git apply patch.diff; cargo test --offline --test seed_demo -> FAIL (as required)"
  echo "  cargo test --workspace --no-fail-fast --offline (with the change) -> all pass"
} > $D/confirm.txt
say "CONFIRMED $P/$N"
