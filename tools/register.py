#!/usr/bin/env python3
"""register.py Cxx — add the dispatch lines for a property to lean/Main.lean and harness/src/main.rs (idempotent)."""
import re, sys, os
V = os.path.join(os.path.dirname(os.path.abspath(__file__)), "..")
pid = sys.argv[1]; low = pid.lower()
p = os.path.join(V, "lean/Main.lean"); s = open(p).read()
if f"import RpmVerif.Driver.{pid}\n" not in s:
    s = re.sub(r"((?:import RpmVerif\.Driver\.C\d+\n)+)", lambda m: m.group(1) + f"import RpmVerif.Driver.{pid}\n", s, count=1)
    s = re.sub(r"(  \(C\d+\.ops, C\d+\.handle\))\n\]", lambda m: m.group(1) + f",\n  ({pid}.ops, {pid}.handle)\n]", s, count=1)
    open(p, "w").write(s)
p = os.path.join(V, "harness/src/main.rs"); s = open(p).read()
if f"mod {low};" not in s:
    s = s.replace("mod c13;", f"mod c13;\nmod {low};", 1)
    s = s.replace("            .or_else(|| c13::eval(op, a))", f"            .or_else(|| c13::eval(op, a))\n            .or_else(|| {low}::eval(op, a))", 1)
    s = s.replace('        "C13" => c13::gen(&mut ctx),', f'        "C13" => c13::gen(&mut ctx),\n        "{pid}" => {low}::gen(&mut ctx),', 1)
    open(p, "w").write(s)
print("registered", pid)
# root module: import every property and driver module so `lake build` checks everything
root = os.path.join(V, "lean/RpmVerif.lean")
mods = []
for sub in ("Props", "Driver"):
    d = os.path.join(V, "lean/RpmVerif", sub)
    mods += [f"RpmVerif.{sub}.{f[:-5]}" for f in sorted(os.listdir(d)) if f.endswith(".lean")]
open(root, "w").write("-- root of the library: every property's theorems and every driver module\n" + "".join(f"import {m}\n" for m in mods))
