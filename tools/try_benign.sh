#!/bin/sh
# try_benign.sh <patch.diff> <property>… : a harmless rewrite must NOT raise an alarm: runs each property's quick check
# against a mutated copy of /repo (tools/try_seed.sh) and prints QUIET / ALARM per property.
PATCH=$1; shift
for P in "$@"; do
  out=$(/verif/tools/try_seed.sh $P "$PATCH" 2>&1)
  if echo "$out" | grep -q "patch does not apply"; then echo "$P NOT-APPLICABLE"; continue; fi
  if echo "$out" | grep -q "^VIOLATION"; then echo "$P ALARM: $(echo "$out" | grep -v '^WARNING' | tail -3 | cut -c1-400)"; else echo "$P QUIET ($(echo "$out" | grep 'theorems' | sed 's/.*correspondence: //' | cut -c1-60))"; fi
done
