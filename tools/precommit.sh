#!/bin/sh
# precommit.sh : every property's quick check once, sequentially (≈ 5 min warm); prints one line per property and exits 1 if any
# is not quiet. Run it after touching shared harness / driver / generator code (a change made for one property has broken another's
# check on the unchanged tree twice).
cd "$(dirname "$0")/.."
bad=0
for p in C01 C02 C03 C04 C05 C06 C07 C08 C09 C10 C11 C12 C13 C14 C15 C16 C17 C18 C19 C20; do
  s=$(date +%s); ./check $p --tier quick > /tmp/precommit-$p.log 2>&1; rc=$?
  v=$(grep -c '^VIOLATION' /tmp/precommit-$p.log)
  echo "$p rc=$rc $(( $(date +%s)-s ))s violations=$v"
  [ $rc -ne 0 ] && bad=1
done
exit $bad
