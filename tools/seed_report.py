#!/usr/bin/env python3
"""seed_report.py — run every stored seeded change through its property's check (on a copy of /repo, see
tools/try_seed.sh) and write seeded/RESULTS.md + seeded/<id>/result.json."""
import json, os, re, subprocess, sys, time
V = os.path.join(os.path.dirname(os.path.abspath(__file__)), "..")
rows = []
only = sys.argv[1:]
for d in sorted(os.listdir(os.path.join(V, "seeded"))):
    p = os.path.join(V, "seeded", d)
    if not os.path.isdir(p) or not os.path.exists(os.path.join(p, "patch.diff")):
        continue
    if only and not any(d.startswith(o) for o in only):
        continue
    prop = d.split("-")[0]
    t0 = time.time()
    r = subprocess.run([os.path.join(V, "tools", "try_seed.sh"), prop, os.path.join(p, "patch.diff")], stdout=subprocess.PIPE, stderr=subprocess.STDOUT, text=True)
    out = r.stdout
    viol = [l for l in out.splitlines() if l.startswith("VIOLATION")]
    applies = "patch does not apply" not in out
    status = "not-applicable (patch no longer applies to /repo HEAD)" if not applies else ("caught" if viol and "no-failing-input-found" not in viol[0] else ("caught (tie only, no failing input)" if viol else "MISSED"))
    meta = {}
    try:
        meta = json.load(open(os.path.join(p, "meta.json")))
    except Exception:
        pass
    res = {"seed": d, "property": prop, "status": status, "check": f"./check {prop} --tier quick", "violation_line": viol[0] if viol else None,
           "repo_head": subprocess.run(["git", "-C", "/repo", "rev-parse", "--short", "HEAD"], stdout=subprocess.PIPE, text=True).stdout.strip(),
           "wall_s": round(time.time() - t0, 1)}
    json.dump(res, open(os.path.join(p, "result.json"), "w"), indent=1)
    rows.append((d, str(meta.get("summary", ""))[:110].replace("|", "/").replace("\n", " "), status))
    print(d, status, flush=True)
# RESULTS.md is rebuilt from every stored result.json (so partial re-runs keep the other rows)
allrows = []
for d in sorted(os.listdir(os.path.join(V, "seeded"))):
    p = os.path.join(V, "seeded", d)
    if not os.path.exists(os.path.join(p, "result.json")):
        continue
    res = json.load(open(os.path.join(p, "result.json")))
    meta = {}
    try:
        meta = json.load(open(os.path.join(p, "meta.json")))
    except Exception:
        pass
    allrows.append((d, str(meta.get("summary", ""))[:110].replace("|", "/").replace("\n", " "), res["status"] + " @" + res.get("repo_head", "?")))
with open(os.path.join(V, "seeded", "RESULTS.md"), "w") as f:
    f.write("# Seeded changes vs. checks (quick tier, tools/try_seed.sh on a copy of /repo)\n\n| seed | change | result |\n|---|---|---|\n")
    for r in allrows:
        f.write(f"| {r[0]} | {r[1]} | {r[2]} |\n")
