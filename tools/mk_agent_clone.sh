#!/bin/sh
# mk_agent_clone.sh <name> : private clone of /verif (committed state) for a build agent, with the build output copied in
N=$1; D=/tmp/agents/$N/verif
mkdir -p /tmp/agents/$N && git clone -q /verif $D && cp -r /verif/lean/.lake $D/lean/.lake && cp -r /verif/harness/target $D/harness/target && echo $D
