#!/bin/sh
# benign_round.sh <id> <property>… : stores the harmless rewrite /tmp/benign/out/<id>/ as /verif/benign/<id>/ (after checking that it
# applies and that the existing suite passes with it), then runs the named properties' quick checks against a mutated copy of /repo
# (tools/try_benign.sh) and records QUIET / ALARM per property in /verif/benign/<id>/result.txt.
ID=$1; shift
SRC=/tmp/benign/out/$ID
export SEED_TAG=-$ID CARGO_NET_OFFLINE=true
WT=/tmp/confirm-wt$SEED_TAG
[ -d $WT ] || git -C /repo worktree add -q --detach $WT HEAD
( cd $WT && git checkout -- . && git apply $SRC/patch.diff && cargo test --workspace --no-fail-fast --offline > /tmp/benign-$ID.log 2>&1 ) || { echo "$ID REJECT (does not apply or suite fails)"; git -C /repo worktree remove --force $WT; exit 1; }
git -C /repo worktree remove --force $WT
mkdir -p /verif/benign/$ID && cp $SRC/patch.diff $SRC/meta.json /verif/benign/$ID/
/verif/tools/try_benign.sh /verif/benign/$ID/patch.diff "$@" 2>&1 | grep -v "^WARNING" | tee /verif/benign/$ID/result.txt
git -C /repo worktree remove --force /tmp/mutrepo$SEED_TAG 2>/dev/null
rm -rf /tmp/mutverif$SEED_TAG /tmp/mutverif$SEED_TAG.src
