#!/usr/bin/env python3
"""lcov_uncovered.py <file.lcov> : per source file of /repo/src the executable lines never hit (as ranges, with the text of
the first line of each range), test modules skipped; last line = total summary."""
import sys, re, os
cur = None
files = {}
for l in open(sys.argv[1]):
    l = l.strip()
    if l.startswith("SF:"):
        cur = l[3:]
        files.setdefault(cur, {})
    elif l.startswith("DA:") and cur:
        n, c = l[3:].split(",")[:2]
        files[cur][int(n)] = max(files[cur].get(int(n), 0), int(c))
tot = hit = 0
out = []
for f in sorted(files):
    if "/repo/src/" not in f and not f.startswith("/tmp/") :
        continue
    rel = f.split("/src/", 1)[1] if "/src/" in f else f
    if rel == "tests.rs":
        continue
    try:
        src = open(f, errors="replace").read().split("\n")
    except OSError:
        src = []
    # cut test modules
    cut = len(src) + 1
    for i, s in enumerate(src):
        if (s.strip().startswith("#[cfg(test)]") and i + 1 < len(src) and re.match(r"\s*(pub(\(crate\))?\s+)?mod\s", src[i + 1])) or re.match(r"^(pub(\(crate\))?\s+)?mod\s+tests?\s*\{", s):
            cut = i + 1
            break
    lines = {n: c for n, c in files[f].items() if n < cut}
    t = len(lines)
    h = sum(1 for c in lines.values() if c > 0)
    tot += t
    hit += h
    miss = sorted(n for n, c in lines.items() if c == 0)
    ranges = []
    for n in miss:
        if ranges and n == ranges[-1][1] + 1:
            ranges[-1][1] = n
        else:
            ranges.append([n, n])
    out.append(f"== {rel}: {h}/{t} lines executed")
    for a, b in ranges:
        text = src[a - 1].strip()[:110] if a - 1 < len(src) else ""
        out.append(f"   {a}" + (f"-{b}" if b != a else "") + f": {text}")
print("\n".join(out))
print(f"TOTAL {hit}/{tot} executable lines of src/ executed ({100.0 * hit / max(tot, 1):.1f} %)")
