#!/usr/bin/env python3
"""fingerprint.py — sha256 over the crate's sources (src/**/*.rs + Cargo.toml: relative path, NUL, content, NUL).

`python3 tools/fingerprint.py --record` writes tools/repo_fingerprint.txt from /repo's working tree, refusing when the
tree has uncommitted changes: the recorded value stands for "the tree the checks were last validated on". `check`
compares the working tree with it on every run; when they differ it runs extra seeds of the quick generators
(it never turns a difference into a verdict)."""
import hashlib, os, subprocess, sys

REPO = "/repo"
HERE = os.path.dirname(os.path.abspath(__file__))
RECORD = os.path.join(HERE, "repo_fingerprint.txt")


def repo_fingerprint(repo=REPO):
    h = hashlib.sha256()
    files = []
    for root, _, names in os.walk(os.path.join(repo, "src")):
        for n in names:
            if n.endswith(".rs"):
                files.append(os.path.join(root, n))
    files.append(os.path.join(repo, "Cargo.toml"))
    for f in sorted(files):
        try:
            data = open(f, "rb").read()
        except OSError:
            continue
        h.update(os.path.relpath(f, repo).encode() + b"\0" + data + b"\0")
    return h.hexdigest()


def recorded_fingerprint():
    try:
        return open(RECORD).read().split()[0]
    except (OSError, IndexError):
        return None


if __name__ == "__main__":
    if "--record" in sys.argv:
        dirty = subprocess.run(["git", "-C", REPO, "status", "--porcelain", "--", "src", "Cargo.toml"], stdout=subprocess.PIPE, text=True).stdout.strip()
        if dirty:
            print("refusing: /repo has uncommitted changes under src/ or Cargo.toml:\n" + dirty)
            sys.exit(1)
        head = subprocess.run(["git", "-C", REPO, "rev-parse", "--short", "HEAD"], stdout=subprocess.PIPE, text=True).stdout.strip()
        open(RECORD, "w").write(f"{repo_fingerprint()} {head}\n")
        print(open(RECORD).read().strip())
    else:
        print(repo_fingerprint(), "(recorded:", recorded_fingerprint(), ")")
