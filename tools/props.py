"""Per-property configuration for ./check: one module per property under tools/propcfg/ (CFG dict)."""
import importlib, os, pkgutil, sys
sys.path.insert(0, os.path.dirname(os.path.abspath(__file__)))
import propcfg

HOOK_COMMITS = ["648b35a", "c2bafe6"]   # /repo commits that add cfg(rpm_verif)-guarded hooks
NOT_YET = {}        # property id -> reason it is not claimed (MANIFEST.not_applicable)

PROPS = {}
for m in pkgutil.iter_modules(propcfg.__path__):
    if m.name.startswith("C"):
        PROPS[m.name] = importlib.import_module("propcfg." + m.name).CFG
