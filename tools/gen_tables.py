#!/usr/bin/env python3
"""gen_tables.py — translator for data tables: /repo source -> lean/RpmVerif/Gen/*.lean

Runs on every check. Each table (one module under tools/gen/, function `generate()`) is scraped from
the very regular source text; a file is rewritten only when its content changed (so lake re-elaborates
only what depends on it). When an expected pattern is missing the line `DEGRADED <table>: <why>` is
printed, so that the dependent theorem fails or the evidence reports `tie_degraded`.
"""
import importlib, os, pkgutil, sys
sys.path.insert(0, os.path.dirname(os.path.abspath(__file__)))
import gen
from gen import common


def main():
    for m in sorted(pkgutil.iter_modules(gen.__path__), key=lambda m: m.name):
        if m.name == "common":
            continue
        mod = importlib.import_module("gen." + m.name)
        try:
            mod.generate()
        except Exception as e:  # a scraper that crashes degrades its table, it does not stop the check
            common.degraded.append((m.name, f"generator crashed: {e!r}"))
    for t, why in common.degraded:
        print(f"DEGRADED {t}: {why}")
    return 0


if __name__ == "__main__":
    sys.exit(main())
