import RpmVerif.Driver.C13
import RpmVerif.Driver.C01
import RpmVerif.Driver.C16
import RpmVerif.Driver.C20
import RpmVerif.Driver.C18
import RpmVerif.Driver.C15
import RpmVerif.Driver.C19
import RpmVerif.Driver.C05
import RpmVerif.Driver.C04
import RpmVerif.Driver.C06
import RpmVerif.Driver.C07
import RpmVerif.Driver.C17
import RpmVerif.Driver.C03
import RpmVerif.Driver.C12
import RpmVerif.Driver.C14
import RpmVerif.Driver.C08
import RpmVerif.Driver.C11
import RpmVerif.Driver.C02
import RpmVerif.Driver.C10
import RpmVerif.Driver.C09
/-! Driver: one request per line in (`<op> <args…> => <impl observation>`), one answer per line
out (`<model observation> | <spec verdict> | <branch label>`).
Each property contributes `Driver/Cxx.lean` with `ops : List String` and
`handle : (op : String) → (args : List String) → (impl : String) → String`. -/
open RpmVerif.Driver

def handlers : List (List String × (String → List String → String → String)) := [
  (C13.ops, C13.handle),
  (C01.ops, C01.handle),
  (C16.ops, C16.handle),
  (C20.ops, C20.handle),
  (C18.ops, C18.handle),
  (C15.ops, C15.handle),
  (C19.ops, C19.handle),
  (C05.ops, C05.handle),
  (C04.ops, C04.handle),
  (C06.ops, C06.handle),
  (C07.ops, C07.handle),
  (C17.ops, C17.handle),
  (C03.ops, C03.handle),
  (C12.ops, C12.handle),
  (C14.ops, C14.handle),
  (C08.ops, C08.handle),
  (C11.ops, C11.handle),
  (C02.ops, C02.handle),
  (C10.ops, C10.handle),
  (C09.ops, C09.handle)
]

def dispatch (line : String) : String :=
  let (req, impl) := match line.splitOn " => " with
    | [r, i] => (r, i)
    | [r] => (r, "")
    | r :: rest => (r, " => ".intercalate rest)
    | _ => ("", "")
  match (req.splitOn " ").filter (· ≠ "") with
  | [] => badReq "empty"
  | op :: args =>
    match handlers.find? (fun h => h.1.contains op) with
    | some h => h.2 op args impl
    | none => badReq ("unknown-op:" ++ op)

/-- arguments of the form `@path` are replaced by the hex of the file's bytes -/
def resolveBlobs (line : String) : IO String := do
  if !line.contains '@' then return line
  let (req, rest) := match line.splitOn " => " with
    | r :: rest => (r, rest)
    | [] => ("", [])
  let toks ← (req.splitOn " ").mapM fun t => do
    if t.startsWith "@" then
      let bytes ← IO.FS.readBinFile (t.drop 1).toString
      pure (RpmVerif.hexOrDash bytes.toList)
    else pure t
  return " => ".intercalate (" ".intercalate toks :: rest)

partial def loop (h : IO.FS.Stream) (out : IO.FS.Stream) : IO Unit := do
  let line ← h.getLine
  if line.isEmpty then return ()
  let l ← resolveBlobs (line.trimAsciiEnd).toString
  out.putStrLn (dispatch l)
  loop h out

def main : IO Unit := do
  let out ← IO.getStdout
  loop (← IO.getStdin) out
  out.flush
