import RpmVerif.Driver.C13
/-! Driver: one request per line in (`<op> <args…> => <impl observation>`), one answer per line
out (`<model observation> | <spec verdict> | <branch label>`). -/
open RpmVerif.Driver

def dispatch (line : String) : String :=
  let (req, impl) := match line.splitOn " => " with
    | [r, i] => (r, i)
    | [r] => (r, "")
    | _ => ("", "")
  match (req.splitOn " ").filter (· ≠ "") with
  | [] => badReq "empty"
  | op :: args =>
    if op ∈ ["vercmp", "evrcmp", "nevracmp", "evrstrcmp"] then C13.handle op args impl
    else badReq ("unknown-op:" ++ op)

partial def loop (h : IO.FS.Stream) (out : IO.FS.Stream) : IO Unit := do
  let line ← h.getLine
  if line.isEmpty then return ()
  let l := (line.trimAsciiEnd).toString
  out.putStrLn (dispatch l)
  loop h out

def main : IO Unit := do
  let out ← IO.getStdout
  loop (← IO.getStdin) out
  out.flush
