import RpmVerif.Model.Basic
/-!
Executable hash functions for the DRIVER (never used in a theorem): SHA-256, SHA-1 and MD5 written out in
Lean over `ByteArray` / `UInt32`, self-tested against fixed vectors computed with python3 `hashlib`
(`selfTest`). They make the spec side of C03 / C08 independent of the Rust `sha2`, `sha1`, `md-5` crates.
-/
namespace RpmVerif.Driver.Hash

@[inline] def rotr (x : UInt32) (n : UInt32) : UInt32 := (x >>> n) ||| (x <<< (32 - n))
@[inline] def rotl (x : UInt32) (n : UInt32) : UInt32 := (x <<< n) ||| (x >>> (32 - n))

@[inline] def be32At (b : ByteArray) (i : Nat) : UInt32 :=
  ((b.get! i).toUInt32 <<< 24) ||| ((b.get! (i + 1)).toUInt32 <<< 16) ||| ((b.get! (i + 2)).toUInt32 <<< 8) ||| (b.get! (i + 3)).toUInt32
@[inline] def le32At (b : ByteArray) (i : Nat) : UInt32 :=
  ((b.get! (i + 3)).toUInt32 <<< 24) ||| ((b.get! (i + 2)).toUInt32 <<< 16) ||| ((b.get! (i + 1)).toUInt32 <<< 8) ||| (b.get! i).toUInt32

def pushBe32 (o : ByteArray) (x : UInt32) : ByteArray :=
  o.push (x >>> 24).toUInt8 |>.push (x >>> 16).toUInt8 |>.push (x >>> 8).toUInt8 |>.push x.toUInt8
def pushLe32 (o : ByteArray) (x : UInt32) : ByteArray :=
  o.push x.toUInt8 |>.push (x >>> 8).toUInt8 |>.push (x >>> 16).toUInt8 |>.push (x >>> 24).toUInt8

/-- Merkle–Damgård padding: 0x80, zeros to 56 mod 64, 64-bit bit length (big- or little-endian) -/
def pad (msg : ByteArray) (bigEndian : Bool) : ByteArray := Id.run do
  let len := msg.size
  let mut m := msg.push 0x80
  while m.size % 64 != 56 do m := m.push 0
  let bits := (len * 8).toUInt64
  for i in [0:8] do
    let sh := if bigEndian then 56 - 8 * i.toUInt64 else 8 * i.toUInt64
    m := m.push (bits >>> sh).toUInt8
  m

/-! ## SHA-256 (FIPS 180-4) -/
def sha256K : Array UInt32 := #[
  0x428a2f98,0x71374491,0xb5c0fbcf,0xe9b5dba5,0x3956c25b,0x59f111f1,0x923f82a4,0xab1c5ed5,
  0xd807aa98,0x12835b01,0x243185be,0x550c7dc3,0x72be5d74,0x80deb1fe,0x9bdc06a7,0xc19bf174,
  0xe49b69c1,0xefbe4786,0x0fc19dc6,0x240ca1cc,0x2de92c6f,0x4a7484aa,0x5cb0a9dc,0x76f988da,
  0x983e5152,0xa831c66d,0xb00327c8,0xbf597fc7,0xc6e00bf3,0xd5a79147,0x06ca6351,0x14292967,
  0x27b70a85,0x2e1b2138,0x4d2c6dfc,0x53380d13,0x650a7354,0x766a0abb,0x81c2c92e,0x92722c85,
  0xa2bfe8a1,0xa81a664b,0xc24b8b70,0xc76c51a3,0xd192e819,0xd6990624,0xf40e3585,0x106aa070,
  0x19a4c116,0x1e376c08,0x2748774c,0x34b0bcb5,0x391c0cb3,0x4ed8aa4a,0x5b9cca4f,0x682e6ff3,
  0x748f82ee,0x78a5636f,0x84c87814,0x8cc70208,0x90befffa,0xa4506ceb,0xbef9a3f7,0xc67178f2]

def sha256Compress (h : Array UInt32) (blk : ByteArray) (off : Nat) : Array UInt32 := Id.run do
  let mut w : Array UInt32 := Array.mkEmpty 64
  for i in [0:16] do
    w := w.push (be32At blk (off + 4 * i))
  for i in [16:64] do
    let w15 := w[i-15]!; let w2 := w[i-2]!
    let s0 := rotr w15 7 ^^^ rotr w15 18 ^^^ (w15 >>> 3)
    let s1 := rotr w2 17 ^^^ rotr w2 19 ^^^ (w2 >>> 10)
    w := w.push (w[i-16]! + s0 + w[i-7]! + s1)
  let mut a := h[0]!; let mut b := h[1]!; let mut c := h[2]!; let mut d := h[3]!
  let mut e := h[4]!; let mut f := h[5]!; let mut g := h[6]!; let mut hh := h[7]!
  for i in [0:64] do
    let s1 := rotr e 6 ^^^ rotr e 11 ^^^ rotr e 25
    let ch := (e &&& f) ^^^ ((~~~ e) &&& g)
    let t1 := hh + s1 + ch + sha256K[i]! + w[i]!
    let s0 := rotr a 2 ^^^ rotr a 13 ^^^ rotr a 22
    let mj := (a &&& b) ^^^ (a &&& c) ^^^ (b &&& c)
    let t2 := s0 + mj
    hh := g; g := f; f := e; e := d + t1; d := c; c := b; b := a; a := t1 + t2
  #[h[0]!+a, h[1]!+b, h[2]!+c, h[3]!+d, h[4]!+e, h[5]!+f, h[6]!+g, h[7]!+hh]

def sha256 (msg : ByteArray) : ByteArray := Id.run do
  let m := pad msg true
  let mut h : Array UInt32 := #[0x6a09e667,0xbb67ae85,0x3c6ef372,0xa54ff53a,0x510e527f,0x9b05688c,0x1f83d9ab,0x5be0cd19]
  for j in [0:m.size/64] do h := sha256Compress h m (64*j)
  let mut out := ByteArray.empty
  for x in h do out := pushBe32 out x
  out

/-! ## SHA-1 (FIPS 180-4) -/
def sha1Compress (h : Array UInt32) (blk : ByteArray) (off : Nat) : Array UInt32 := Id.run do
  let mut w : Array UInt32 := Array.mkEmpty 80
  for i in [0:16] do
    w := w.push (be32At blk (off + 4 * i))
  for i in [16:80] do
    w := w.push (rotl (w[i-3]! ^^^ w[i-8]! ^^^ w[i-14]! ^^^ w[i-16]!) 1)
  let mut a := h[0]!; let mut b := h[1]!; let mut c := h[2]!; let mut d := h[3]!; let mut e := h[4]!
  for i in [0:80] do
    let (f, k) : UInt32 × UInt32 :=
      if i < 20 then ((b &&& c) ||| ((~~~ b) &&& d), 0x5a827999)
      else if i < 40 then (b ^^^ c ^^^ d, 0x6ed9eba1)
      else if i < 60 then ((b &&& c) ||| (b &&& d) ||| (c &&& d), 0x8f1bbcdc)
      else (b ^^^ c ^^^ d, 0xca62c1d6)
    let t := rotl a 5 + f + e + k + w[i]!
    e := d; d := c; c := rotl b 30; b := a; a := t
  #[h[0]!+a, h[1]!+b, h[2]!+c, h[3]!+d, h[4]!+e]

def sha1 (msg : ByteArray) : ByteArray := Id.run do
  let m := pad msg true
  let mut h : Array UInt32 := #[0x67452301, 0xefcdab89, 0x98badcfe, 0x10325476, 0xc3d2e1f0]
  for j in [0:m.size/64] do h := sha1Compress h m (64*j)
  let mut out := ByteArray.empty
  for x in h do out := pushBe32 out x
  out

/-! ## MD5 (RFC 1321) -/
def md5S : Array UInt32 := #[
  7,12,17,22,7,12,17,22,7,12,17,22,7,12,17,22,
  5,9,14,20,5,9,14,20,5,9,14,20,5,9,14,20,
  4,11,16,23,4,11,16,23,4,11,16,23,4,11,16,23,
  6,10,15,21,6,10,15,21,6,10,15,21,6,10,15,21]

def md5K : Array UInt32 := #[
  0xd76aa478,0xe8c7b756,0x242070db,0xc1bdceee,0xf57c0faf,0x4787c62a,0xa8304613,0xfd469501,
  0x698098d8,0x8b44f7af,0xffff5bb1,0x895cd7be,0x6b901122,0xfd987193,0xa679438e,0x49b40821,
  0xf61e2562,0xc040b340,0x265e5a51,0xe9b6c7aa,0xd62f105d,0x02441453,0xd8a1e681,0xe7d3fbc8,
  0x21e1cde6,0xc33707d6,0xf4d50d87,0x455a14ed,0xa9e3e905,0xfcefa3f8,0x676f02d9,0x8d2a4c8a,
  0xfffa3942,0x8771f681,0x6d9d6122,0xfde5380c,0xa4beea44,0x4bdecfa9,0xf6bb4b60,0xbebfbc70,
  0x289b7ec6,0xeaa127fa,0xd4ef3085,0x04881d05,0xd9d4d039,0xe6db99e5,0x1fa27cf8,0xc4ac5665,
  0xf4292244,0x432aff97,0xab9423a7,0xfc93a039,0x655b59c3,0x8f0ccc92,0xffeff47d,0x85845dd1,
  0x6fa87e4f,0xfe2ce6e0,0xa3014314,0x4e0811a1,0xf7537e82,0xbd3af235,0x2ad7d2bb,0xeb86d391]

def md5Compress (h : Array UInt32) (blk : ByteArray) (off : Nat) : Array UInt32 := Id.run do
  let mut m : Array UInt32 := Array.mkEmpty 16
  for i in [0:16] do
    m := m.push (le32At blk (off + 4 * i))
  let mut a := h[0]!; let mut b := h[1]!; let mut c := h[2]!; let mut d := h[3]!
  for i in [0:64] do
    let (f, g) : UInt32 × Nat :=
      if i < 16 then ((b &&& c) ||| ((~~~ b) &&& d), i)
      else if i < 32 then ((d &&& b) ||| ((~~~ d) &&& c), (5 * i + 1) % 16)
      else if i < 48 then (b ^^^ c ^^^ d, (3 * i + 5) % 16)
      else (c ^^^ (b ||| (~~~ d)), (7 * i) % 16)
    let f2 := f + a + md5K[i]! + m[g]!
    a := d; d := c; c := b
    b := b + rotl f2 md5S[i]!
  #[h[0]!+a, h[1]!+b, h[2]!+c, h[3]!+d]

def md5 (msg : ByteArray) : ByteArray := Id.run do
  let m := pad msg false
  let mut h : Array UInt32 := #[0x67452301, 0xefcdab89, 0x98badcfe, 0x10325476]
  for j in [0:m.size/64] do h := md5Compress h m (64*j)
  let mut out := ByteArray.empty
  for x in h do out := pushLe32 out x
  out

/-! ## list interface used by the drivers -/
def ofList (bs : Bytes) : ByteArray := ByteArray.mk bs.toArray
def md5L (bs : Bytes) : Bytes := (md5 (ofList bs)).toList
def sha1L (bs : Bytes) : Bytes := (sha1 (ofList bs)).toList
def sha256L (bs : Bytes) : Bytes := (sha256 (ofList bs)).toList

/-! ## self test against python3 hashlib -/
def hexBA (b : ByteArray) : String := hexOfBytes b.toList

/-- the 1000-byte pattern `bytes((i*7+3) % 256 for i in range(1000))` -/
def pattern1000 : ByteArray := Id.run do
  let mut o := ByteArray.empty
  for i in [0:1000] do o := o.push ((i * 7 + 3) % 256).toUInt8
  o

def abc : ByteArray := ByteArray.mk #[97, 98, 99]

def vectors : List (String × (ByteArray → ByteArray) × ByteArray × String) := [
  ("md5-empty", md5, ByteArray.empty, "d41d8cd98f00b204e9800998ecf8427e"),
  ("md5-abc", md5, abc, "900150983cd24fb0d6963f7d28e17f72"),
  ("md5-pattern1000", md5, pattern1000, "10046f077f2082ac19676b8079f1cb1a"),
  ("sha1-empty", sha1, ByteArray.empty, "da39a3ee5e6b4b0d3255bfef95601890afd80709"),
  ("sha1-abc", sha1, abc, "a9993e364706816aba3e25717850c26c9cd0d89d"),
  ("sha1-pattern1000", sha1, pattern1000, "4231a8a50a10fa9758db8ec71fdef855b751048a"),
  ("sha256-empty", sha256, ByteArray.empty, "e3b0c44298fc1c149afbf4c8996fb92427ae41e4649b934ca495991b7852b855"),
  ("sha256-abc", sha256, abc, "ba7816bf8f01cfea414140de5dae2223b00361a396177a9cb410ff61f20015ad"),
  ("sha256-pattern1000", sha256, pattern1000, "1e9bc38cbf860b9ec31918b065f9b52476c549a782e0e7990bed8ce3868d2371")]

/-- names of the failing vectors (empty = all pass) -/
def selfTest : List String :=
  vectors.filterMap fun (name, f, input, want) => if hexBA (f input) == want then none else some name

end RpmVerif.Driver.Hash
