import RpmVerif.Driver.Common
import RpmVerif.Model.Accessors
import RpmVerif.Model.Utf8
import RpmVerif.Spec.ScriptletTags
/-! Driver for C05. Op `acc BYTES` → the same canonical accessor dump as harness/src/c05.rs.
Errors are collapsed to `err` on both sides (the property only demands "an error").
Op `get05 h|s TAGS BYTES` → the nine typed getters of `Header<T>` called directly, per tag.
Op `lossy05 HEX` → `String::from_utf8_lossy` against `Model/Utf8.lean` (the std assumption every string decode rests on). -/
namespace RpmVerif.Driver.C05
open RpmVerif.Hdr RpmVerif.Acc RpmVerif.Gen RpmVerif.Driver

def ops : List String := ["acc", "get05", "lossy05"]

def hx (b : Bytes) : String := hexOrDash b
def rs (r : Out Bytes) : String := match r with | .ok v => "ok:" ++ hx v | _ => "err"
def rn (r : Out Nat) : String := match r with | .ok v => s!"ok:{v}" | _ => "err"
def sep (s : String) (l : List String) : String := s.intercalate l
def rdeps (r : Out (List Dependency)) : String :=
  match r with
  | .ok v => "ok:[" ++ sep ";" (v.map fun d => s!"{hx d.name},{d.flags},{hx d.version}") ++ "]"
  | _ => "err"
def rscript (r : Out Acc.Scriptlet) : String :=
  match r with
  | .ok sc =>
    let f := match sc.flags with | some f => toString f | none => "~"
    let p := match sc.prog with | some p => "[" ++ sep "/" (p.map hx) ++ "]" | none => "~"
    s!"ok:{hx sc.script},{f},{p}"
  | _ => "err"

def scr (h : Header) (k : String) : Out Acc.Scriptlet :=
  match RpmVerif.Spec.stdScriptletTags.find? (·.1 == k) with  -- rpm's table; = Gen.scriptletTags by C05.scriptlet_tags_standard
  | some (_, a, b, c) => getScriptlet h (a, b, c)
  | none => .err "table"

/-- output sizes of the digest algorithms (same table as `C05.digestBytes`; the driver does not import Props) -/
def digestBytes : Nat → Option Nat
  | 1 => some 16 | 2 => some 20 | 8 => some 32 | 9 => some 48 | 10 => some 64 | 11 => some 28 | _ => none
/-- the algorithms the code supports, each with its REAL hex length: what the spec judges file digests by -/
def standardHexLen : List (Nat × Nat) := fileDigestHexLen.map fun p => (p.1, 2 * (digestBytes p.1).getD 0)

def dump (m : Metadata) (tbl : List (Nat × Nat) := fileDigestHexLen) : String :=
  let h := m.header
  let dep (a b c : Nat) := rdeps (getDependencies h a b c)
  sep " " [
    s!"src={boolStr (entryIsPresent h IndexTag.RPMTAG_SOURCEPACKAGE)}",
    "name=" ++ rs (getString h IndexTag.RPMTAG_NAME),
    "epoch=" ++ rn (getU32 h IndexTag.RPMTAG_EPOCH),
    "version=" ++ rs (getString h IndexTag.RPMTAG_VERSION),
    "release=" ++ rs (getString h IndexTag.RPMTAG_RELEASE),
    "arch=" ++ rs (getString h IndexTag.RPMTAG_ARCH),
    "vendor=" ++ rs (getString h IndexTag.RPMTAG_VENDOR),
    "url=" ++ rs (getString h IndexTag.RPMTAG_URL),
    "vcs=" ++ rs (getString h IndexTag.RPMTAG_VCS),
    "license=" ++ rs (getString h IndexTag.RPMTAG_LICENSE),
    "summary=" ++ rs (getI18nString h IndexTag.RPMTAG_SUMMARY),
    "description=" ++ rs (getI18nString h IndexTag.RPMTAG_DESCRIPTION),
    "group=" ++ rs (getI18nString h IndexTag.RPMTAG_GROUP),
    "packager=" ++ rs (getString h IndexTag.RPMTAG_PACKAGER),
    "buildtime=" ++ rn (getU32 h IndexTag.RPMTAG_BUILDTIME),
    "buildhost=" ++ rs (getString h IndexTag.RPMTAG_BUILDHOST),
    "cookie=" ++ rs (getString h IndexTag.RPMTAG_COOKIE),
    "sourcerpm=" ++ rs (getString h IndexTag.RPMTAG_SOURCERPM),
    "prein=" ++ rscript (scr h "PREIN_TAGS"),
    "postin=" ++ rscript (scr h "POSTIN_TAGS"),
    "preun=" ++ rscript (scr h "PREUN_TAGS"),
    "postun=" ++ rscript (scr h "POSTUN_TAGS"),
    "pretrans=" ++ rscript (scr h "PRETRANS_TAGS"),
    "posttrans=" ++ rscript (scr h "POSTTRANS_TAGS"),
    "preuntrans=" ++ rscript (scr h "PREUNTRANS_TAGS"),
    "postuntrans=" ++ rscript (scr h "POSTUNTRANS_TAGS"),
    "provides=" ++ dep IndexTag.RPMTAG_PROVIDENAME IndexTag.RPMTAG_PROVIDEFLAGS IndexTag.RPMTAG_PROVIDEVERSION,
    "requires=" ++ dep IndexTag.RPMTAG_REQUIRENAME IndexTag.RPMTAG_REQUIREFLAGS IndexTag.RPMTAG_REQUIREVERSION,
    "conflicts=" ++ dep IndexTag.RPMTAG_CONFLICTNAME IndexTag.RPMTAG_CONFLICTFLAGS IndexTag.RPMTAG_CONFLICTVERSION,
    "obsoletes=" ++ dep IndexTag.RPMTAG_OBSOLETENAME IndexTag.RPMTAG_OBSOLETEFLAGS IndexTag.RPMTAG_OBSOLETEVERSION,
    "recommends=" ++ dep IndexTag.RPMTAG_RECOMMENDNAME IndexTag.RPMTAG_RECOMMENDFLAGS IndexTag.RPMTAG_RECOMMENDVERSION,
    "suggests=" ++ dep IndexTag.RPMTAG_SUGGESTNAME IndexTag.RPMTAG_SUGGESTFLAGS IndexTag.RPMTAG_SUGGESTVERSION,
    "enhances=" ++ dep IndexTag.RPMTAG_ENHANCENAME IndexTag.RPMTAG_ENHANCEFLAGS IndexTag.RPMTAG_ENHANCEVERSION,
    "supplements=" ++ dep IndexTag.RPMTAG_SUPPLEMENTNAME IndexTag.RPMTAG_SUPPLEMENTFLAGS IndexTag.RPMTAG_SUPPLEMENTVERSION,
    "size=" ++ rn (getInstalledSize h),
    -- the variant is printed by the model of `impl Display` (Gen.compressionDisplay), as the harness prints the real one
    "compressor=" ++ (match getPayloadCompressorVariant h with
      | .ok v => "ok:" ++ RpmVerif.Driver.stringOfCodePoints (RpmVerif.Compression.toStr v) | _ => "err"),
    "paths=" ++ (match getFilePaths h with | .ok v => "ok:[" ++ sep ";" (v.map hx) ++ "]" | _ => "err"),
    "fdalgo=" ++ rn (getFileDigestAlgorithm h),
    "files=" ++ (match getFileEntries m.signature h tbl with
      | .ok v => "ok:[" ++ sep ";" (v.map fun f =>
          let dg := match f.digest with | some (a, d) => s!"{a}:{hx d}" | none => "~"
          let cp := match f.caps with | some c => hx c | none => "~"
          let im := match f.ima with | some c => hx c | none => "~"
          s!"{hx f.path},{f.mode},{hx f.user},{hx f.group},{f.mtime},{f.size},{f.flags},{dg},{cp},{hx f.linkto},{im}") ++ "]"
      | _ => "err"),
    "changelog=" ++ (match getChangelog h with
      | .ok v => "ok:[" ++ sep ";" (v.map fun c => s!"{hx c.name},{c.timestamp},{hx c.description}") ++ "]"
      | _ => "err") ]

def rnums (r : Out (List Nat)) : String :=
  match r with | .ok v => "ok:[" ++ sep ";" (v.map toString) ++ "]" | _ => "err"
def rstrs (r : Out (List Bytes)) : String :=
  match r with | .ok v => "ok:[" ++ sep ";" (v.map hx) ++ "]" | _ => "err"

/-- the nine typed getters of `Header<T>` on one tag, in the order harness/src/c05.rs `getters` prints them -/
def getters (h : Header) (tag : Nat) : String :=
  s!"{tag}:present={boolStr (entryIsPresent h tag)} bin={rs (getBinary h tag)} str={rs (getString h tag)} " ++
  s!"i18n={rs (getI18nString h tag)} u16a={rnums (getU16Array h tag)} u32={rn (getU32 h tag)} u32a={rnums (getU32Array h tag)} " ++
  s!"u64={rn (getU64 h tag)} u64a={rnums (getU64Array h tag)} stra={rstrs (getStringArray h tag)}"

/-- independent judgement of a `from_utf8_lossy` result (Lean core's UTF-8 validator, not `Model/Utf8`): the output is
valid UTF-8; valid input comes back unchanged; invalid input comes back changed and contains U+FFFD -/
def lossySpec (inp out : Bytes) : Bool :=
  let valid (b : Bytes) := (String.fromUTF8? (ByteArray.mk b.toArray)).isSome
  let rec hasRepl : Bytes → Bool
    | 0xEF :: 0xBF :: 0xBD :: _ => true
    | _ :: r => hasRepl r
    | [] => false
  valid out && (if valid inp then out == inp else out != inp && hasRepl out)

def handleGet (which tags hb impl : String) : String :=
  match bytesOfHex hb with
  | none => badReq "hex"
  | some bs =>
    match parseMetadata bs with
    | .ok (m, _) =>
      let h := if which == "s" then m.signature else m.header
      let ts := (tags.splitOn ",").filterMap String.toNat?
      let d := sep " ; " (ts.map (getters h))
      -- the getters are proved to return the projection of the first entry with the tag, whose data is what the store
      -- holds (Props/C05 getter_value_is_stored / getter_absent / getter_wrong_type): a differing result is a failure
      let v := if impl == d then "holds" else if impl == "parse-err" then "dontcare" else "fails:getter-differs"
      let np := (ts.filter (entryIsPresent h)).length
      answer d v s!"get-{which}-present{min np 3}"
    | o => answer (if o.isPanic then "panic" else "parse-err") (if impl == "parse-err" then "dontcare" else "fails:accepted-what-model-rejects") "rejected"

def handle (op : String) (args : List String) (impl : String) : String :=
  match op, args with
  | "get05", [which, tags, hb] => handleGet which tags hb impl
  | "lossy05", [hb] =>
    match bytesOfHex hb, bytesOfHex impl with
    | some bs, some out =>
      let m := RpmVerif.Utf8.lossy bs
      answer (hexOrDash m) (if lossySpec bs out then "holds" else "fails:lossy-decoding")
        (if m == bs then "lossy-valid" else "lossy-replaced")
    | _, _ => badReq "hex"
  | _, _ =>
  match args with
  | [hb] =>
    match bytesOfHex hb with
    | none => badReq "hex"
    | some bs =>
      match parseMetadata bs with
      | .ok (m, _) =>
        let d := dump m
        -- the model is proved to return what the header stores (Props/C05); a differing accessor
        -- result of the implementation is therefore a property failure, not only a broken tie.
        -- File digests are judged with the algorithms' real sizes, not with the lengths scraped from the code.
        let dSpec := dump m standardHexLen
        let v := if impl == dSpec then "holds" else if impl == "parse-err" then "dontcare"
          else if impl == d then "fails:file-digest-length" else "fails:accessor-differs"
        answer d v s!"hdr{min m.header.entries.length 9 / 3}-files{match getFileEntries m.signature m.header with | .ok l => s!"ok{min l.length 2}" | _ => "err"}"
      | o => answer (if o.isPanic then "panic" else "parse-err") (if impl == "parse-err" then "dontcare" else "fails:accepted-what-model-rejects") "rejected"
  | _ => badReq "args"

end RpmVerif.Driver.C05
