import RpmVerif.Driver.Common
import RpmVerif.Model.AddData
import RpmVerif.Spec.AddData
import RpmVerif.Driver.WithFile
import RpmVerif.Gen.CompressionNames
import RpmVerif.Driver.Bld
/-! Driver for C17. Ops (texts as hex of their bytes, `-` = empty):
  `dest H`                 – `PackageBuilder::with_file(src, FileOptions::new(H))` → `build()` → write → parse;
                             obs `ok <dir> <basename> <path>` (DIRNAMES / BASENAMES / `get_file_paths()` read back,
                             so each is cut at a NUL) | `err:InvalidDestinationPath` | `err:<other>` | `panic`
  `pcomps H` `pparent H` `pfilename H` `pstrip H` `pjoin A B`
                           – the real `std::path` functions on raw bytes, against `Model/Path.lean`
  `level T L`              – build with `CompressionWithLevel::T(L)` in a child process:
                             `ok | err | panic | abort | corrupt | unrepresentable`
  `tsset <sd|cl|sg> <u32|sys|utc|fix> S N` – `source_date` / `add_changelog_entry` / (`sg`) `Package::sign_with_timestamp` on a
                             built package, with the instant as that type under catch_unwind: `ok [n] | panic | unrepresentable`.
                             `sg` is the same `t.try_into().unwrap()` (model `Sign.signOpE`; `C10.sign_panics_iff`: it panics
                             exactly when `timestampSetter` does, before the signer is asked) — same failure class, same known finding
  `capsset H`              – `FileOptions::caps(H)` (+ build) and `FileCaps::from_str(H)`: `<ok|err:..|panic> <ok|err>`
  `meta H`                 – every string setter with `H`, then build: `ok | err:.. | panic`
  `wfile <kind> <perm> <secs> <nanos> <size> <dest> <setters>` – one options chain + `with_file` on a prepared source
                             (regular / symlink / FIFO / directory / missing; any mode bits; any mtime), see Driver/WithFile.lean
  `leveld <T|default>`     – `compression(CompressionType::T)` / no `compression()` call at all, then build: `ok <name> <level|->`
                             as PAYLOADCOMPRESSOR / PAYLOADFLAGS record it | `err` | `panic` (model: the scraped default tables)
Verdict: a `panic` / `abort` is `fails:timestamp-setter-panic` for `tsset`, `fails:builder-panic` elsewhere;
a destination without a final file name (`Spec.hasFileNameB`) that is accepted is `fails:unsplittable-accepted`; unknown capability text
(`cap_bogus`) that is accepted is `fails:unknown-cap-accepted`. The `std::path` ops carry no claim of the
property (`dontcare`): they only tie the model of the library to the library. -/
namespace RpmVerif.Driver.C17
open RpmVerif.Driver RpmVerif.Path RpmVerif.AddData RpmVerif.AddDataSpec

/-- a header string ends at its first NUL -/
def cstr (s : Bytes) : Bytes := s.takeWhile (fun b => b != 0)

def optObs : Option Bytes → String
  | none => "none"
  | some b => "some " ++ hexOrDash b

def compObs : Comp → String
  | .root => "R" | .cur => "C" | .parent => "P" | .normal s => "N:" ++ hexOrDash s

def isInfix (pat s : Bytes) : Bool :=
  (List.range (s.length + 1)).any fun i => pat.isPrefixOf (s.drop i)

def isPanicObs (impl : String) : Bool :=
  impl.startsWith "panic" || impl == "abort" || impl.startsWith "exit-" || impl == "fork-failed" || impl == "wait-failed"

def destLabel (d : Bytes) : String :=
  if !validStartB d then "bad-start"
  else
    let style := if hasRoot d then "slash" else "dot"
    let messy := ((splitSep d).drop 1).any isTriv
    let out :=
      match parent d with
      | none => "no-parent"
      | some par =>
        if !hasRoot d && (stripPrefixDot par).isNone then "no-strip"
        else match fileName d with
          | none => "no-filename"
          | some _ =>
            match addDataRaw d with
            | .ok (_, dir, _) => if dir == [47] then "ok-root" else "ok-sub"
            | _ => "?"
    style ++ ":" ++ out ++ (if messy then ":messy" else "") ++ (if d.contains 0 then ":nul" else "")

def handleDest (d : Bytes) (impl : String) : String :=
  let m := match addDataRaw d with
    | .ok (_, dir, base) =>
      let dir := cstr dir
      let base := cstr base
      "ok " ++ hexOrDash dir ++ " " ++ hexOrDash base ++ " " ++ hexOrDash (readBackPath dir base)
    | .err c => "err:" ++ c
    | .panic _ => "panic"
  let v :=
    if isPanicObs impl then "fails:" ++ clsBuilderPanic
    else if impl.startsWith "ok" then
      -- accepted: it must have a file name; whether a relative destination may be accepted is not the property's business
      if !hasFileNameB d then "fails:" ++ clsUnsplittableAccepted
      else if !validStartB d then "dontcare"
      else "holds"
    else "holds"
  answer m v (destLabel d)

def lowerNames : List String := Gen.levelVariants.map String.toLower

def variantOf (name : String) : Option Nat :=
  let i := lowerNames.idxOf name
  if i < lowerNames.length then some i else none

def handleLevel (ty : String) (l : Int) (impl : String) (nobz : Bool := false) : String :=
  match variantOf ty with
  | none => badReq "type"
  | some v =>
    let m :=
      if !levelRepresentable v l then "unrepresentable"
      -- rpm-rs built without its bzip2 feature refuses the type (`UnsupportedCompressorType`) whatever the level
      else if nobz && ty == "bzip2" then "err"
      else match compressorConstruct (fun _ _ => .ok ()) v l with
        | .ok _ => "ok" | .err _ => "err" | .panic _ => "panic"
    let verdict :=
      if isPanicObs impl then "fails:" ++ clsBuilderPanic
      else if impl == "corrupt" then "fails:level-corrupt-payload"
      else if impl == "unrepresentable" then "dontcare"
      else if impl == "ok" || impl == "err" then "holds"
      else "fails:malformed"
    let region :=
      if !levelRepresentable v l then "unrepresentable"
      else match lookup3 Gen.levelAccepted v with
        | none => "no-level"
        | some (lo, hi) => if l < lo then "below" else if hi < l then "above" else if l == lo || l == hi then "edge" else "inside"
    answer m verdict ((if nobz then "levelnb:" else "level:") ++ ty ++ ":" ++ region)

/-- the cargo features of the rpm-rs the harness links: its defaults, plus bzip2 unless this is the `nobz` build -/
def featureEnabled (nobz : Bool) (t : Nat) : Bool :=
  Gen.cargoDefaultFeatureTypes.contains t || (!nobz && Gen.compressionVariants[t]? == some "Bzip2")

/-- `leveld <type|default>`: `compression(CompressionType::<type>)` resp. no `compression()` call, then build; the observation
names the compressor and the level the header records (`ok zstd 19`, `ok none -`) -/
def handleLevelDefault (ty : String) (impl : String) (nobz : Bool) : String :=
  let tnames := Gen.compressionVariants.map String.toLower
  let t : Option Nat := if ty == "default" then some (defaultType (featureEnabled nobz))
    else (let i := tnames.idxOf ty; if i < tnames.length then some i else none)
  match t with
  | none => badReq "type"
  | some t =>
    let m := match withLevelOfType t with
      | none => "?"
      | some (v, l) =>
        -- a type whose codec is not compiled in is refused (`UnsupportedCompressorType`) whatever the level
        if t != 0 && !featureEnabled nobz t then "err"
        else match compressorConstruct (fun _ _ => .ok ()) v l with
          | .ok _ => "ok " ++ (lowerNames.getD v "?") ++ " " ++ (if (lookup3 Gen.levelArgType v).isSome then toString l else "-")
          | .err _ => "err" | .panic _ => "panic"
    let verdict :=
      if isPanicObs impl then "fails:" ++ clsBuilderPanic
      -- (that the library's own defaults are levels its own range check accepts is the theorem `default_level_in_range`
      -- over the scraped table, not a demand of the property: an `err` here is an error, not a panic)
      else if impl.startsWith "ok" || impl == "err" then "holds"
      else "fails:malformed"
    answer m verdict ((if nobz then "leveldnb:" else "leveld:") ++ ty)

def inCore (secs : Int) : Bool := -2199023255552 ≤ secs && secs ≤ 2199023255552

def tsRegion (secs : Int) : String :=
  if secs < 0 then "before-1970" else if secs < 4294967296 then "inside" else "from-2106"

def handleTs (setter kind : String) (secs : Int) (nanos : Nat) (impl : String) : String :=
  if h : nanos < 1000000000 then
    let inst : Timestamp.Instant := ⟨secs, nanos, h⟩
    let arg : Option TsArg :=
      match kind with
      | "u32" => if 0 ≤ secs && secs < 4294967296 && nanos == 0 then some (.secs secs.toNat) else none
      | "sys" => some (.src (.sys inst))
      | "utc" => some (.src (.chrono ⟨inst, 0⟩))
      | "fix" => some (.src (.chrono ⟨inst, 20700⟩))
      | _ => none
    if kind != "u32" && kind != "sys" && kind != "utc" && kind != "fix" then badReq "kind"
    else if setter != "sd" && setter != "cl" && setter != "sg" then badReq "setter"
    else
      let m :=
        match arg with
        | none => "unrepresentable"
        | some a =>
          if impl == "unrepresentable" && !inCore secs then "*"
          else match (if setter == "sd" then sourceDate a else if setter == "sg" then timestampSetter a else addChangelogEntry [] [] a) with
            | .ok n => if setter == "cl" then "ok " ++ toString n else "ok"
            | .err _ => "err"
            -- the known-finding region: the model mirrors the defect; a repaired setter (however it
            -- then behaves) is judged by the spec alone (DESIGN §3)
            | .panic _ => if impl == "panic" then "panic" else "*"
      let verdict :=
        if impl == "panic" then "fails:" ++ clsTimestampPanic
        else if isPanicObs impl then "fails:" ++ clsBuilderPanic
        else if impl == "unrepresentable" then "dontcare"
        else "holds"
      let label := if impl == "unrepresentable" then "ts:unrepresentable"
        else "ts:" ++ setter ++ ":" ++ kind ++ ":" ++ tsRegion secs
      answer m verdict label
  else badReq "nanos"

def bogus : Bytes := "cap_bogus".toUTF8.toList

def handleCaps (t : Bytes) (impl : String) : String :=
  match impl.splitOn " " with
  | [s, v] =>
    let m := match capsSetter (fun _ => v == "ok") t with
      | .ok _ => "ok" | .err c => "err:" ++ c | .panic _ => "panic"
    let hasBogus := isInfix bogus t
    let verdict :=
      if isPanicObs s || isPanicObs v then "fails:" ++ clsBuilderPanic
      else if hasBogus && s == "ok" then "fails:unknown-cap-accepted"
      else "holds"
    answer (m ++ " " ++ v) verdict (if hasBogus then "caps:unknown-cap" else if s == "ok" then "caps:accepted" else "caps:rejected")
  | _ =>
    answer "?" (if isPanicObs impl then "fails:" ++ clsBuilderPanic else "fails:malformed") "caps:malformed"

/-! ### `build17 <tokens>`: a whole call sequence, then `build()` (or `build_and_sign` / `build` + `sign`)

Model: `Build.buildCalls` (`Model/PrepareData.lean`) in the environment the harness sets up — the clock pinned to `now=` by the
hook, an all-accepting compressor whose `finish` returns the archive itself for `None` and otherwise an opaque payload whose
digest is copied from the observation (the driver cannot compress), the driver's own SHA-256 for everything else: the ARCHIVE
digest is predicted from the model's own cpio bytes (standard and large-file form), the lead and the main header byte for byte.
A codec that is not compiled in is refused by `enc`. Spec (C17): whatever the arguments, never a panic. -/
def payloadMark : Bytes := [0xff, 0x00, 0x70, 0x61, 0x79]

def handleBuild17 (args : List String) (impl : String) : String :=
  open RpmVerif.Driver.Bld RpmVerif.Hdr RpmVerif.Bld in
  match parseReqWith RpmVerif.Driver.WithFile.capsValid args with
  | none => badReq "cfg"
  | some r =>
    let itoks := (impl.splitOn " ").filter (· ≠ "")
    let tok (k : String) : String :=
      (itoks.findSome? fun t => if t.startsWith (k ++ "=") then some (t.drop (k.length + 1)).toString else none).getD "<missing>"
    let nobz := kv args "feat" == some "nobz"
    let paysha : Bytes := (bytesOfHex (tok "paysha")).getD []
    let E : RpmVerif.Build.Env :=
      { sha256 := fun b => if b == payloadMark then paysha else Hash.sha256L b,
        clock := ⟨r.now, 0, by decide⟩,
        enc := fun v _ => if nobz && Gen.levelVariants[v]? == some "Bzip2" then .err "UnsupportedCompressorType" else .ok (),
        sink := {},
        finish := fun a => .ok a }
    -- the state after the calls decides whether the payload is the archive (no compression) or opaque
    let E := match RpmVerif.Build.run E.hex RpmVerif.Driver.WithFile.capsValid r.calls r.st0 with
      | .ok st => (match st.base.compression with | .none => E | _ => { E with finish := fun _ => .ok payloadMark })
      | _ => E
    let signed := (kv args "sgn").isSome
    let m := match RpmVerif.Build.buildCalls E RpmVerif.Driver.WithFile.capsValid r.st0 r.calls with
      | .ok p =>
        let hbytes := writeHeader p.md.header
        let same := match parseMetadata (writeMetadata p.md) with | .ok (m2, _) => m2 == p.md | _ => false
        let archsha := match RpmVerif.Build.run E.hex RpmVerif.Driver.WithFile.capsValid r.calls r.st0 with
          | .ok st => (match RpmVerif.Build.prepareArchive E st.cfg st.fes with | some a => hexOfBytes (Hash.sha256L a) | none => "?")
          | _ => "?"
        let paysha' := if p.content == payloadMark then tok "paysha" else hexOfBytes (Hash.sha256L p.content)
        s!"ok paysha={paysha'} archsha={archsha} lead={hex16 (fnv (writeLead p.md.lead))} sig={if signed then "signed" else hex16 (fnv (writeSignature p.md.signature))} hdr={hex16 (fnv hbytes)} hlen={hbytes.length} same={boolStr same}"
      | .err c =>
        if c == "level-out-of-range" then "err:io"                 -- `io::Error(InvalidInput)` → `Error::Io`
        else if c == "UnsupportedCompressorType" then "err:other"
        else "err:" ++ c
      -- the known-finding region (a timestamp setter unwrapping): the model mirrors the defect; anything else the code does
      -- there is judged by the spec alone
      | .panic site => if impl == "panic" then "panic" else if site.startsWith "timestamp-unwrap" then "*" else "panic"
    let tsPanic := match RpmVerif.Build.buildCalls E RpmVerif.Driver.WithFile.capsValid r.st0 r.calls with
      | .panic site => site.startsWith "timestamp-unwrap"
      | _ => false
    let verdict :=
      if isPanicObs impl then (if tsPanic then "fails:" ++ clsTimestampPanic else "fails:" ++ clsBuilderPanic)
      else if impl.startsWith "ok " || impl.startsWith "err:" then "holds"
      else "fails:malformed"
    let label := "build17:" ++ (match m.splitOn " " with | h :: _ => h | [] => "?") ++
      (if signed then ":signed" else "") ++ (if (kv args "lf").isSome then ":lf" else "")
    answer m verdict label

def handle (op : String) (args : List String) (impl : String) : String :=
  match op, args with
  | "build17", _ => handleBuild17 args impl
  | "dest", [h] =>
    match bytesOfHex h with
    | some d => handleDest d impl
    | none => badReq "hex"
  | "pcomps", [h] =>
    match bytesOfHex h with
    | some p =>
      let cs := components p
      answer (if cs.isEmpty then "-" else ",".intercalate (cs.map compObs)) "dontcare" "path:components"
    | none => badReq "hex"
  | "pparent", [h] =>
    match bytesOfHex h with
    | some p => answer (optObs (parent p)) "dontcare" "path:parent"
    | none => badReq "hex"
  | "pfilename", [h] =>
    match bytesOfHex h with
    | some p => answer (optObs (fileName p)) "dontcare" "path:file_name"
    | none => badReq "hex"
  | "pstrip", [h] =>
    match bytesOfHex h with
    | some p => answer (optObs (stripPrefixDot p)) "dontcare" "path:strip_prefix"
    | none => badReq "hex"
  | "pjoin", [a, b] =>
    match bytesOfHex a, bytesOfHex b with
    | some x, some y => answer (hexOrDash (Path.join x y)) "dontcare" "path:join"
    | _, _ => badReq "hex"
  | "level", [ty, l] =>
    match l.toInt? with
    | some n => handleLevel ty n impl
    | none => badReq "level"
  | "levelnb", [ty, l] =>
    match l.toInt? with
    | some n => handleLevel ty n impl (nobz := true)
    | none => badReq "level"
  | "leveld", [ty] => handleLevelDefault ty impl false
  | "leveldnb", [ty] => handleLevelDefault ty impl true
  | "tsset", [setter, kind, s, n] =>
    match s.toInt?, n.toNat? with
    | some secs, some nanos => handleTs setter kind secs nanos impl
    | _, _ => badReq "instant"
  | "capsset", [h] =>
    match bytesOfHex h with
    | some t => handleCaps t impl
    | none => badReq "hex"
  | "meta", [h] =>
    match bytesOfHex h with
    -- every string setter, `epoch`, all nine scriptlet setters (from text and from a `Scriptlet`), all eight dependency setters
    -- (through eight constructors), a changelog entry and a file with that text as owner / group / link, built through
    -- `build` (even length) / `build_and_sign` (odd length), written, re-parsed and read back: `ok rt=all` — everything came
    -- back as given — or `ok rt=<fields that did not>`. A header string ends at its first NUL, so a text with a NUL comes back
    -- cut (no prediction there); any other text must come back whole (model: `C06.readback_*` over `Bld.Cfg.applyAll`).
    | some t =>
      let nul := t.contains 0
      answer (if nul then "*" else "ok rt=all")
        (if isPanicObs impl then "fails:" ++ clsBuilderPanic else if !nul && impl.startsWith "ok rt=" && impl != "ok rt=all" then "fails:meta-readback" else "holds")
        (if nul then "meta:nul" else "meta")
    | none => badReq "hex"
  | "wfile17", _ => RpmVerif.Driver.WithFile.handle false args impl
  | "layout", [l] =>
    -- several destinations in one package: `build()` succeeds iff every destination can be split (add_data),
    -- whatever the shape of the tree; never a panic
    match (l.splitOn ",").mapM bytesOfHex with
    | some ds =>
      let allOk := ds.all fun d => match addDataRaw d with | .ok _ => true | _ => false
      let m := if allOk then "ok" else "err:InvalidDestinationPath"
      answer m (if isPanicObs impl then "fails:" ++ clsBuilderPanic else "holds") s!"layout-{min ds.length 4}-{if allOk then "ok" else "err"}"
    | none => badReq "hex"
  | _, _ => badReq "op"

def ops : List String := ["build17", "wfile17", "layout", "dest", "pcomps", "pparent", "pfilename", "pstrip", "pjoin", "level", "levelnb", "leveld", "leveldnb", "tsset", "capsset", "meta"]

end RpmVerif.Driver.C17
