import RpmVerif.Driver.Common
import RpmVerif.Driver.Hash
import RpmVerif.Model.Sign
import RpmVerif.Model.SignE
import RpmVerif.Spec.Digest
import RpmVerif.Model.Io
import RpmVerif.Model.BufWriter
/-! Driver for C10. Op `hist <kind> <start package bytes> <ops> <ids> [gpg]` (see harness/src/c10.rs).

Observation: one record for the start state and one per step, joined by `;`:
`<verify bits R P E C>,<key ids | err>,<digests ok|err>,<fnv main header>,<fnv content>,<res>[,<gpgv>]`, `res` = `-` |
`t<creation time>` / `tnow` (a fresh signature) | `e:<error class>` (a refused signing attempt); `E:<op>` / `P:<op>` end a
history (failed step / panic).

Model: the Lean parser on the start package, then `Sign.attemptF` / `Sign.settle` (`Model/SignE.lean`: `sign_with_timestamp`
/ `sign` with the timestamp conversion, the signer's answer and `SignatureHeaderBuilder::build` as fallible steps, a
refusal leaving the package as it was) per op with the SYMBOLIC scheme `Sign.Sym`
(keys 0..3 = R P E C; a signature is an opaque token; key ids from the request's table, which the harness
computes from the public key files per RFC 4880 without going through rpm-rs), `verifyWith` per key,
`keyIds`, `verifyDigests` with the driver's own MD5 / SHA-1 / SHA-256. A foreign (real OpenPGP) signature in the
start package verifies with none of the symbolic keys; its issuer is read with a minimal packet parser.

Spec, from the op list and the raw start bytes alone: after every step the verify bits are exactly
{the key that signed most recently with no clear since}; the reported key ids are exactly that key's id
(cleared, or an untouched unsigned built package: the call must be an error; an untouched foreign package:
not judged); digests verify; main header and payload hash to the start package's (`rawHeader` / `rawContent`
of the input bytes); a fresh signature is accepted by gpgv when that oracle ran; no step fails. -/
namespace RpmVerif.Driver.C10
open RpmVerif.Hdr RpmVerif.Sign RpmVerif.Driver RpmVerif.Gen

def sigTime : Nat := 1600000000

/-! ### issuer of a real OpenPGP signature packet (foreign signatures of the asset packages) -/

/-- new-format / subpacket length: (value, octets used) -/
def newLen : Bytes → Option (Nat × Nat)
  | a :: r =>
    if a.toNat < 192 then some (a.toNat, 1)
    else if a.toNat < 224 then
      match r with
      | b :: _ => some ((a.toNat - 192) * 256 + b.toNat + 192, 2)
      | _ => none
    else if a.toNat == 255 then
      match r with
      | b :: c :: d :: e :: _ => some (b.toNat * 16777216 + c.toNat * 65536 + d.toNat * 256 + e.toNat, 5)
      | _ => none
    else none
  | _ => none

/-- subpacket lengths: 192..254 start a two-octet length -/
def subLen : Bytes → Option (Nat × Nat)
  | a :: r =>
    if a.toNat < 192 then some (a.toNat, 1)
    else if a.toNat < 255 then
      match r with
      | b :: _ => some ((a.toNat - 192) * 256 + b.toNat + 192, 2)
      | _ => none
    else
      match r with
      | b :: c :: d :: e :: _ => some (b.toNat * 16777216 + c.toNat * 65536 + d.toNat * 256 + e.toNat, 5)
      | _ => none
  | _ => none

/-- Issuer (type 16) subpackets of one subpacket area -/
def issuerSubs : Nat → Bytes → List Bytes
  | 0, _ => []
  | fuel + 1, area =>
    match subLen area with
    | none => []
    | some (len, used) =>
      let body := (area.drop used).take len
      let rest := area.drop (used + len)
      if len == 0 then [] else
      let ty := (body.headD 0).toNat % 128
      (if ty == 16 && len == 9 then [body.drop 1] else []) ++ issuerSubs fuel rest

/-- tag and body of the first OpenPGP packet of `s` -/
def firstPacket (s : Bytes) : Option (Nat × Bytes) :=
  match s with
  | b0 :: r =>
    if b0.toNat < 128 then none else
      if b0.toNat < 192 then
        -- old format: tag in bits 5..2, length type in bits 1..0
        let tag := (b0.toNat / 4) % 16
        match b0.toNat % 4, r with
        | 0, a :: r' => some (tag, r'.take a.toNat)
        | 1, a :: b :: r' => some (tag, r'.take (a.toNat * 256 + b.toNat))
        | 2, a :: b :: c :: d :: r' => some (tag, r'.take (a.toNat * 16777216 + b.toNat * 65536 + c.toNat * 256 + d.toNat))
        | 3, r' => some (tag, r')
        | _, _ => none
      else
        match newLen r with
        | some (len, used) => some (b0.toNat % 64, (r.drop used).take len)
        | none => none
  | _ => none

/-- `parse_signature(..)?.issuer()` for a real signature packet: v2/v3 issuer field, v4 Issuer subpackets
(hashed area first, then unhashed) -/
def pgpIssuers (s : Bytes) : Option (List Bytes) :=
  match firstPacket s with
  | some (2, body) =>
    match body with
    | ver :: rest =>
      if ver == 2 || ver == 3 then
        -- hashed length (5), type, time (4), key id (8)
        if rest.length ≥ 14 then some [(rest.drop 6).take 8] else none
      else if ver == 4 then
        match rest with
        | _ :: _ :: _ :: h1 :: h2 :: rest' =>
          let hl := h1.toNat * 256 + h2.toNat
          let hashed := rest'.take hl
          match rest'.drop hl with
          | u1 :: u2 :: rest'' =>
            let ul := u1.toNat * 256 + u2.toNat
            some (issuerSubs hl hashed ++ issuerSubs ul (rest''.take ul))
          | _ => none
        | _ => none
      else none
    | _ => none
  | _ => none

/-- `parse_signature(..)?.config.pub_alg` for a real signature packet (v4: version, type, ALGORITHM; v2/v3: after the
hashed material, time and key id) -/
def pgpPubAlg (s : Bytes) : Option Nat :=
  match firstPacket s with
  | some (2, body) =>
    match body with
    | ver :: rest =>
      if ver == 2 || ver == 3 then (if rest.length ≥ 17 then (rest.drop 14).head?.map (·.toNat) else none)
      else if ver == 4 then (if rest.length ≥ 9 then (rest.drop 1).head?.map (·.toNat) else none)
      else none
    | _ => none
  | _ => none

/-- key ids are compared as the lower-case hex text the library prints -/
def hexText (bs : Bytes) : Bytes := (hexOfBytes bs).toUTF8.toList

/-- the symbolic scheme of the model (`Sign.Sym.scheme`), with real packets handed to the packet reader.
(The real base64 decoder is never needed: foreign packages carry binary legacy tags only.) -/
@[reducible] def scheme (ids : UInt8 → Bytes) : SigScheme where
  Key := UInt8
  decEq := inferInstance
  sign := Sym.sign
  verify := Sym.verify
  issuer := fun s => match Sym.signerOf s with
    | some k => some [ids k]
    | none => (pgpIssuers s).map fun l => l.map hexText
  keyId := ids
  legacyTag := (Sym.scheme ids).legacyTag
  b64enc := Sym.enc
  b64dec := Sym.dec

/-- `parse_signature(sig)?.config.pub_alg`: a token names its key (`Sym.pubAlg`); anything else is read as a real packet -/
def pubAlgOf (s : Bytes) : Option Nat :=
  match Sym.pubAlg s with
  | some a => some a
  | none => pgpPubAlg s

/-! ### request decoding -/

def keyIndex (c : Char) : Option UInt8 :=
  if c == 'R' then some 0 else if c == 'P' then some 1 else if c == 'E' then some 2 else if c == 'C' then some 3 else none

/-- the wall clock the model assumes for `Package::sign` (any reading inside the range: nothing observed depends on it
but the creation time, which the harness reports as `tnow`) -/
def assumedClock : Timestamp.Instant := ⟨1700000000, 0, by decide⟩

/-- `<kind>:<secs>:<nanos>` → the timestamp argument -/
def parseTs (s : String) : Option AddData.TsArg :=
  match s.splitOn ":" with
  | [kind, secs, nanos] =>
    match secs.toInt?, nanos.toNat? with
    | some sc, some n =>
      if h : n < 1000000000 then
        let inst : Timestamp.Instant := ⟨sc, n, h⟩
        if kind == "u32" then (if 0 ≤ sc && sc < 4294967296 && n == 0 then some (.secs sc.toNat) else none)
        else if kind == "sys" then some (.src (.sys inst))
        else if kind == "utc" then some (.src (.chrono ⟨inst, 0⟩))
        else if kind == "fix" then some (.src (.chrono ⟨inst, 20700⟩))
        else none
      else none
    | _, _ => none
  | _ => none

/-- a step of the harness (see harness/src/c10.rs): `s<K>` / `S<K>` / `s<K>@<ts>` sign_with_timestamp with a usable key,
`n<K>` Package::sign, `xP` / `xF` signers that refuse (locked key: SignError; foreign implementation: KeyNotFoundError),
`r<hex>` a foreign implementation answering with these bytes, `c`, `w` -/
def parseOp (s : String) : Option (OpF UInt8) :=
  if s == "c" then some .clear
  else if s == "w" || s == "W" then some .writeParse
  else
    let (head, ts?) : String × Option (Option AddData.TsArg) := match s.splitOn "@" with
      | [h, t] => (h, some (parseTs t))
      | _ => (s, none)
    match ts? with
    | some none => none
    | _ =>
      let ts : Option AddData.TsArg := ts?.bind id
      match head.toList with
      | ['s', c] => (keyIndex c).map fun k => .sign (.key k) (ts.getD (.secs sigTime))
      | ['S', c] => if ts.isSome then none else (keyIndex c).map fun k => .sign (.key k) (.secs 4000000000)
      | ['n', c] => if ts.isSome then none else (keyIndex c).map fun k => .signNow (.key k) assumedClock
      | ['x', 'P'] => some (.sign (.failing "SignError") (ts.getD (.secs sigTime)))
      | ['x', 'F'] => some (.sign (.failing "KeyNotFoundError") (ts.getD (.secs sigTime)))
      | 'r' :: hex => (bytesOfHex (String.ofList hex)).map fun b => .sign (.raw b) (ts.getD (.secs sigTime))
      | _ => none

def parseOps (s : String) : Option (List (String × OpF UInt8)) :=
  if s == "-" then some [] else (s.splitOn ",").mapM fun t => (parseOp t).map fun o => (t, o)

/-- `R=<hex>,P=…,E=…,C=…` → text of the id per key index -/
def parseIds (s : String) : UInt8 → Bytes :=
  let tab : List (UInt8 × Bytes) := (s.splitOn ",").filterMap fun kv =>
    match kv.splitOn "=" with
    | [k, v] => match k.toList with
      | [c] => (keyIndex c).map fun i => (i, v.toUTF8.toList)
      | _ => none
    | _ => none
  fun k => ((tab.find? (·.1 == k)).map (·.2)).getD [63]

def textOf (bs : Bytes) : String := (String.fromUTF8? (ByteArray.mk bs.toArray)).getD "?"

/-! ### records -/

structure Hashes where
  md5 : Bytes → Bytes
  sha1 : Bytes → Bytes
  sha256 : Bytes → Bytes

/-- the three digests with the values for the (never changing) header / payload byte strings computed once -/
def cachedHashes (hb content : Bytes) : Hashes :=
  let all := hb ++ content
  let m := Hash.md5L all
  let s1 := Hash.sha1L hb
  let s2h := Hash.sha256L hb
  let s2c := Hash.sha256L content
  { md5 := fun x => if x == all then m else Hash.md5L x
    sha1 := fun x => if x == hb then s1 else Hash.sha1L x
    sha256 := fun x => if x == hb then s2h else if x == content then s2c else Hash.sha256L x }

def idsStr : Out (List Bytes) → String
  | .ok [] => "none"
  | .ok l => "+".intercalate (l.map textOf)
  | _ => "err"

/-- model record of one state; `res` = last column; `gpgField` = what to print in the gpgv column (none: column absent) -/
def recordR (ids : UInt8 → Bytes) (H : Hashes) (p : Package) (res : String) (gpgField : Option String) : String :=
  let S := scheme ids
  let bits := String.ofList (([0, 1, 2, 3] : List UInt8).map fun k =>
    if (verifyWith S H.md5 H.sha1 H.sha256 k p).isOk then '1' else '0')
  let dig := if (Digest.verifyDigests H.md5 H.sha1 H.sha256 p).isOk then "ok" else "err"
  let base := s!"{bits},{idsStr (keyIds S p)},{dig},{hex16 (fnv (writeHeader p.md.header))},{hex16 (fnv p.content)},{res}"
  match gpgField with
  | some g => base ++ "," ++ g
  | none => base

/-- a signing with one of the four keys (the gpgv oracle applies to its result) -/
def isKeySign : OpF UInt8 → Bool
  | .sign (.key _) _ => true
  | .signNow (.key _) _ => true
  | _ => false

/-- the creation time a successful signing step reports -/
def createdStr : OpF UInt8 → String
  | .sign _ t => match AddData.timestampSetter t with | .ok n => "t" ++ toString n | _ => "t?"
  | .signNow _ _ => "tnow"
  | _ => "-"

/-- a foreign signer's bytes carry no creation time the harness could read unless they are a real packet with one; the
hand-made packets have no sub-packets -/
def resOfSuccess (o : OpF UInt8) : String :=
  match o with
  | .sign (.raw _) _ => "t?"
  | .signNow (.raw _) _ => "t?"
  | _ => createdStr o

/-- the gpgv column of impl record `i` (the model does not predict whether the tool could run) -/
def implGpg (implRecs : List String) (i : Nat) : String :=
  ((implRecs.getD i "").splitOn ",").getD 6 ""

/-- `Package::write_file(path)` then `Package::open(path)` (std's BufWriter / BufReader capacity 8192, a file that accepts
everything and hands out whatever is asked) -/
def writeFileOpen (p : Package) : Out Package :=
  let ds := (Io.prog p).map Io.Act.buf
  let f := Io.writeFile 8192 ds (List.replicate (ds.length + 4) (Io.Resp.ok ((writePackage p).length + 1)))
  match f.2 with
  | .ok => Io.parseChunked f.1 (List.replicate (f.1.length / 8192 + 8) (Io.Chunk.size 8192))
  | _ => .err "io"

/-- model observation: records of the start state and of every step -/
def modelObs (ids : UInt8 → Bytes) (H : Hashes) (p0 : Package)
    (opsL : List (String × OpF UInt8)) (gpg : Bool) (implRecs : List String) : String :=
  let S := scheme ids
  let rec go (p : Package) (rest : List (String × OpF UInt8)) (i : Nat) (acc : List String) : List String :=
    match rest with
    | [] => acc.reverse
    | (name, o) :: os =>
      match o with
      | .writeParse =>
        -- `w` = `write` into a Vec + `parse` of the slice (`Sign.writeParse`); `W` = `write_file` + `Package::open`: the same
        -- step through `Io.writeFile` (BufWriter of std's capacity around an accepting file) and `Io.parseChunked` (BufReader
        -- chunks) — equal to `writeParse` by C14.write_file_then_open, here COMPUTED so that the tie sees a difference
        match (if name == "W" then writeFileOpen p else stepF S pubAlgOf H.sha256 o p) with
        | .ok q => go q os (i + 1) (recordR ids H q "-" (if gpg then some "-" else none) :: acc)
        | _ => (("E:" ++ name) :: acc).reverse
      | _ =>
        match attemptF S pubAlgOf H.sha256 o p with
        | .ok q =>
          let g := if !gpg then none
            else if isKeySign o then some (if implGpg implRecs i == "skipped" then "skipped" else "ok")
            else some "-"
          let res := match o with | .clear => "-" | _ => resOfSuccess o
          go q os (i + 1) (recordR ids H q res g :: acc)
        | .err c =>
          -- a refused attempt: the package is what it was (`Sign.settle`)
          go p os (i + 1) (recordR ids H p ("e:" ++ c) (if gpg then some "-" else none) :: acc)
        | .panic _ => (("P:" ++ name) :: acc).reverse
  ";".intercalate (go p0 opsL 1 [recordR ids H p0 "-" (if gpg then some "-" else none)])

/-! ### spec -/

/-- what the spec tracks: has any sign / clear happened, and who signed last since the last clear -/
structure SpecState where
  touched : Bool
  signer : Option UInt8

/-- how the property reads a step, from the request alone -/
inductive SpecOp where
  | sign (k : UInt8)   -- a signing with one of the keys, at a time a `Timestamp` can hold
  | clear
  | writeParse
  | refused            -- a signing attempt by a signer that refuses: not a signing, nothing may change
  | foreign            -- a signer outside the property's alphabet answering with bytes of its own
  | outOfRange         -- a `SystemTime` / `DateTime` no `Timestamp` can hold: not a valid operation (the conversion is
                       -- unwrapped: defect class `timestamp-setter-panic`, known finding of C17)

def tsInRange : AddData.TsArg → Bool
  | .secs _ => true
  | .src s => decide (0 ≤ s.instant.secs ∧ s.instant.secs < 4294967296)

def specOp : OpF UInt8 → SpecOp
  | .clear => .clear
  | .writeParse => .writeParse
  | .signNow (.key k) _ => .sign k
  | .signNow (.failing _) _ => .refused
  | .signNow (.raw _) _ => .foreign
  | .sign sg t =>
    if !tsInRange t then .outOfRange else
    match sg with
    | .key k => .sign k
    | .failing _ => .refused
    | .raw _ => .foreign

def SpecState.after (s : SpecState) : SpecOp → SpecState
  | .sign k => ⟨true, some k⟩
  | .clear => ⟨true, none⟩
  | _ => s

/-- verdict marker for "the property does not speak about this history" -/
def silent : String := "~"

/-- first demand of the property one record violates -/
def judgeRecord (kind : String) (ids : UInt8 → Bytes) (hdrFnv contFnv : String) (gpg : Bool)
    (s : SpecState) (fresh : Bool) (rec : String) : Option String :=
  if rec.startsWith "E:" then some "step-failed"
  else if rec.startsWith "P:" then some "step-panicked"
  else if rec.startsWith "U:" then some silent
  else
  match rec.splitOn "," with
  | bits :: kid :: dig :: h :: c :: _res :: rest =>
    let wantBits := String.ofList ((List.range 4).map fun i => if s.signer == some i.toUInt8 then '1' else '0')
    if bits != wantBits then
      some (if s.signer.isSome && bits == "0000" then "signer-does-not-verify"
            else if s.signer.isNone then "verifies-without-signer" else "other-key-verifies")
    else if (match s.signer with
        | some k => kid != textOf (ids k)
        | none => if s.touched || kind != "file" then kid != "err" else false) then some "key-ids"
    else if dig != "ok" then some "digests"
    else if h != hdrFnv then some "header-changed"
    else if c != contFnv then some "payload-changed"
    else if gpg then
      match rest with
      | [g] => if fresh then (if g == "ok" || g == "skipped" then none else some "gpgv-rejects") else
                 (if g == "-" then none else some "record-shape")
      | _ => some "record-shape"
    else if rest.isEmpty then none else some "record-shape"
  | _ => some "record-shape"

def endsHistory (r : String) : Bool := r.startsWith "E:" || r.startsWith "P:" || r.startsWith "U:"

/-- the last column of a record -/
def resOf (r : String) : String := (r.splitOn ",").getD 5 ""

def judge (kind : String) (ids : UInt8 → Bytes) (hdrFnv contFnv : String) (gpg : Bool) (opsL : List (String × OpF UInt8))
    (implRecs : List String) : Option String :=
  if implRecs.length != opsL.length + 1 && !(implRecs.getLast?.map endsHistory).getD false then some "record-count" else
  let rec go (s : SpecState) (fresh : Bool) (recs : List String) (rest : List (String × OpF UInt8)) : Option String :=
    match recs with
    | [] => none
    | r :: rs =>
      match judgeRecord kind ids hdrFnv contFnv gpg s fresh r with
      | some v => some v
      | none =>
        match rest with
        | [] => if rs.isEmpty then none else some "record-count"
        | (_, o) :: os =>
          match specOp o with
          | .outOfRange => some silent
          | .foreign =>
            -- turned down by `build`: a refused attempt, nothing may change; accepted: not one of the property's operations
            match rs with
            | r2 :: _ => if (resOf r2).startsWith "e:" then go s false rs os else some silent
            | [] => none
          | so => go (s.after so) (match so with | .sign _ => true | _ => false) rs os
  go ⟨false, none⟩ false implRecs opsL

def keyLetter (k : UInt8) : String := String.ofList [(['R', 'P', 'E', 'C'] : List Char).getD k.toNat '?']

/-- branch label: start kind, length, final signature state, and which of the special step forms occur -/
def histLabel (kind : String) (opsL : List (String × OpF UInt8)) : String :=
  let sops := opsL.map fun x => specOp x.2
  let oor := sops.any fun | .outOfRange => true | _ => false
  let upto := sops.takeWhile fun | .outOfRange => false | _ => true
  let final : SpecState := upto.foldl SpecState.after ⟨false, none⟩
  let fin := match final.signer with
    | some k => "signed" ++ keyLetter k
    | none => if final.touched then "cleared" else "untouched"
  let has (f : OpF UInt8 → Bool) (tag : String) : String := if opsL.any (fun x => f x.2) then tag else ""
  let special :=
    (if oor then "-tsoutofrange(timestamp-setter-panic)" else "")
    ++ (if sops.any (fun | .refused => true | _ => false) then "-refused" else "")
    ++ (if sops.any (fun | .foreign => true | _ => false) then "-foreign" else "")
    ++ has (fun | .sign _ (.src _) => true | _ => false) "-tsconv"
    ++ has (fun | .signNow _ _ => true | _ => false) "-now"
    ++ has (fun | .sign (.key _) (.secs t) => t != sigTime | _ => false) "-othertime"
    ++ (if opsL.any (fun x => x.1 == "W") then "-wfile" else "")
  s!"{kind}-len{opsL.length}-{fin}{special}"

def handleHist (args : List String) (impl : String) : String :=
  match args with
  | kind :: blob :: opsS :: idsS :: more =>
    let gpg := more == ["gpg"]
    match bytesOfHex blob, parseOps opsS with
    | some bs, some opsL =>
      let ids := parseIds idsS
      match parsePackage bs with
      | .ok p0 =>
        let hb := writeHeader p0.md.header
        let H := cachedHashes hb p0.content
        let implRecs := impl.splitOn ";"
        let model := modelObs ids H p0 opsL gpg implRecs
        -- where the model mirrors the unwrap panic and the implementation does NOT panic (a repaired conversion, however
        -- it then behaves), nothing is predicted: the spec alone judges (it is silent there)
        let firstOor := (opsL.map fun x => specOp x.2).findIdx? fun | .outOfRange => true | _ => false
        let model := match firstOor with
          | some i => if ((implRecs.getD (i + 1) "P:").startsWith "P:") then model else "*"
          | none => model
        -- the spec looks at the raw bytes, not at the model's parse
        let hdrFnv := hex16 (fnv (DigestSpec.rawHeader bs))
        let contFnv := hex16 (fnv (DigestSpec.rawContent bs))
        let verdict := match judge kind ids hdrFnv contFnv gpg opsL implRecs with
          | none => "holds"
          | some v => if v == silent then "dontcare" else "fails:" ++ v
        answer model verdict (histLabel kind opsL)
      | _ => answer "start-err" (if impl == "start-err" then "dontcare" else "fails:accepted-what-model-rejects") "start-rejected"
    | _, _ => badReq "args"
  | _ => badReq "args"

/-! ### the scraped tables and the signer's configuration (ops `sgbuild`, `sgnew`, `vfload`, `sgcfg`, `sgcfgk`, `tsopt`) -/

def algTypeName : Gen.SigAlgs.AlgorithmType → String
  | .RSA => "RSA" | .ECDSA => "ECDSA" | .EdDSA => "EdDSA"

def algTypeOfName (s : String) : Option Gen.SigAlgs.AlgorithmType :=
  Gen.SigAlgs.AlgorithmType.all.find? fun a => algTypeName a == s

def algLabel (n : Nat) : String :=
  if (legacyTagOf n).isSome then s!"alg{n}" else if Gen.SigAlgs.pgpNamedAlgs.contains n then "named-unsupported" else "unknown-alg"

def outAlgStr : Out Gen.SigAlgs.AlgorithmType → String
  | .ok a => "ok " ++ algTypeName a
  | .err c => "err:" ++ c
  | .panic _ => "panic"

def subTypeOf : Subpacket → Nat
  | .created _ => 2 | .issuer _ => 16 | .fingerprint _ => 33 | .other t => t

def commaList (l : List String) : String := if l.isEmpty then "-" else ",".intercalate l

/-- the text harness/src/c10.rs `describe_sig` prints for a packet with this configuration -/
def describeConfig (c : SigConfig) : String :=
  let created := match c.created with | some t => toString t | none => "-"
  s!"v={c.version} typ={c.typ} alg={c.pubAlg} hash={c.hashAlg} hashed={commaList (c.hashed.map fun x => toString (subTypeOf x))} " ++
  s!"unhashed={commaList (c.unhashed.map fun x => toString (subTypeOf x))} created={created} " ++
  s!"issuers={commaList (c.issuers.map hexOfBytes)} fps={commaList (c.fingerprints.map hexOfBytes)}"

/-- `<pgp::Signer as Signing>::sign` up to the cryptography: the configuration of the packet, or how it fails -/
def signerConfigObs (a : Out Gen.SigAlgs.AlgorithmType) (t : Nat) (keyId fp : Bytes) : String :=
  match a with
  | .ok alg =>
    match signerCreated t with
    | .ok created => describeConfig (mkConfig alg keyId fp created)
    | .err c => "err:" ++ c
    | .panic _ => "panic"
  | .err c => "err:" ++ c
  | .panic _ => "panic"

def field (obs name : String) : Option String :=
  (obs.splitOn " ").findSome? fun kv => match kv.splitOn "=" with
    | [k, v] => if k == name then some v else none
    | _ => none

/-- what C10 (exactly the signer's key id is reported) and C11 (creation time = the timestamp) need of the packet -/
def judgeConfig (impl : String) (t : Nat) (keyIdHex : String) : String :=
  if impl.startsWith "v=" then
    if field impl "issuers" != some keyIdHex then "fails:issuer-subpackets"
    else if field impl "created" != some (toString t) then "fails:creation-time"
    else "holds"
  else if impl == "panic" then "fails:signer-panic"
  else "holds"

def handleTable (op : String) (args : List String) (impl : String) : String :=
  match op, args with
  | "sgbuild", [a] =>
    match a.toNat? with
    | some n =>
      let m := match legacyTagOf n with | some t => s!"ok {t}" | none => "err:UnsupportedPGPKeyType"
      -- C09: tags strictly ascending in the signature header needs the legacy tag to be RPMSIGTAG_RSA / RPMSIGTAG_DSA
      let v := if impl.startsWith "ok " then
          (if impl == s!"ok {Gen.SigTag.RPMSIGTAG_RSA}" || impl == s!"ok {Gen.SigTag.RPMSIGTAG_DSA}" then "holds" else "fails:legacy-tag-range")
        else "holds"
      answer m v ("sgbuild-" ++ algLabel n)
    | none => badReq "alg"
  | "sgnew", [a] =>
    match a.toNat? with
    | some n =>
      if impl == "unparsable" then answer "*" "dontcare" "sgnew-unparsable" else
      -- a signer that could be constructed never makes `build` answer UnsupportedPGPKeyType
      let v := match (impl.splitOn " ") with
        | ["ok", name] => match algTypeOfName name with
          | some t => if (legacyTagOf (toPgp t)).isSome && toPgp t == n then "holds" else "fails:signer-algorithm-unsupported-by-build"
          | none => "fails:signer-algorithm-unsupported-by-build"
        | _ => "holds"
      answer (outAlgStr (signerNew n)) v ("sgnew-" ++ (if (signerNew n).isOk then s!"alg{n}" else algLabel n))
    | none => badReq "alg"
  | "vfload", [a] =>
    match a.toNat? with
    | some n =>
      if impl == "unparsable" then answer "*" "dontcare" "vfload-unparsable" else
      -- every key a signer can be made from loads as a verifier
      let v := if (signerNew n).isOk && !impl.startsWith "ok " then "fails:verifier-rejects-signer-key" else "holds"
      answer (outAlgStr (verifierLoad n)) v ("vfload-" ++ (if (verifierLoad n).isOk then s!"alg{n}" else algLabel n))
    | none => badReq "alg"
  | "sgcfg", [a, t, kid, fp] =>
    match a.toNat?, t.toNat?, bytesOfHex kid, bytesOfHex fp with
    | some n, some t, some k, some f =>
      if impl == "unparsable" then answer "*" "dontcare" "sgcfg-unparsable" else
      answer (signerConfigObs (signerNew n) t k f) (judgeConfig impl t kid)
        ("sgcfg-" ++ (if (signerNew n).isOk then s!"alg{n}" else "refused") ++ (if t == 0 then "-t0" else if t == 4294967295 then "-tmax" else ""))
    | _, _, _, _ => badReq "args"
  | "sgcfgk", [key, t, kid, fp] =>
    match key.toList, t.toNat?, bytesOfHex kid, bytesOfHex fp with
    | [c], some t, some k, some f =>
      match keyIndex c with
      | some i => answer (signerConfigObs (.ok (Sym.algOf i)) t k f) (judgeConfig impl t kid) s!"sgcfgk-{key}"
      | none => badReq "key"
    | _, _, _, _ => badReq "args"
  | "tsopt", [sc, ns] =>
    match sc.toInt?, ns.toNat? with
    | some secs, some nsecs =>
      let m := match chronoTimestampOpt secs nsecs with | some (s', n') => s!"single {s'} {n'}" | none => "none"
      let region := if secs < chronoMinSecs then "below" else if secs > chronoMaxSecs then "above"
        else if nsecs ≥ 1000000000 then "leap-notation" else if 0 ≤ secs && secs < 4294967296 then "u32" else "inside"
      -- the property says nothing about chrono: this ties the model of the library function to the library
      answer m "dontcare" ("tsopt-" ++ region)
    | _, _ => badReq "args"
  | _, _ => badReq "op"

def ops : List String := ["hist", "sgbuild", "sgnew", "vfload", "sgcfg", "sgcfgk", "tsopt"]

def handle (op : String) (args : List String) (impl : String) : String :=
  if op == "hist" then handleHist args impl else handleTable op args impl

end RpmVerif.Driver.C10
