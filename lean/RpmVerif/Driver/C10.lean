import RpmVerif.Driver.Common
import RpmVerif.Driver.Hash
import RpmVerif.Model.Sign
import RpmVerif.Spec.Digest
/-! Driver for C10. Op `hist <kind> <start package bytes> <ops> <ids> [gpg]` (see harness/src/c10.rs).

Observation: one record for the start state and one per step, joined by `;`:
`<verify bits R P E C>,<key ids | err>,<digests ok|err>,<fnv main header>,<fnv content>[,<gpgv>]`.

Model: the Lean parser on the start package, then `Sign.step` per op with the SYMBOLIC scheme `Sign.Sym`
(keys 0..3 = R P E C; a signature is an opaque token; key ids from the request's table, which the harness
computes from the public key files per RFC 4880 without going through rpm-rs), `verifyWith` per key,
`keyIds`, `verifyDigests` with the driver's own MD5 / SHA-1 / SHA-256. A foreign (real OpenPGP) signature in the
start package verifies with none of the symbolic keys; its issuer is read with a minimal packet parser.

Spec, from the op list and the raw start bytes alone: after every step the verify bits are exactly
{the key that signed most recently with no clear since}; the reported key ids are exactly that key's id
(cleared, or an untouched unsigned built package: the call must be an error; an untouched foreign package:
not judged); digests verify; main header and payload hash to the start package's (`rawHeader` / `rawContent`
of the input bytes); a fresh signature is accepted by gpgv when that oracle ran; no step fails. -/
namespace RpmVerif.Driver.C10
open RpmVerif.Hdr RpmVerif.Sign RpmVerif.Driver RpmVerif.Gen

def ops : List String := ["hist"]

def sigTime : Nat := 1600000000

/-! ### issuer of a real OpenPGP signature packet (foreign signatures of the asset packages) -/

/-- new-format / subpacket length: (value, octets used) -/
def newLen : Bytes → Option (Nat × Nat)
  | a :: r =>
    if a.toNat < 192 then some (a.toNat, 1)
    else if a.toNat < 224 then
      match r with
      | b :: _ => some ((a.toNat - 192) * 256 + b.toNat + 192, 2)
      | _ => none
    else if a.toNat == 255 then
      match r with
      | b :: c :: d :: e :: _ => some (b.toNat * 16777216 + c.toNat * 65536 + d.toNat * 256 + e.toNat, 5)
      | _ => none
    else none
  | _ => none

/-- subpacket lengths: 192..254 start a two-octet length -/
def subLen : Bytes → Option (Nat × Nat)
  | a :: r =>
    if a.toNat < 192 then some (a.toNat, 1)
    else if a.toNat < 255 then
      match r with
      | b :: _ => some ((a.toNat - 192) * 256 + b.toNat + 192, 2)
      | _ => none
    else
      match r with
      | b :: c :: d :: e :: _ => some (b.toNat * 16777216 + c.toNat * 65536 + d.toNat * 256 + e.toNat, 5)
      | _ => none
  | _ => none

/-- Issuer (type 16) subpackets of one subpacket area -/
def issuerSubs : Nat → Bytes → List Bytes
  | 0, _ => []
  | fuel + 1, area =>
    match subLen area with
    | none => []
    | some (len, used) =>
      let body := (area.drop used).take len
      let rest := area.drop (used + len)
      if len == 0 then [] else
      let ty := (body.headD 0).toNat % 128
      (if ty == 16 && len == 9 then [body.drop 1] else []) ++ issuerSubs fuel rest

/-- `parse_signature(..)?.issuer()` for a real signature packet: v2/v3 issuer field, v4 Issuer subpackets
(hashed area first, then unhashed) -/
def pgpIssuers (s : Bytes) : Option (List Bytes) :=
  match s with
  | b0 :: r =>
    if b0.toNat < 128 then none else
    let hdr : Option (Nat × Bytes) :=
      if b0.toNat < 192 then
        -- old format: tag in bits 5..2, length type in bits 1..0
        let tag := (b0.toNat / 4) % 16
        match b0.toNat % 4, r with
        | 0, a :: r' => some (tag, r'.take a.toNat)
        | 1, a :: b :: r' => some (tag, r'.take (a.toNat * 256 + b.toNat))
        | 2, a :: b :: c :: d :: r' => some (tag, r'.take (a.toNat * 16777216 + b.toNat * 65536 + c.toNat * 256 + d.toNat))
        | 3, r' => some (tag, r')
        | _, _ => none
      else
        match newLen r with
        | some (len, used) => some (b0.toNat % 64, (r.drop used).take len)
        | none => none
    match hdr with
    | some (2, body) =>
      match body with
      | ver :: rest =>
        if ver == 2 || ver == 3 then
          -- hashed length (5), type, time (4), key id (8)
          if rest.length ≥ 14 then some [(rest.drop 6).take 8] else none
        else if ver == 4 then
          match rest with
          | _ :: _ :: _ :: h1 :: h2 :: rest' =>
            let hl := h1.toNat * 256 + h2.toNat
            let hashed := rest'.take hl
            match rest'.drop hl with
            | u1 :: u2 :: rest'' =>
              let ul := u1.toNat * 256 + u2.toNat
              some (issuerSubs hl hashed ++ issuerSubs ul (rest''.take ul))
            | _ => none
          | _ => none
        else none
      | _ => none
    | _ => none
  | _ => none

/-- key ids are compared as the lower-case hex text the library prints -/
def hexText (bs : Bytes) : Bytes := (hexOfBytes bs).toUTF8.toList

/-- the symbolic scheme of the model (`Sign.Sym.scheme`), with real packets handed to the packet reader.
(The real base64 decoder is never needed: foreign packages carry binary legacy tags only.) -/
@[reducible] def scheme (ids : UInt8 → Bytes) : SigScheme where
  Key := UInt8
  decEq := inferInstance
  sign := Sym.sign
  verify := Sym.verify
  issuer := fun s => match Sym.signerOf s with
    | some k => some [ids k]
    | none => (pgpIssuers s).map fun l => l.map hexText
  keyId := ids
  legacyTag := (Sym.scheme ids).legacyTag
  b64enc := Sym.enc
  b64dec := Sym.dec

/-! ### request decoding -/

def keyIndex (c : Char) : Option UInt8 :=
  if c == 'R' then some 0 else if c == 'P' then some 1 else if c == 'E' then some 2 else if c == 'C' then some 3 else none

/-- a step of the harness: `some op` = an operation of the model; `none` = a signing ATTEMPT that the signer refuses
(`xP`: the passphrase-protected key without its passphrase) — `sign` returns an error and the package must be
exactly what it was. `S<key>` signs with a creation time far in the future (4 000 000 000): verification does not
depend on any clock. -/
def parseOp (s : String) : Option (Option (Op UInt8)) :=
  if s == "c" then some (some .clear)
  else if s == "w" then some (some .writeParse)
  else match s.toList with
    | ['s', c] => (keyIndex c).map fun k => some (.sign k sigTime)
    | ['S', c] => (keyIndex c).map fun k => some (.sign k 4000000000)
    | ['x', c] => (keyIndex c).map fun _ => none
    | _ => none

def parseOps (s : String) : Option (List (Option (Op UInt8))) :=
  if s == "-" then some [] else (s.splitOn ",").mapM parseOp

/-- `R=<hex>,P=…,E=…,C=…` → text of the id per key index -/
def parseIds (s : String) : UInt8 → Bytes :=
  let tab : List (UInt8 × Bytes) := (s.splitOn ",").filterMap fun kv =>
    match kv.splitOn "=" with
    | [k, v] => match k.toList with
      | [c] => (keyIndex c).map fun i => (i, v.toUTF8.toList)
      | _ => none
    | _ => none
  fun k => ((tab.find? (·.1 == k)).map (·.2)).getD [63]

def textOf (bs : Bytes) : String := (String.fromUTF8? (ByteArray.mk bs.toArray)).getD "?"

/-! ### records -/

structure Hashes where
  md5 : Bytes → Bytes
  sha1 : Bytes → Bytes
  sha256 : Bytes → Bytes

/-- the three digests with the values for the (never changing) header / payload byte strings computed once -/
def cachedHashes (hb content : Bytes) : Hashes :=
  let all := hb ++ content
  let m := Hash.md5L all
  let s1 := Hash.sha1L hb
  let s2h := Hash.sha256L hb
  let s2c := Hash.sha256L content
  { md5 := fun x => if x == all then m else Hash.md5L x
    sha1 := fun x => if x == hb then s1 else Hash.sha1L x
    sha256 := fun x => if x == hb then s2h else if x == content then s2c else Hash.sha256L x }

def idsStr : Out (List Bytes) → String
  | .ok [] => "none"
  | .ok l => "+".intercalate (l.map textOf)
  | _ => "err"

/-- model record of one state; `gpgField` = what to print in the gpgv column (none: column absent) -/
def record (ids : UInt8 → Bytes) (H : Hashes) (p : Package) (gpgField : Option String) : String :=
  let S := scheme ids
  let bits := String.ofList (([0, 1, 2, 3] : List UInt8).map fun k =>
    if (verifyWith S H.md5 H.sha1 H.sha256 k p).isOk then '1' else '0')
  let dig := if (Digest.verifyDigests H.md5 H.sha1 H.sha256 p).isOk then "ok" else "err"
  let base := s!"{bits},{idsStr (keyIds S p)},{dig},{hex16 (fnv (writeHeader p.md.header))},{hex16 (fnv p.content)}"
  match gpgField with
  | some g => base ++ "," ++ g
  | none => base

def isSign : Op UInt8 → Bool | .sign _ _ => true | _ => false

/-- the gpgv column of impl record `i` (the model does not predict whether the tool could run) -/
def implGpg (implRecs : List String) (i : Nat) : String :=
  ((implRecs.getD i "").splitOn ",").getD 5 ""

/-- model observation: records of the start state and of every step -/
def modelObs (ids : UInt8 → Bytes) (H : Hashes) (p0 : Package)
    (opsL : List (Option (Op UInt8))) (gpg : Bool) (implRecs : List String) : String :=
  let rec go (p : Package) (rest : List (Option (Op UInt8))) (i : Nat) (acc : List String) : List String :=
    match rest with
    | [] => acc.reverse
    | none :: os => go p os (i + 1) (record ids H p (if gpg then some "-" else none) :: acc)   -- refused signing: unchanged
    | some o :: os =>
      match step (scheme ids) H.sha256 o p with
      | .ok q =>
        let g := if !gpg then none
          else if isSign o then some (if implGpg implRecs i == "skipped" then "skipped" else "ok")
          else some "-"
        go q os (i + 1) (record ids H q g :: acc)
      | _ =>
        let name := match o with | .sign k _ => "s" ++ String.ofList [(['R', 'P', 'E', 'C'] : List Char).getD k.toNat '?'] | .clear => "c" | .writeParse => "w"
        (("E:" ++ name) :: acc).reverse
  ";".intercalate (go p0 opsL 1 [record ids H p0 (if gpg then some "-" else none)])

/-! ### spec -/

/-- what the spec tracks: has any sign / clear happened, and who signed last since the last clear -/
structure SpecState where
  touched : Bool
  signer : Option UInt8

def SpecState.after (s : SpecState) : Op UInt8 → SpecState
  | .sign k _ => ⟨true, some k⟩
  | .clear => ⟨true, none⟩
  | .writeParse => s

/-- first demand of the property one record violates -/
def judgeRecord (kind : String) (ids : UInt8 → Bytes) (hdrFnv contFnv : String) (gpg : Bool)
    (s : SpecState) (fresh : Bool) (rec : String) : Option String :=
  if rec.startsWith "E:" then some "step-failed" else
  match rec.splitOn "," with
  | bits :: kid :: dig :: h :: c :: rest =>
    let wantBits := String.ofList ((List.range 4).map fun i => if s.signer == some i.toUInt8 then '1' else '0')
    if bits != wantBits then
      some (if s.signer.isSome && bits == "0000" then "signer-does-not-verify"
            else if s.signer.isNone then "verifies-without-signer" else "other-key-verifies")
    else if (match s.signer with
        | some k => kid != textOf (ids k)
        | none => if s.touched || kind != "file" then kid != "err" else false) then some "key-ids"
    else if dig != "ok" then some "digests"
    else if h != hdrFnv then some "header-changed"
    else if c != contFnv then some "payload-changed"
    else if gpg then
      match rest with
      | [g] => if fresh then (if g == "ok" || g == "skipped" then none else some "gpgv-rejects") else
                 (if g == "-" then none else some "record-shape")
      | _ => some "record-shape"
    else if rest.isEmpty then none else some "record-shape"
  | _ => some "record-shape"

def judge (kind : String) (ids : UInt8 → Bytes) (hdrFnv contFnv : String) (gpg : Bool) (opsL : List (Option (Op UInt8)))
    (implRecs : List String) : Option String :=
  if implRecs.length != opsL.length + 1 && !(implRecs.getLast?.map (·.startsWith "E:")).getD false then some "record-count" else
  let rec go (s : SpecState) (fresh : Bool) (recs : List String) (rest : List (Option (Op UInt8))) : Option String :=
    match recs with
    | [] => none
    | r :: rs =>
      match judgeRecord kind ids hdrFnv contFnv gpg s fresh r with
      | some v => some v
      | none =>
        match rest with
        | [] => if rs.isEmpty then none else some "record-count"
        | some o :: os => go (s.after o) (isSign o) rs os
        | none :: os => go s false rs os     -- a refused signing attempt is not a signing: nothing may change
  go ⟨false, none⟩ false implRecs opsL

def handle (_op : String) (args : List String) (impl : String) : String :=
  match args with
  | kind :: blob :: opsS :: idsS :: more =>
    let gpg := more == ["gpg"]
    match bytesOfHex blob, parseOps opsS with
    | some bs, some opsL =>
      let ids := parseIds idsS
      match parsePackage bs with
      | .ok p0 =>
        let hb := writeHeader p0.md.header
        let H := cachedHashes hb p0.content
        let implRecs := impl.splitOn ";"
        let model := modelObs ids H p0 opsL gpg implRecs
        -- the spec looks at the raw bytes, not at the model's parse
        let hdrFnv := hex16 (fnv (DigestSpec.rawHeader bs))
        let contFnv := hex16 (fnv (DigestSpec.rawContent bs))
        let verdict := match judge kind ids hdrFnv contFnv gpg opsL implRecs with
          | none => "holds"
          | some v => "fails:" ++ v
        let final : SpecState := opsL.foldl (fun (st : SpecState) o => match o with | some o => st.after o | none => st) ⟨false, none⟩
        let special := if opsL.any (·.isNone) then "-refused" else if opsL.any (fun o => match o with | some (.sign _ t) => t != sigTime | _ => false) then "-future" else ""
        let fin := match final.signer with
          | some k => "signed" ++ String.ofList [(['R', 'P', 'E', 'C'] : List Char).getD k.toNat '?']
          | none => if final.touched then "cleared" else "untouched"
        answer model verdict s!"{kind}-len{opsL.length}-{fin}{special}"
      | _ => answer "start-err" (if impl == "start-err" then "dontcare" else "fails:accepted-what-model-rejects") "start-rejected"
    | _, _ => badReq "args"
  | _ => badReq "args"

end RpmVerif.Driver.C10
