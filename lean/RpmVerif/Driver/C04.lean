import RpmVerif.Driver.Common
import RpmVerif.Model.Header
import RpmVerif.Model.PgpFraming
import RpmVerif.Model.Accessors
import RpmVerif.Driver.FileIterObs
import RpmVerif.Model.Io
/-! Driver for C04. Op `hostile BYTES`. The implementation's observation lists an outcome class per
read-side stage; the model predicts the parse stages (ok / err — it has no reachable panic, Props/C04)
and copies the classes of stages it does not model (accessors, `fmt` = Display / Debug of the parsed values, digests, …). Spec: no stage may be `panic`, the process may not
die (`abort`), no single allocation may exceed 64 MiB + 16·|input| (`alloc-excess`), and the file iterator must
end even for a consumer that keeps pulling after an error (`iter=runaway`: unbounded work / memory).
The `iter=` field of uncompressed payloads IS predicted: `Acc.getFileEntries` (the header's file list) +
`FileIter.collectMem` (`FileIterator::next` as a state machine on the in-memory stream, drained past error items like
`collect()` does) give the number of items, their Ok / Err classes and the hash of their paths and contents
(`iter=<k>:<classes>:<fnv>`, `iter=err` when `files()` itself fails); the model never says `runaway`
(Props/C04Readside `iterator_no_runaway`).

Op `hostsrc04 BYTES`: the same bytes through every source kind / entry point in the child (`parse=` slice, `cur=` io::Cursor,
`open=` / `opens=` Package::open on a file by `&Path` / `&str`, `bufr=` a 16-byte BufReader over the file, `mopen=`
PackageMetadata::open). Model: `parsePackage`, `Io.parseChunked` under an empty script / 8192-byte chunks / 16-byte chunks,
`Io.parseMetadataC` — all equal by C14.read_chunk_indep, here computed. Spec: as for `hostile` (no panic, no abort, no
excess allocation), and no source kind may ACCEPT what another rejects (class `source-kinds-differ`). -/
namespace RpmVerif.Driver.C04
open RpmVerif.Hdr RpmVerif.Driver

def ops : List String := ["hostile", "pgpframes", "hostsrc04"]

def clsOf {α} : Out α → String | .ok _ => "ok" | .err _ => "err" | .panic _ => "panic"

/-- `pgpframes BLOB`: the packet framing applied to a signature blob (`split_packets`, through the verification
hook): `none` or `ok:<len>,<len>,…`. Spec: every packet lies inside the blob and together they are the blob. -/
def framesHandle (bs : Bytes) (impl : String) : String :=
  let m := match RpmVerif.Pgp.splitPackets bs with
    | none => "none"
    | some ps => "ok:" ++ ",".intercalate (ps.map fun p => toString p.length)
  let v :=
    if impl == "none" then "holds"
    else if impl.startsWith "ok:" then
      let lens := ((impl.drop 3).toString.splitOn ",").filterMap (·.toNat?)
      let lens := if (impl.drop 3).toString.isEmpty then [] else lens
      if lens.foldl (· + ·) 0 == bs.length && lens.all (fun l => decide (1 ≤ l ∧ l ≤ bs.length)) then "holds"
      else "fails:packet-beyond-blob"
    else "fails:malformed"
  answer m v (match RpmVerif.Pgp.splitPackets bs with | none => "frames-refused" | some ps => s!"frames-{min ps.length 3}")

def chunks (n cap : Nat) : List Io.Chunk := List.replicate (n / cap + 8) (Io.Chunk.size cap)

def srcHandle (bs : Bytes) (impl : String) : String :=
  let n := bs.length
  let model := s!"parse={clsOf (parsePackage bs)} cur={clsOf (Io.parseChunked bs [])} open={clsOf (Io.parseChunked bs (chunks n 8192))} " ++
    s!"opens={clsOf (Io.parseChunked bs (chunks n 8192))} bufr={clsOf (Io.parseChunked bs (chunks n 16))} mopen={clsOf (Io.parseMetadataC ⟨bs, chunks n 8192⟩)}"
  let toks := (impl.splitOn " ").filter (· ≠ "")
  let bad := toks.filter fun t => t == "abort" || t.startsWith "alloc-excess" || t.endsWith "=panic"
  let pk := toks.filter fun t => ["parse=", "cur=", "open=", "opens=", "bufr="].any fun pre => t.startsWith pre
  let classes := (pk.map fun t => ((t.splitOn "=").getD 1 "")).eraseDups
  let verdict := match bad with
    | b :: _ => "fails:" ++ ((b.replace "=" "-").replace ":" "-")
    | [] => if classes.length > 1 then "fails:source-kinds-differ" else "holds"
  let errBranch := match parseMetadata bs with | .err c => c | .ok _ => "accepted" | .panic s => "panic-" ++ s
  answer model verdict ("src-meta-" ++ errBranch)

def handle (op : String) (args : List String) (impl : String) : String :=
  if op == "hostsrc04" then
    match args with
    | [hb] => match bytesOfHex hb with | some bs => srcHandle bs impl | none => badReq "hex"
    | _ => badReq "args"
  else
  if op == "pgpframes" then
    match args with
    | [hb] => match bytesOfHex hb with | some bs => framesHandle bs impl | none => badReq "hex"
    | _ => badReq "args"
  else
  match args with
  | [hb] =>
    match bytesOfHex hb with
    | none => badReq "hex"
    | some bs =>
      let pm := clsOf (parsePackage bs)
      let mm := clsOf (parseMetadata bs)
      let toks := (impl.splitOn " ").filter (· ≠ "")
      let bad := toks.filter fun t => t == "abort" || t.startsWith "alloc-excess" || t.endsWith "=panic" || t == "iter=runaway"
      let rest := toks.filter fun t => !(t.startsWith "parse=" || t.startsWith "meta=")
      -- the drained file iterator (uncompressed payloads; the harness says `skip` otherwise)
      let iterModel (implTok : String) : String :=
        if implTok == "iter=skip" then implTok else
        match parsePackage bs with
        | .ok p =>
          (match RpmVerif.Acc.getFileEntries p.md.signature p.md.header with
          | .ok fes =>
            let paths := fes.map (·.path)
            "iter=" ++ FileIterObs.allObs (RpmVerif.FileIter.collectMem p.content paths (fes.map (·.size))) (fun i => paths.getD i [])
          | _ => "iter=err")
        | _ => implTok
      let rest := rest.map fun t => if t.startsWith "iter=" then iterModel t else t
      let model := " ".intercalate ([s!"parse={pm}", s!"meta={mm}"] ++ rest.filter (fun t => t != "abort" && !t.startsWith "alloc-excess"))
      let verdict := match bad with
        | [] => "holds"
        | b :: _ => "fails:" ++ ((b.replace "=" "-").replace ":" "-")
      let errBranch := match parseMetadata bs with | .err c => c | .ok _ => "accepted" | .panic s => "panic-" ++ s
      answer model verdict ("meta-" ++ errBranch)
  | _ => badReq "args"

end RpmVerif.Driver.C04
