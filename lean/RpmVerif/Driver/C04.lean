import RpmVerif.Driver.Common
import RpmVerif.Model.Header
import RpmVerif.Model.PgpFraming
import RpmVerif.Model.Accessors
import RpmVerif.Driver.FileIterObs
import RpmVerif.Model.Io
import RpmVerif.Spec.Alloc
/-! Driver for C04. Op `hostile BYTES`. The implementation's observation lists an outcome class per
read-side stage; the model predicts the parse stages (ok / err — it has no reachable panic, Props/C04)
and copies the classes of stages it does not model (accessors, `fmt` = Display / Debug of the parsed values, digests, …). Spec: no stage may be `panic`, the process may not
die (`abort`), the file iterator must end even for a consumer that keeps pulling after an error (`iter=runaway`: unbounded
work / memory), and memory stays in proportion to the input (`Spec/Alloc.lean`; the harness MEASURES — token
`mem=<largest single request>@<stage>,<peak live bytes>@<stage>,<cumulative bytes> pmem=<peak during the two parse stages>,<bytes
the parsed Package keeps>` — and this driver judges): single request ≤ 64 KiB + 64·|input| (`fails:alloc-single-<stage>`; the
harness' own `alloc-excess:<stage>` prefix is the same criterion and names the stage that tripped it first), peak ≤ 64 KiB +
128·|input| (`fails:alloc-live-<stage>`; the MODEL's account of the same input — the decoded entry data `Header::parse` keeps,
`Hdr.parsePackageAcct` — is never beyond that limit: theorems `C04.live_le`, `C04.harness_limit_holds`; before the budget of
`parse_header` it could be, class `alloc-kept-quadratic`, which no longer exists), cumulative ≤ 1 MiB + 1024·|input|
(`fails:alloc-total`). The `mem=` numbers are copied into the
model line when they fit the model's account (what the parsed value keeps ≤ measured; measured peak of the parse stages ≤
2 × the account + 16 KiB: vectors grow by doubling) and replaced by `mem=outside-model-account:…` otherwise — a broken tie.
Op `alloc04 WHICH N S TY OFF CNT FILL`: the same stages on a package whose signature (`s`) / main (`h`) header has N identical
entries (tag 1000, type TY, offset OFF, count CNT) over an S-byte store (FILL 0 = zeros, 1 = 'a's with a final NUL, 2 = 'a',NUL
pairs); both sides build the bytes from the parameters, the observation ends with ` len=<n> fnv=<hash>` of the harness' bytes.
N ≥ 2 entries over the same bytes (the OVERLAP family, DEFECT-T11) are refused by the byte budget of `parse_header` on both sides
(`parse=err`, branch `alloc04-meta-overlap`; theorem `C04.overlap_refused`).
The `iter=` field of uncompressed payloads IS predicted: `Acc.getFileEntries` (the header's file list) +
`FileIter.collectMem` (`FileIterator::next` as a state machine on the in-memory stream, drained past error items like
`collect()` does) give the number of items, their Ok / Err classes and the hash of their paths and contents
(`iter=<k>:<classes>:<fnv>`, `iter=err` when `files()` itself fails); the model never says `runaway`
(Props/C04Readside `iterator_no_runaway`).

Op `hostsrc04 BYTES`: the same bytes through every source kind / entry point in the child (`parse=` slice, `cur=` io::Cursor,
`open=` / `opens=` Package::open on a file by `&Path` / `&str`, `bufr=` a 16-byte BufReader over the file, `mopen=`
PackageMetadata::open). Model: `parsePackage`, `Io.parseChunked` under an empty script / 8192-byte chunks / 16-byte chunks,
`Io.parseMetadataC` — all equal by C14.read_chunk_indep, here computed. Spec: as for `hostile` (no panic, no abort, no
excess allocation), and no source kind may ACCEPT what another rejects (class `source-kinds-differ`). -/
namespace RpmVerif.Driver.C04
open RpmVerif.Hdr RpmVerif.Driver

def ops : List String := ["hostile", "pgpframes", "hostsrc04", "alloc04"]

def clsOf {α} : Out α → String | .ok _ => "ok" | .err _ => "err" | .panic _ => "panic"

/-- `pgpframes BLOB`: the packet framing applied to a signature blob (`split_packets`, through the verification
hook): `none` or `ok:<len>,<len>,…`. Spec: every packet lies inside the blob and together they are the blob. -/
def framesHandle (bs : Bytes) (impl : String) : String :=
  let m := match RpmVerif.Pgp.splitPackets bs with
    | none => "none"
    | some ps => "ok:" ++ ",".intercalate (ps.map fun p => toString p.length)
  let v :=
    if impl == "none" then "holds"
    else if impl.startsWith "ok:" then
      let lens := ((impl.drop 3).toString.splitOn ",").filterMap (·.toNat?)
      let lens := if (impl.drop 3).toString.isEmpty then [] else lens
      if lens.foldl (· + ·) 0 == bs.length && lens.all (fun l => decide (1 ≤ l ∧ l ≤ bs.length)) then "holds"
      else "fails:packet-beyond-blob"
    else "fails:malformed"
  answer m v (match RpmVerif.Pgp.splitPackets bs with | none => "frames-refused" | some ps => s!"frames-{min ps.length 3}")

def chunks (n cap : Nat) : List Io.Chunk := List.replicate (n / cap + 8) (Io.Chunk.size cap)

def srcHandle (bs : Bytes) (impl : String) : String :=
  let n := bs.length
  let model := s!"parse={clsOf (parsePackage bs)} cur={clsOf (Io.parseChunked bs [])} open={clsOf (Io.parseChunked bs (chunks n 8192))} " ++
    s!"opens={clsOf (Io.parseChunked bs (chunks n 8192))} bufr={clsOf (Io.parseChunked bs (chunks n 16))} mopen={clsOf (Io.parseMetadataC ⟨bs, chunks n 8192⟩)}"
  let toks := (impl.splitOn " ").filter (· ≠ "")
  -- the child's memory report (`mem=… pmem=…`, appended to every child observation) is not predicted here: copied
  let memTail := (toks.filter fun t => t.startsWith "mem=" || t.startsWith "pmem=").foldl (fun acc t => acc ++ " " ++ t) ""
  let model := model ++ memTail
  let bad := toks.filter fun t => t == "abort" || t.startsWith "alloc-excess" || t.endsWith "=panic"
  let pk := toks.filter fun t => ["parse=", "cur=", "open=", "opens=", "bufr="].any fun pre => t.startsWith pre
  let classes := (pk.map fun t => ((t.splitOn "=").getD 1 "")).eraseDups
  let verdict := match bad with
    | b :: _ => "fails:" ++ ((b.replace "=" "-").replace ":" "-")
    | [] => if classes.length > 1 then "fails:source-kinds-differ" else "holds"
  let errBranch := match parseMetadata bs with | .err c => c | .ok _ => "accepted" | .panic s => "panic-" ++ s
  answer model verdict ("src-meta-" ++ errBranch)

/-- `mem=<single>@<stage>,<peak>@<stage>,<total>` → (single, stage, peak, stage, total) -/
def parseMem (t : String) : Option (Nat × String × Nat × String × Nat) :=
  match ((t.drop 4).toString.splitOn ",") with
  | [a, b, c] =>
    match a.splitOn "@", b.splitOn "@", c.toNat? with
    | [s, sa], [p, pa], some tot =>
      match s.toNat?, p.toNat? with
      | some s, some p => some (s, sa, p, pa, tot)
      | _, _ => none
    | _, _, _ => none
  | _ => none

/-- `pmem=<peak of the parse stages>,<kept by the parsed Package>` -/
def parsePmem (t : String) : Option (Nat × Nat) :=
  match ((t.drop 5).toString.splitOn ",") with
  | [a, b] => match a.toNat?, b.toNat? with | some a, some b => some (a, b) | _, _ => none
  | _ => none

/-- the whole read side on the bytes `bs` (ops `hostile`, `alloc04`) -/
def hostileHandle (bs : Bytes) (impl : String) : String :=
      let pkg := parsePackage bs
      let pm := clsOf pkg
      let mm := clsOf (parseMetadata bs)
      let toks := (impl.splitOn " ").filter (· ≠ "")
      let bad := toks.filter fun t => t == "abort" || t.startsWith "alloc-excess" || t.endsWith "=panic" || t == "iter=runaway"
      let rest := toks.filter fun t => !(t.startsWith "parse=" || t.startsWith "meta=")
      -- the drained file iterator (uncompressed payloads; the harness says `skip` otherwise)
      let iterModel (implTok : String) : String :=
        if implTok == "iter=skip" then implTok else
        match pkg with
        | .ok p =>
          (match RpmVerif.Acc.getFileEntries p.md.signature p.md.header with
          | .ok fes =>
            let paths := fes.map (·.path)
            "iter=" ++ FileIterObs.allObs (RpmVerif.FileIter.collectMem p.content paths (fes.map (·.size))) (fun i => paths.getD i [])
          | _ => "iter=err")
        | _ => implTok
      -- memory: the model's account of the same input, and the limits of Spec/Alloc.lean
      let len := bs.length
      let acct := parsePackageAcct bs
      let mem := (toks.find? (·.startsWith "mem=")).bind parseMem
      let pmem := (toks.find? (·.startsWith "pmem=")).bind parsePmem
      let accepted := match pkg with | .ok _ => true | _ => false
      let upper := 2 * acct.live + 16384
      let inAccount : Bool := match pmem with
        | some (ppeak, plive) => decide (ppeak ≤ upper) && (!accepted || decide (acct.kept ≤ plive))
        | none => true
      let memBad : List String := match mem with
        | some (single, sAt, peak, pAt, total) =>
          (if single > AllocSpec.singleLimit len then [s!"alloc-single-{sAt}"] else [])
          ++ (if peak > AllocSpec.liveLimit len then [s!"alloc-live-{pAt}"] else [])
          ++ (if total > AllocSpec.totalLimit len then ["alloc-total"] else [])
        | none => if toks.any (· == "abort") then [] else ["mem-token-missing"]
      let rest := rest.map fun t =>
        if t.startsWith "iter=" then iterModel t
        else if t.startsWith "pmem=" && !inAccount then s!"pmem=outside-model-account:{acct.kept}..{upper}"
        else t
      let model := " ".intercalate ([s!"parse={pm}", s!"meta={mm}"] ++ rest.filter (fun t => t != "abort" && !t.startsWith "alloc-excess"))
      let verdict := match memBad, bad with
        | m :: _, _ => "fails:" ++ m
        | [], [] => "holds"
        | [], b :: _ => "fails:" ++ ((b.replace "=" "-").replace ":" "-")
      let errBranch := match parseMetadata bs with | .err c => c | .ok _ => "accepted" | .panic s => "panic-" ++ s
      answer model verdict ("meta-" ++ errBranch)

/-- the lead every `alloc04` package starts with (harness: `gen_lead(&mut Rng::new(7), false)`: fixed bytes) -/
def allocLead : Bytes :=
  [0xed, 0xab, 0xee, 0xdb, 3, 0, 0, 0, 0, 1] ++ [116, 101, 115, 116] ++ List.replicate 62 0 ++ [0, 1, 0, 5] ++ List.replicate 16 0

def allocStore (s fill : Nat) : Bytes :=
  match fill with
  | 1 => if s = 0 then [] else List.replicate (s - 1) 97 ++ [0]
  | 2 => (List.range s).map fun i => if i % 2 == 0 then 97 else 0
  | _ => List.replicate s 0

/-- header bytes: intro, `n` identical index entries, the store -/
def allocHeader (n s ty off cnt fill : Nat) : Bytes :=
  RpmVerif.Gen.HEADER_MAGIC ++ [1, 0, 0, 0, 0] ++ be32 n ++ be32 s
    ++ (List.replicate n (be32 1000 ++ be32 ty ++ be32 off ++ be32 cnt)).flatten ++ allocStore s fill

def allocPackage (which : String) (n s ty off cnt fill : Nat) : Bytes :=
  let empty : Bytes := RpmVerif.Gen.HEADER_MAGIC ++ [1, 0, 0, 0, 0] ++ be32 0 ++ be32 0
  let h := allocHeader n s ty off cnt fill
  if which == "s" then allocLead ++ h ++ List.replicate (sigPad s) 0 ++ empty
  else allocLead ++ empty ++ h

def handle (op : String) (args : List String) (impl : String) : String :=
  if op == "hostsrc04" then
    match args with
    | [hb] => match bytesOfHex hb with | some bs => srcHandle bs impl | none => badReq "hex"
    | _ => badReq "args"
  else
  if op == "pgpframes" then
    match args with
    | [hb] => match bytesOfHex hb with | some bs => framesHandle bs impl | none => badReq "hex"
    | _ => badReq "args"
  else if op == "alloc04" then
    match args with
    | [which, n, s, ty, off, cnt, fill] =>
      match n.toNat?, s.toNat?, ty.toNat?, off.toNat?, cnt.toNat?, fill.toNat? with
      | some n, some s, some ty, some off, some cnt, some fill =>
        let bs := allocPackage which n s ty off cnt fill
        -- the harness built its bytes from the same parameters: they must be the same bytes
        let tail := s!" len={bs.length} fnv={hex16 (fnv bs)}"
        if impl.endsWith tail then
          let r := hostileHandle bs (impl.dropEnd tail.length).toString
          match r.splitOn " | " with
          | [m, v, b] => answer (m ++ tail) v ("alloc04-" ++ b)
          | _ => r
        else answer ("construction-mismatch" ++ tail) "dontcare" "alloc04-mismatch"
      | _, _, _, _, _, _ => badReq "numbers"
    | _ => badReq "args"
  else
  match args with
  | [hb] =>
    match bytesOfHex hb with
    | none => badReq "hex"
    | some bs => hostileHandle bs impl
  | _ => badReq "args"

end RpmVerif.Driver.C04
