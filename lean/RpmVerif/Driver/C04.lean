import RpmVerif.Driver.Common
import RpmVerif.Model.Header
/-! Driver for C04. Op `hostile BYTES`. The implementation's observation lists an outcome class per
read-side stage; the model predicts the parse stages (ok / err — it has no reachable panic, Props/C04)
and copies the classes of stages it does not model. Spec: no stage may be `panic`, the process may not
die (`abort`), no single allocation may exceed 64 MiB + 16·|input| (`alloc-excess`), and the file iterator must
end even for a consumer that keeps pulling after an error (`iter=runaway`: unbounded work / memory). -/
namespace RpmVerif.Driver.C04
open RpmVerif.Hdr RpmVerif.Driver

def ops : List String := ["hostile"]

def clsOf {α} : Out α → String | .ok _ => "ok" | .err _ => "err" | .panic _ => "panic"

def handle (_op : String) (args : List String) (impl : String) : String :=
  match args with
  | [hb] =>
    match bytesOfHex hb with
    | none => badReq "hex"
    | some bs =>
      let pm := clsOf (parsePackage bs)
      let mm := clsOf (parseMetadata bs)
      let toks := (impl.splitOn " ").filter (· ≠ "")
      let bad := toks.filter fun t => t == "abort" || t == "alloc-excess" || t.endsWith "=panic" || t == "iter=runaway"
      let rest := toks.filter fun t => !(t.startsWith "parse=" || t.startsWith "meta=")
      let model := " ".intercalate ([s!"parse={pm}", s!"meta={mm}"] ++ rest.filter (fun t => t != "abort" && t != "alloc-excess"))
      let verdict := match bad with
        | [] => "holds"
        | b :: _ => "fails:" ++ (b.replace "=" "-")
      let errBranch := match parseMetadata bs with | .err c => c | .ok _ => "accepted" | .panic s => "panic-" ++ s
      answer model verdict ("meta-" ++ errBranch)
  | _ => badReq "args"

end RpmVerif.Driver.C04
