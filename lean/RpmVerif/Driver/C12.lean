import RpmVerif.Driver.Common
import RpmVerif.Model.PkgFiles
import RpmVerif.Spec.Extract
/-!
Driver for C12. Op `extract <package> <archive|-> <dest> <jail>` (see harness/src/c12.rs for the wire
format). The package is decoded with the header model (`Hdr.parsePackage`) and `PkgFiles.extractInput`,
the FS model runs `Fs.extract` on the jail's initial state, and the observation
`<ok|err|panic> outside=<…> tree=<…>` is predicted textually.

Spec verdict, judged on the IMPLEMENTATION's observation:
* `panic`                           → `fails:special-type-panic` (an entry of another file type) / `fails:panic`
* `crash`                           → `fails:crash`
* `outside ≠ none`                  → `fails:dotdot-escape` (some path has a `..` component) / `fails:symlink-follow-escape`
* benign package (`Extract.benign`), destination vacant with existing parent → every entry must be in the reported tree with its content hash,
                                      permission bits, link target: `holds` / `fails:unfaithful`
* anything else (contained, ok or err) → `holds`
-/
namespace RpmVerif.Driver.C12
open RpmVerif RpmVerif.Fs RpmVerif.Hdr RpmVerif.PkgFiles RpmVerif.Extract RpmVerif.Driver

def ops : List String := ["extract", "extractmem12"]

def pathText (p : Path) : Bytes := if p.isEmpty then [slash] else p.flatMap (fun c => slash :: c)

def textPath (t : Bytes) : Path := (splitSlash t).filter (fun c => c ≠ [])

def bytesLe : Bytes → Bytes → Bool
  | [], _ => true
  | _ :: _, [] => false
  | a :: r, b :: s => if a < b then true else if b < a then false else bytesLe r s

def parseOctal (s : String) : Option Nat :=
  if s.isEmpty then none else
  s.toList.foldl (fun acc c => match acc with
    | some a => if '0' ≤ c ∧ c ≤ '7' then some (a * 8 + (c.toNat - 48)) else none
    | none => none) (some 0)

def octal (n : Nat) : String := String.ofList (Nat.toDigits 8 n)

/-- the jail's initial state -/
def parseJail (spec : String) : Option Fs :=
  let ents := spec.splitOn ","
  let nodes := ents.foldl (fun acc e =>
    match acc with
    | none => none
    | some l =>
      match e.splitOn "/" with
      | ["d", hp, m] => match bytesOfHex hp, parseOctal m with
        | some p, some m => some ((textPath p, Node.dir m) :: l) | _, _ => none
      | ["f", hp, m, hc] => match bytesOfHex hp, parseOctal m, bytesOfHex hc with
        | some p, some m, some c => some ((textPath p, Node.file c m) :: l) | _, _, _ => none
      | ["l", hp, ht] => match bytesOfHex hp, bytesOfHex ht with
        | some p, some t => some ((textPath p, Node.symlink t) :: l) | _, _ => none
      | _ => none) (some [])
  nodes.map fun l => ⟨l.reverse, []⟩

def sortedPaths (ps : List Path) : List (Bytes × Path) :=
  ((ps.eraseDups).map (fun p => (pathText p, p))).mergeSort (fun a b => bytesLe a.1 b.1)

def outsideOf (dest : Path) (before after : Fs) : String :=
  let ps := sortedPaths ((before.nodes.map (·.1)) ++ (after.nodes.map (·.1)))
  let l := ps.filterMap fun (t, p) =>
    if dest.isPrefixOf p then none else
    match before.get p, after.get p with
    | none, some _ => some ("c:" ++ hexOrDash t)
    | some _, none => some ("r:" ++ hexOrDash t)
    | some a, some b => if a = b then none else some ("m:" ++ hexOrDash t)
    | none, none => none
  if l.isEmpty then "none" else ",".intercalate l

def nodeEntry (t : Bytes) : Node → String
  | .dir m => s!"{hexOrDash t}/d/{octal m}/-"
  | .file c m => s!"{hexOrDash t}/f/{octal m}/{hex16 (fnv c)}"
  | .symlink tg => s!"{hexOrDash t}/l/-/{hexOrDash tg}"

def treeOf (dest : Path) (after : Fs) : String :=
  let ps := sortedPaths (after.nodes.map (·.1))
  let l := ps.filterMap fun (t, p) =>
    if dest.isPrefixOf p then (after.get p).map (nodeEntry t) else none
  if l.isEmpty then "-" else ",".intercalate l

def statusOf : Out Unit → String
  | .ok _ => "ok" | .err _ => "err" | .panic _ => "panic"

def field (pre : String) (tok : String) : Option String :=
  if tok.startsWith pre then some (tok.drop pre.length).toString else none

/-- (status, outside, tree) of an observation -/
def parseObs (obs : String) : Option (String × String × String) :=
  match obs.splitOn " " with
  | [st, o, t] => match field "outside=" o, field "tree=" t with
    | some o, some t => some (st, o, t)
    | _, _ => none
  | _ => none

/-- the tree entry an item must show up as -/
def wantEntry (dest : Path) (it : Item) : Option String :=
  (wantNode it).map (nodeEntry (pathText (dest ++ compsD it.path)))

def inputClass (inp : Input) : String :=
  if benign inp then "benign"
  else if !threeKinds inp then "special-type"
  else if !noDotDot inp then "dotdot"
  else if !noBelowLink inp then "below-link"
  else "odd"

/-- the destination does not exist and all its proper ancestors are directories (what the doc comment of
`extract` asks of the caller) -/
def targetReady (jail : Fs) (dest : Path) : Bool :=
  dest ≠ [] && (jail.get dest).isNone &&
    (List.range dest.length).all (fun k => match jail.get (dest.take k) with | some (.dir _) => true | _ => false)

def judge (dest : Path) (ready : Bool) (inp? : Option Input) (impl : String) : String :=
  match parseObs impl with
  | none => "dontcare"
  | some (st, o, t) =>
    if st == "panic" then
      (match inp? with
        | some inp => if !threeKinds inp then "fails:special-type-panic" else "fails:panic"
        | none => "fails:panic")
    else if st == "crash" then "fails:crash"
    else if o != "none" then
      (match inp? with
        | some inp => if !noDotDot inp then "fails:dotdot-escape" else "fails:symlink-follow-escape"
        | none => "fails:escape")
    else if st != "ok" && st != "err" then "dontcare"
    else match inp? with
      | none => "dontcare"
      | some inp =>
        if benign inp && ready then
          let have_ := t.splitOn ","
          if st == "ok" && inp.items.all (fun it => match wantEntry dest it with
              | some e => have_.contains e | none => false)
          then "holds" else "fails:unfaithful"
        else "holds"

def handle (op : String) (args : List String) (impl : String) : String :=
  -- `extractmem12 <spec> …`: `extract` on the un-reparsed value `build()` returned for <spec>; the remaining arguments are those
  -- of `extract` with <package> = the bytes that value writes (the harness checks that): predicted "same as parse"
  let args := if op == "extractmem12" then args.drop 1 else args
  -- an optional 5th token `via=…` says how the harness SPELLED the destination for `extract` (relative, through
  -- "..", through a symbolic link of its own): the directory meant — and therefore the model — is the same
  let args := match args with
    | [a, b, c, d, v] => if v.startsWith "via=" then [a, b, c, d] else args
    | _ => args
  match args with
  | [hp, ha, hd, js] =>
    match bytesOfHex hp, (if ha == "-" then some none else (bytesOfHex ha).map some), bytesOfHex hd, parseJail js with
    | some pb, some arch, some dtext, some jail =>
      match relComps dtext with
      | none => badReq "dest"
      | some dest =>
        match parsePackage pb with
        | .ok p =>
          match extractInput p arch with
          | none => answer "*" (judge dest (targetReady jail dest) none impl) "compressed-no-archive"
          | some inp =>
            let r := extract inp dest jail
            let m := s!"{statusOf r.out} outside={outsideOf dest jail r.fs} tree={treeOf dest r.fs}"
            let st := (impl.splitOn " ").headD ""
            let esc := if (impl.splitOn " outside=none ").length == 2 then "" else "-escaped"
            answer m (judge dest (targetReady jail dest) (some inp) impl) s!"{inputClass inp}{if targetReady jail dest then "" else "-notready"}-{st}{esc}-n{min inp.items.length 3}"
        | _ => answer "parse-err" "dontcare" "parse-err"
    | _, _, _, _ => badReq "args"
  | _ => badReq "arity"

end RpmVerif.Driver.C12
