import RpmVerif.Driver.Common
import RpmVerif.Model.FileIter
/-!
The observation `c07::drain_all` of the harness (a fresh `files()` iterator drained WITHOUT stopping at error items,
until the first `None`), computed from the model's `FileIter.collectMem`: `<k>:<classes>:<fnv>` — number of items,
their classes run-length encoded (`o2e1`; `-` for none), fnv-1a over `path 00 content 01` per Ok item and `02` per
error item.  The model never says `runaway`: `collect_le_entries` (Props/C07).
-/
namespace RpmVerif.Driver.FileIterObs
open RpmVerif.FileIter RpmVerif.Driver

def fnvFrom (h : UInt64) (bs : Bytes) : UInt64 :=
  bs.foldl (fun h b => (h ^^^ b.toUInt64) * 0x100000001b3) h

def runs : List Char → List (Char × Nat)
  | [] => []
  | c :: r => match runs r with
    | (d, n) :: t => if c == d then (d, n + 1) :: t else (c, 1) :: (d, n) :: t
    | [] => [(c, 1)]

def rle (cs : List Char) : String :=
  if cs.isEmpty then "-" else String.join ((runs cs).map fun (c, n) => s!"{c}{n}")

/-- `pathOf i` = path of the i-th header file -/
def allObs (items : List (Out Item)) (pathOf : Nat → Bytes) : String :=
  let h := items.foldl (fun h o => match o with
    | .ok (i, _, content) => fnvFrom (fnvFrom (fnvFrom (fnvFrom h (pathOf i)) [0]) content) [1]
    | _ => fnvFrom h [2]) 0xcbf29ce484222325
  let cls := items.map fun o => match o with | .ok _ => 'o' | .err _ => 'e' | .panic _ => 'p'
  s!"{items.length}:{rle cls}:{hex16 h}"

end RpmVerif.Driver.FileIterObs
