import RpmVerif.Driver.Bld
import RpmVerif.Spec.RpmValid
/-! Driver for C09. Ops:
* `valid <cfg tokens…> [sign=K] [then=ops]` — the package the real builder / signer emitted
  (`ok pkg=<hex> arch=<hex of the decompressed payload>`): parsed with the Lean parser, judged by
  `decide (PackageValid …)` (Spec/RpmValid.lean); on failure the first violated rule is named.
* `validfile <package bytes> [then=ops]` — an rpm-built asset package, possibly after a sign / clear history:
  `decide (ForeignValid …)` (header rules in full; archive-vs-header restricted to what rpm guarantees).
The model does not predict the bytes (that is C06's job): its observation is `*` whenever a package was
emitted; it predicts that every generated configuration IS emitted (`ok`), so an `err` is a disagreement. -/
namespace RpmVerif.Driver.C09
open RpmVerif.Hdr RpmVerif.Bld RpmVerif.Driver RpmVerif.Driver.Bld RpmVerif.RpmValid

def ops : List String := ["valid", "validfile", "validpad"]

def implField (impl : String) (k : String) : Option String :=
  (impl.splitOn " ").findSome? fun t => if t.startsWith (k ++ "=") then some (t.drop (k.length + 1)).toString else none

/-- the written bytes do not parse: name the rule when the cause is one of the listed ones -/
def parseFailure (bytes : Bytes) (cls : String) : String :=
  -- the parser already enforces some of the listed rules while decoding the entries
  if cls == "tagtype" then "fails:type" else
  if cls == "offset" || cls == "short-bin" then "fails:range" else
  if cls == "unterminated" then "fails:string-term" else
  -- lead and signature header readable, but the padding after it is missing / non-zero?
  match takeN 96 bytes with
  | .ok (lb, r) =>
    match parseLead lb, parseHeader r with
    | .ok _, .ok (sig, _) => if decide (SigPadding bytes sig) then "fails:parse-" ++ cls else "fails:sig-padding"
    | .err _, _ => "fails:lead"
    | _, _ => "fails:parse-" ++ cls
  | _ => "fails:parse-" ++ cls

/-- verdict for emitted bytes -/
def judge (foreign : Bool) (pkgHex archHex : String) : String :=
  match bytesOfHex pkgHex, bytesOfHex archHex with
  | some bytes, some arch =>
    match parsePackage bytes with
    | .ok p =>
      if foreign then
        if decide (ForeignValid bytes p arch) then "holds"
        else "fails:" ++ (firstViolationForeign bytes p arch).getD "unnamed"
      else
        if decide (PackageValid bytes p arch) then "holds"
        else "fails:" ++ (firstViolation bytes p arch).getD "unnamed"
    | .err c => parseFailure bytes c
    | .panic c => parseFailure bytes c
  | _, _ => "fails:bad-hex"

def compName : Comp → String
  | .none => "none" | .gzip _ => "gzip" | .zstd _ => "zstd" | .xz _ => "xz" | .bzip2 _ => "bzip2"

/-- do all destinations satisfy the hypothesis of `payload_valid`: cpio path = "." ++ dir ++ base name -/
def normalised (c : Cfg) : Bool := c.files.all fun f => f.cpioPath == [46] ++ (f.dir ++ f.baseName)

def historyLabel (args : List String) : String :=
  let s := (kv args "sign").map (fun _ => "signed") |>.getD "built"
  match kv args "then" with
  | some t => s ++ "+" ++ t
  | none => s

def handle (op : String) (args : List String) (impl : String) : String :=
  if op == "validpad" then
    -- a signer whose blob has the requested total length (genuine signature + private-use packets): the signed package must
    -- be structurally valid whatever the length; the model does not predict the bytes (`*`)
    if !impl.startsWith "ok " then answer "ok" "fails:signer-output-refused" "padsig-refused"
    else answer "*" (judge false ((implField impl "pkg").getD "") ((implField impl "arch").getD "")) "padsig"
  else if op == "validfile" then
    let label := "asset-" ++ ((kv args "then").getD "asis")
    if !impl.startsWith "ok " then answer "ok" "dontcare" (label ++ "-unreadable")
    else answer "*" (judge true ((implField impl "pkg").getD "") ((implField impl "arch").getD "")) label
  else
    match parseReq args with
    | none => badReq "cfg"
    | some r =>
      let c := r.cfg
      let label := s!"{historyLabel args}-{compName c.compression}-{if usesLargeFiles c then "large" else "std"}-n{min c.files.length 3}-{if normalised c then "norm" else "odd"}"
      -- `feat=nobz`: rpm-rs built without bzip2 support refuses that type (`UnsupportedCompressorType`); were a
      -- package emitted nevertheless, the validator below judges it like any other
      let nobz := kv args "feat" == some "nobz"
      let refused := nobz && (match c.compression with | .bzip2 _ => true | _ => false)
      let label := if nobz then "nobz-" ++ label else label
      if !impl.startsWith "ok " then answer (if refused then "err" else "ok") "dontcare" ("not-emitted-" ++ label)
      else if refused then answer "err" (judge false ((implField impl "pkg").getD "") ((implField impl "arch").getD "")) ("emitted-though-unsupported-" ++ label)
      else answer "*" (judge false ((implField impl "pkg").getD "") ((implField impl "arch").getD "")) label

end RpmVerif.Driver.C09
