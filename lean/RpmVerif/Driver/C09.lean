import RpmVerif.Driver.Bld
import RpmVerif.Spec.RpmValid
/-! Driver for C09. Ops:
* `valid <cfg tokens…> [sign=K] [then=ops]` — the package the real builder / signer emitted
  (`ok pkg=<hex> arch=<hex of the decompressed payload>`): parsed with the Lean parser, judged by
  `decide (PackageValid …)` (Spec/RpmValid.lean); on failure the first violated rule is named.
* `validfile <package bytes> [then=ops]` — an rpm-built asset package, possibly after a sign / clear history:
  `decide (ForeignValid …)` (header rules in full; archive-vs-header restricted to what rpm guarantees).
* `validhand09 <kind> [then=ops]` — C10's hand-made start packages (a built package whose main header was edited by hand: `latin1`,
  `noncanon`, `swapped`, `extratag`) and `gap` (slack bytes between two data items), after a sign / clear history
  (`ok start=<hex> pkg=<hex> arch=<hex>`): when the START is `ForeignValid` the result must be (`C09.history_foreign_valid`); a start
  that breaks a rule itself is outside the property (`dontcare`, the rule is named in the branch label).
A package that uses one of the four content features (TildeInVersions, CaretInVersions, RichDependencies, ScriptletInterpreterArgs)
without declaring it fails with its own class (`rpmlib-tilde`, `rpmlib-caret`, `rpmlib-rich`, `rpmlib-interp-args`), reported only when
no other rule is broken; the branch label says which of them the CONFIGURATION uses (`cf-…`) and whether the caller declared them.
The model does not predict the bytes (that is C06's job): its observation is `*` whenever a package was
emitted; it predicts that every generated configuration IS emitted (`ok`), so an `err` is a disagreement. -/
namespace RpmVerif.Driver.C09
open RpmVerif.Hdr RpmVerif.Bld RpmVerif.Driver RpmVerif.Driver.Bld RpmVerif.RpmValid

def ops : List String := ["valid", "validfile", "validpad", "validhand09"]

def implField (impl : String) (k : String) : Option String :=
  (impl.splitOn " ").findSome? fun t => if t.startsWith (k ++ "=") then some (t.drop (k.length + 1)).toString else none

/-- the written bytes do not parse: name the rule when the cause is one of the listed ones -/
def parseFailure (bytes : Bytes) (cls : String) : String :=
  -- the parser already enforces some of the listed rules while decoding the entries
  if cls == "tagtype" then "fails:type" else
  if cls == "offset" || cls == "short-bin" then "fails:range" else
  if cls == "unterminated" then "fails:string-term" else
  -- lead and signature header readable, but the padding after it is missing / non-zero?
  match takeN 96 bytes with
  | .ok (lb, r) =>
    match parseLead lb, parseHeader r with
    | .ok _, .ok (sig, _) => if decide (SigPadding bytes sig) then "fails:parse-" ++ cls else "fails:sig-padding"
    | .err _, _ => "fails:lead"
    | _, _ => "fails:parse-" ++ cls
  | _ => "fails:parse-" ++ cls

/-- verdict for emitted bytes -/
def judge (foreign : Bool) (pkgHex archHex : String) : String :=
  match bytesOfHex pkgHex, bytesOfHex archHex with
  | some bytes, some arch =>
    match parsePackage bytes with
    | .ok p =>
      if foreign then
        if decide (ForeignValid bytes p arch) then "holds"
        else "fails:" ++ (firstViolationForeign bytes p arch).getD "unnamed"
      else
        if decide (PackageValid bytes p arch) then "holds"
        else "fails:" ++ (firstViolation bytes p arch).getD "unnamed"
    | .err c => parseFailure bytes c
    | .panic c => parseFailure bytes c
  | _, _ => "fails:bad-hex"

def compName : Comp → String
  | .none => "none" | .gzip _ => "gzip" | .zstd _ => "zstd" | .xz _ => "xz" | .bzip2 _ => "bzip2"

/-- do all destinations satisfy the hypothesis of `payload_valid`: cpio path = "." ++ dir ++ base name -/
def normalised (c : Cfg) : Bool := c.files.all fun f => f.cpioPath == [46] ++ (f.dir ++ f.baseName)

/-- which of the four content features a configuration uses (read off the request, not off the emitted bytes), and whether the
caller wrote a `rpmlib(…)` requirement himself -/
def contentLabel (c : Cfg) : String :=
  let deps := c.provides ++ c.requires ++ c.obsoletes ++ c.conflicts ++ c.recommends ++ c.suggests ++ c.enhances ++ c.supplements
  let has (ch : UInt8) : Bool := c.version.contains ch || deps.any fun d => d.version.contains ch
  let rich := (c.requires ++ c.recommends ++ c.suggests ++ c.supplements ++ c.enhances ++ c.conflicts).any fun d => d.name.head? == some 40
  let args := [c.preIn, c.postIn, c.preUn, c.postUn, c.verify, c.preTrans, c.postTrans, c.preUntrans, c.postUntrans].any fun s =>
    match s with | some ⟨_, _, some p⟩ => decide (1 < p.length) | _ => false
  let own := c.requires.any fun d => (d.name.take 7 == [114, 112, 109, 108, 105, 98, 40])
  let l := (if has 126 then "t" else "") ++ (if has 94 then "c" else "") ++ (if rich then "r" else "") ++ (if args then "a" else "")
  (if l == "" then "cf0" else "cf-" ++ l) ++ (if own then "-own" else "")

def historyLabel (args : List String) : String :=
  let s := (kv args "sign").map (fun _ => "signed") |>.getD "built"
  match kv args "then" with
  | some t => s ++ "+" ++ t
  | none => s

def handle (op : String) (args : List String) (impl : String) : String :=
  if op == "validpad" then
    -- a signer whose blob has the requested total length (genuine signature + private-use packets): the signed package must
    -- be structurally valid whatever the length; the model does not predict the bytes (`*`)
    if !impl.startsWith "ok " then answer "ok" "fails:signer-output-refused" "padsig-refused"
    else answer "*" (judge false ((implField impl "pkg").getD "") ((implField impl "arch").getD "")) "padsig"
  else if op == "validhand09" then
    let kind := args.headD "?"
    let label := "hand-" ++ kind ++ "-" ++ ((kv args "then").getD "asis")
    if !impl.startsWith "ok " then answer "ok" "dontcare" (label ++ "-unreadable")
    else
      let arch := (implField impl "arch").getD ""
      let start := judge true ((implField impl "start").getD "") arch
      if start != "holds" then answer "*" "dontcare" (label ++ "-start-" ++ (start.drop 6).toString)
      else answer "*" (judge true ((implField impl "pkg").getD "") arch) label
  else if op == "validfile" then
    let label := "asset-" ++ ((kv args "then").getD "asis")
    if !impl.startsWith "ok " then answer "ok" "dontcare" (label ++ "-unreadable")
    else answer "*" (judge true ((implField impl "pkg").getD "") ((implField impl "arch").getD "")) label
  else
    match parseReq args with
    | none => badReq "cfg"
    | some r =>
      let c := r.cfg
      let label := s!"{historyLabel args}-{compName c.compression}-{if usesLargeFiles c then "large" else "std"}-n{min c.files.length 3}-{if normalised c then "norm" else "odd"}-{contentLabel c}"
      -- `feat=nobz`: rpm-rs built without bzip2 support refuses that type (`UnsupportedCompressorType`); were a
      -- package emitted nevertheless, the validator below judges it like any other
      let nobz := kv args "feat" == some "nobz"
      let refused := nobz && (match c.compression with | .bzip2 _ => true | _ => false)
      let label := if nobz then "nobz-" ++ label else label
      if !impl.startsWith "ok " then answer (if refused then "err" else "ok") "dontcare" ("not-emitted-" ++ label)
      else if refused then answer "err" (judge false ((implField impl "pkg").getD "") ((implField impl "arch").getD "")) ("emitted-though-unsupported-" ++ label)
      else answer "*" (judge false ((implField impl "pkg").getD "") ((implField impl "arch").getD "")) label

end RpmVerif.Driver.C09
