import RpmVerif.Driver.Common
import RpmVerif.Model.FileCaps
import RpmVerif.Spec.FileCaps
/-! Driver for C19. Ops (argument: hex of the UTF-8 bytes of the text, `-` = empty):
  `caps T`     – `FileCaps::from_str`, `FileCaps::new`, `Display`, `FileOptions::new(..).caps(T)`
  `capspkg T`  – `FileOptions::caps(T)` carried through `PackageBuilder::build` and read back from the
                 file entry (`FileEntry::caps`, then `Display`)
The argument is decoded as UTF-8 into code points (the harness only sends Rust `String`s; a request
that is not valid UTF-8 is a bad request).  Model and spec cover every text, ASCII or not.
Observation: `ok <hex of the UTF-8 bytes of the displayed text>` | `err` | `panic` (anything else = the
entry points differ).  The verdict is the spec's `demand` judged on the implementation's observation;
"no panic" and "accepted text is verbatim" are judged in every region, including don't-care. -/
namespace RpmVerif.Driver.C19
open RpmVerif RpmVerif.Driver RpmVerif.FileCaps

/-- `ok` + hex of the UTF-8 encoding of the code points -/
def obsOf (cs : List Nat) : String := "ok " ++ hexOfString (stringOfCodePoints cs)

/-- the model's observation: all entry points, reported singly when they differ -/
def modelObs (s : Str) : String :=
  let o1 := match FileCaps.fromStr s with
    | .ok c => obsOf c.display | .err _ => "err" | .panic _ => "panic"
  let o2 := match FileCaps.new s with
    | .ok c => obsOf c.display | .err _ => "err" | .panic _ => "panic"
  let o3 := match fileOptionsCaps s with
    | .ok (some c) => obsOf c.display | .ok none => "ok none" | .err _ => "err" | .panic _ => "panic"
  if o1 == o2 && o2 == o3 then o1 else s!"split:from_str={o1};new={o2};caps={o3}"

def errClass (s : Str) : String :=
  match validateCapsText s with
  | .err c => c | .ok _ => "accepted" | .panic _ => "panic"

/-- where the text has non-ASCII code points (histogram label only): in the name list of a clause
(before its first operator), elsewhere in a clause, as `White_Space` separators, or nowhere -/
def nonAsciiWhere (s : Str) : String :=
  let ws := Spec.words s
  if ws.any (fun w => (w.takeWhile (fun c => !Spec.isOp c)).any (· ≥ 128)) then "nonascii-name"
  else if ws.any (fun w => w.any (· ≥ 128)) then "nonascii-suffix"
  else if s.any Spec.isUniSpace then "unicode-ws"
  else ""

def handle (op : String) (args : List String) (impl : String) : String :=
  match op, args with
  | _, [h] =>
    match bytesOfHex h, codePointsOfHex h with
    | some bs, some s =>
      let verbatim := "ok " ++ hexOrDash bs
      -- demands that hold for every input, whatever the grammar says
      let always : Option String :=
        if impl == "panic" then some "fails:panic"
        else if impl == "err" || impl == verbatim then none
        else if impl.startsWith "ok " then some "fails:not-verbatim"
        else some "fails:entry-points-differ"
      let m := modelObs s
      let na := nonAsciiWhere s
      match Spec.demand s with
      | .mustAccept =>
        let v := always.getD (if impl == verbatim then "holds" else "fails:rejected-wellformed")
        answer m v s!"accept-{min (Spec.words s).length 3}cl"
      | .mustReject =>
        let v := always.getD (if impl == "err" then "holds" else "fails:accepted-malformed")
        let cls := errClass s
        -- all-whitespace text is the trivial branch `reject-empty`, whatever kind of whitespace
        answer m v (if cls == "empty" || na == "" then "reject-" ++ cls else s!"reject-{na}-{cls}")
      | .dontcare =>
        answer m (always.getD "dontcare") ("dc-" ++ Spec.dontcareWhy s)
    | _, _ => badReq "hex"
  | _, _ => badReq "args"

def ops : List String := ["caps", "capspkg"]

end RpmVerif.Driver.C19
