import RpmVerif.Driver.Common
import RpmVerif.Model.FileCaps
import RpmVerif.Spec.FileCaps
/-! Driver for C19. Ops (argument: hex of the UTF-8 bytes of the text, `-` = empty):
  `caps T`     – `FileCaps::from_str`, `FileCaps::new`, `Display`, `FileOptions::new(..).caps(T)`
  `capspkg T`  – `FileOptions::caps(T)` carried through `PackageBuilder::build` and read back from the
                 file entry (`FileEntry::caps`, then `Display`)
Observation: `ok <hex of the displayed text>` | `err` | `panic` (anything else = the entry points differ).
The verdict is the spec's `demand` judged on the implementation's observation; "no panic" and
"accepted text is verbatim" are judged in every region, including don't-care and non-ASCII. -/
namespace RpmVerif.Driver.C19
open RpmVerif RpmVerif.Driver RpmVerif.FileCaps

def obsOf (bs : List Nat) : String := "ok " ++ hexOrDash (bs.map Nat.toUInt8)

/-- the model's observation: all entry points, reported singly when they differ -/
def modelObs (s : Str) : String :=
  let o1 := match FileCaps.fromStr s with
    | .ok c => obsOf c.display | .err _ => "err" | .panic _ => "panic"
  let o2 := match FileCaps.new s with
    | .ok c => obsOf c.display | .err _ => "err" | .panic _ => "panic"
  let o3 := match fileOptionsCaps s with
    | .ok (some c) => obsOf c.display | .ok none => "ok none" | .err _ => "err" | .panic _ => "panic"
  if o1 == o2 && o2 == o3 then o1 else s!"split:from_str={o1};new={o2};caps={o3}"

def errClass (s : Str) : String :=
  match validateCapsText s with
  | .err c => c | .ok _ => "accepted" | .panic _ => "panic"

def handle (op : String) (args : List String) (impl : String) : String :=
  match op, args with
  | _, [h] =>
    match bytesOfHex h with
    | none => badReq "hex"
    | some bs =>
      let s := natsOfBytes bs
      let verbatim := "ok " ++ hexOrDash bs
      -- demands that hold for every input, whatever the grammar says
      let always : Option String :=
        if impl == "panic" then some "fails:panic"
        else if impl == "err" || impl == verbatim then none
        else if impl.startsWith "ok " then some "fails:not-verbatim"
        else some "fails:entry-points-differ"
      if s.any (· ≥ 128) then
        -- out of the model and of the grammar (Unicode upper-casing / whitespace): no accept/reject demand
        answer "*" (always.getD "dontcare") "non-ascii"
      else
        let m := modelObs s
        match Spec.demand s with
        | .mustAccept =>
          let v := always.getD (if impl == verbatim then "holds" else "fails:rejected-wellformed")
          answer m v s!"accept-{min (Spec.words s).length 3}cl"
        | .mustReject =>
          let v := always.getD (if impl == "err" then "holds" else "fails:accepted-malformed")
          answer m v ("reject-" ++ errClass s)
        | .dontcare =>
          answer m (always.getD "dontcare") ("dc-" ++ Spec.dontcareWhy s)
  | _, _ => badReq "args"

def ops : List String := ["caps", "capspkg"]

end RpmVerif.Driver.C19
