import RpmVerif.Driver.Common
import RpmVerif.Driver.Hash
import RpmVerif.Model.Digest
import RpmVerif.Spec.Digest
/-! Driver for C03.

Ops
* `digests BYTES`      — `Package::parse(..)?.verify_digests()`:
                         `ok | err:mismatch | err:unsupported | err:other | panic | parse-err`
* `dflip BYTES BIT`    — the same on BYTES with bit BIT flipped (bit 0 = most significant bit of byte 0)
* `hashx ALGO BYTES`   — hex digest (`md5 | sha1 | sha256`): the driver's own implementation against the Rust crate
* `digmem03 V BYTES K` — `verify_digests()` on the UN-REPARSED value `build()` / `build_and_sign()` returned (V = `b<i>` /
                         `s<i>`), K = `-` or a bit of `content` flipped in memory; BYTES = what the unflipped value writes.
                         Observation `<class> same=<bool>`. Predicted "same as parse": the model parses BYTES (bit flipped at
                         payload offset·8 + K), `same=true`; the spec judges the class on those bytes like `dflip`.
* `hashselftest`       — `ok` when the driver's hash functions reproduce the fixed `hashlib` vectors

Model observation = `verifyDigests` with the driver's hash functions on the model's parse of the bytes.
Spec verdict = `DigestSpec.judgeWith` on the IMPLEMENTATION's observation, with the digests recomputed from
the raw byte ranges (`recomputeRaw`) — `dontcare` inside `DigestSpec.dontcare` and for rejected inputs. -/
namespace RpmVerif.Driver.C03
open RpmVerif.Hdr RpmVerif.Driver RpmVerif.DigestSpec

def ops : List String := ["digests", "dflip", "hashx", "hashselftest", "digmem03"]

def realH : Hashes := ⟨Hash.md5L, Hash.sha1L, Hash.sha256L⟩

def obsStr : Out Unit → String
  | .ok _ => "ok"
  | .err c => if c == "mismatch" then "err:mismatch" else if c == "unsupported" then "err:unsupported" else "err:other"
  | .panic _ => "panic"

def obsOfImpl (s : String) : Option Obs :=
  if s == "ok" then some .ok
  else if s == "err:mismatch" then some .mismatch
  else if s == "err:unsupported" || s == "err:other" then some .otherErr
  else if s == "panic" then some .panic
  else none

def whichStr : Which → String
  | .md5 => "m" | .sha1 => "s1" | .sha256 => "s2"
  | .payload a => if a == 8 then "p8" else if Gen.digestAlgoTable.any (·.2 == a) then "pK" else "pU"

def flipBit (bs : Bytes) (bit : Nat) : Bytes :=
  let i := bit / 8
  match bs[i]? with
  | some b => bs.set i (b ^^^ ((0x80 : UInt8) >>> (bit % 8).toUInt8))
  | none => bs

def judgeCase (tag : String) (bs : Bytes) (impl : String) : String :=
  match parsePackage bs with
  | .ok p =>
    let m := obsStr (Digest.verifyDigests realH.md5 realH.sha1 realH.sha256 p)
    let recs := Recorded p
    let dc := dontcare p
    let shape := "+".intercalate (recs.map fun r => whichStr r.which)
    let branch := s!"{tag}[{shape}]{if dc then "~dc" else ""}:{m}"
    if dc then answer m "dontcare" branch else
    match obsOfImpl impl with
    | none => answer m "dontcare" branch          -- e.g. the implementation rejected the bytes: a broken tie, not a verdict
    | some o =>
      let good := judgeWith (recomputeRaw realH bs) recs o
      let v := if good then "holds" else
        match o with
        | .ok => "fails:accepted-what-must-be-rejected"
        | .panic => "fails:panic"
        | .mismatch => "fails:mismatch-but-all-recorded-digests-match"
        | .otherErr => "fails:error-but-no-unsupported-algorithm"
      answer m v branch
  | .err c => answer "parse-err" "dontcare" ("parse-err-" ++ c)
  | .panic s => answer "panic" "dontcare" ("parse-panic-" ++ s)

def handle (op : String) (args : List String) (impl : String) : String :=
  match op, args with
  | "digests", [hb] =>
    match bytesOfHex hb with
    | some bs => judgeCase "pkg" bs impl
    | none => badReq "hex"
  | "dflip", [hb, bit] =>
    match bytesOfHex hb, bit.toNat? with
    | some bs, some k => judgeCase "flip" (flipBit bs k) impl
    | _, _ => badReq "args"
  | "digmem03", [v, hb, k] =>
    match bytesOfHex hb with
    | some bs =>
      let bs' : Option Bytes := if k == "-" then some bs else
        match k.toNat?, parsePackage bs with
        | some bit, .ok p => some (flipBit bs ((bs.length - p.content.length) * 8 + bit))
        | _, _ => none
      match bs' with
      | some b =>
        let implCls := (impl.splitOn " ").getD 0 ""
        let tag := (if v.startsWith "s" then "mem-signed" else "mem-built") ++ (if k == "-" then "" else "-flip")
        match (judgeCase tag b implCls).splitOn " | " with
        | [m, vd, br] => answer (m ++ " same=true") vd br
        | _ => badReq "judge"
      | none => badReq "args"
    | none => badReq "hex"
  | "hashx", [algo, hb] =>
    match bytesOfHex hb with
    | some bs =>
      let d := if algo == "md5" then Hash.md5L bs else if algo == "sha1" then Hash.sha1L bs else Hash.sha256L bs
      let m := hexOfBytes d
      answer m (if m == impl then "holds" else "fails:hash-implementations-differ") ("hash-" ++ algo)
    | none => badReq "hex"
  | "hashselftest", [] =>
    let bad := Hash.selfTest
    let m := if bad.isEmpty then "ok" else "failed:" ++ ",".intercalate bad
    answer m (if bad.isEmpty then "holds" else "fails:hash-selftest") "hash-selftest"
  | _, _ => badReq "args"

end RpmVerif.Driver.C03
