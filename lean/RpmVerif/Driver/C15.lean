import RpmVerif.Driver.Common
import RpmVerif.Spec.Version
import RpmVerif.Model.Version
import RpmVerif.Model.Compression
/-! Driver for C15. All strings travel as hex of their UTF-8 bytes (`-` = empty). Ops and observations:
  `evrrt E V R`         – `<to_string> <normalized> <e,v,r,eq> <e,v,r,eq>`: the two texts, then for each text the
                          components of `Evr::parse(text)` and whether the parsed value `==` the original
  `nevrart N E V R A`   – `<to_string> <normalized> <nvra> <n,e,v,r,a,eq> ×3` likewise with `Nevra::parse`
  `comprt S`            – `CompressionType::from_str(S)`: `ok:<variant index>` | `err`
  `compall`             – for every variant `<index>:<Display text>:<from_str of that text>`, comma separated
  `parseany S`          – `<e,v,r> <n,e,v,r,a> <ok:i|err>` of `Evr::parse`, `Nevra::parse`, `from_str` on S
                          (each part is `panic` if that call panicked)
Spec verdict (judged on the implementation's observation only; guards from `Spec/Version.lean`):
inside a guard the parsed-back components must be the originals (normalized: epoch "" ↦ "0") and the
value must compare `==`; outside every guard `dontcare`; a panic anywhere is a failure. -/
namespace RpmVerif.Driver.C15
open RpmVerif.Vercmp RpmVerif.Version RpmVerif.VersionSpec RpmVerif.Driver

def hx (l : Str) : String := hexOfString (stringOfCodePoints l)
def commaHex (ls : List Str) : String := ",".intercalate (ls.map hx)

def evrObs (p : Evr) (orig : Evr) : String :=
  commaHex [p.epoch, p.version, p.release] ++ "," ++ toString (p.eq orig)
def nevraObs (p : Nevra) (orig : Nevra) : String :=
  commaHex [p.name, p.evr.epoch, p.evr.version, p.evr.release, p.arch] ++ "," ++ toString (p.eq orig)

def compObs (s : Str) : String :=
  match Compression.fromStr s with
  | .ok v => s!"ok:{v}"
  | _ => "err"

/-- `(guard → ok)` for Booleans -/
def imp (g ok : Bool) : Bool := !g || ok

def countOf (c : Nat) (s : Str) : Nat := (s.filter (· == c)).length
def capped (n : Nat) : Nat := min n 2

def handle (op : String) (args : List String) (impl : String) : String :=
  match op, args with
  | "evrrt", [hE, hV, hR] =>
    match [hE, hV, hR].mapM codePointsOfHex with
    | some [E, V, R] =>
      let e : Evr := ⟨E, V, R⟩
      let ts := Evr.toStr e
      let nf := Evr.normalized e
      let m := s!"{hx ts} {hx nf} {evrObs (Evr.parse ts) e} {evrObs (Evr.parse nf) e}"
      -- spec
      let g1 := decide (EvrGuard e)
      let g2 := decide (EvrNormGuard e)
      let g3 := decide (58 ∉ E)
      let e0 := if E.isEmpty then "30" else hx E          -- "" ↦ "0"
      let lbl := (if g1 then "evr-in" else if g2 then "evr-norm-only" else if g3 then "evr-epoch-only" else "evr-out")
        ++ (if E.isEmpty then "-e0" else "-e1")
      let verdict :=
        if impl == "panic" then "fails:panic" else
        match impl.splitOn " " with
        | [_, _, p1, p2] =>
          let ok1 := p1 == s!"{hx E},{hx V},{hx R},true"
          let ok2 := p2 == s!"{e0},{hx V},{hx R},true"
          let ok3 := (p2.splitOn ",").head? == some e0
          if !(g1 || g2 || g3) then "dontcare"
          else if !(imp g1 ok1) then "fails:evr-display"
          else if !(imp g2 ok2) then "fails:evr-normalized"
          else if !(imp g3 ok3) then "fails:evr-normalized-epoch"
          else "holds"
        | _ => "fails:malformed"
      answer m verdict lbl
    | _ => badReq "utf8"
  | "nevrart", [hN, hE, hV, hR, hA] =>
    match [hN, hE, hV, hR, hA].mapM codePointsOfHex with
    | some [N, E, V, R, A] =>
      let n : Nevra := ⟨N, ⟨E, V, R⟩, A⟩
      let ts := Nevra.toStr n
      let nf := Nevra.normalized n
      let nv := Nevra.nvra n
      let m := s!"{hx ts} {hx nf} {hx nv} {nevraObs (Nevra.parse ts) n} {nevraObs (Nevra.parse nf) n} {nevraObs (Nevra.parse nv) n}"
      let g1 := decide (NevraGuard n)
      let g2 := decide (NevraNormGuard n)
      let g3 := decide (NvraGuard n)
      let e0 := if E.isEmpty then "30" else hx E
      let b := fun (x : Bool) => if x then "T" else "F"
      let lbl := s!"nevra-{b g1}{b g2}{b g3}" ++ (if E.isEmpty then "-e0" else "-e1")
        ++ (if N.contains 45 then "-dashname" else "-plainname")
      let verdict :=
        if impl == "panic" then "fails:panic" else
        match impl.splitOn " " with
        | [_, _, _, p1, p2, p3] =>
          let ok1 := p1 == s!"{hx N},{hx E},{hx V},{hx R},{hx A},true"
          let ok2 := p2 == s!"{hx N},{e0},{hx V},{hx R},{hx A},true"
          -- nvra: components with epoch ""; `==` to the original is not demanded (it holds iff the epoch was "" or "0")
          let ok3 := p3.startsWith s!"{hx N},-,{hx V},{hx R},{hx A},"
          if !(g1 || g2 || g3) then "dontcare"
          else if !(imp g1 ok1) then "fails:nevra-display"
          else if !(imp g2 ok2) then "fails:nevra-normalized"
          else if !(imp g3 ok3) then "fails:nevra-nvra"
          else "holds"
        | _ => "fails:malformed"
      answer m verdict lbl
    | _ => badReq "utf8"
  | "comprt", [hS] =>
    match codePointsOfHex hS with
    | some s =>
      let m := compObs s
      -- spec: the Display name of variant v must parse to v; other text only must not panic
      let own := Gen.compressionDisplay.find? (fun p => p.2 == s)
      let verdict :=
        if impl == "panic" then "fails:panic" else
        match own with
        | some (v, _) => if impl == s!"ok:{v}" then "holds" else "fails:compression"
        | none => "holds"
      answer m verdict (if own.isSome then "comp-own-name" else if m == "err" then "comp-unknown" else "comp-alias")
    | none => badReq "utf8"
  | "compall", [] =>
    let m := ",".intercalate ((List.range Compression.numVariants).map fun c =>
      s!"{c}:{hx (Compression.toStr c)}:{compObs (Compression.toStr c)}")
    let items := impl.splitOn ","
    let ok := impl != "panic" && items.all fun it =>
      match it.splitOn ":" with
      | [i, _, "ok", j] => i == j
      | _ => false
    answer m (if ok then "holds" else "fails:compression") s!"compall-{items.length}"
  | "parseany", [hS] =>
    match codePointsOfHex hS with
    | some s =>
      let (e, v, r) := evrParseValues s
      let (n, e2, v2, r2, a2) := nevraParseValues s
      let m := s!"{commaHex [e, v, r]} {commaHex [n, e2, v2, r2, a2]} {compObs s}"
      let verdict := if (impl.splitOn "panic").length > 1 then "fails:panic" else "holds"
      answer m verdict s!"any-dash{capped (countOf 45 s)}-colon{capped (countOf 58 s)}-dot{capped (countOf 46 s)}"
    | none => badReq "utf8"
  | _, _ => badReq "op"

def ops : List String := ["evrrt", "nevrart", "comprt", "compall", "parseany"]

end RpmVerif.Driver.C15
