import RpmVerif.Driver.Bld
import RpmVerif.Model.ShaWriter
/-! Driver for C08. Ops `build8 <cfg>` and `shaw <script> <chunks> <data>`. -/
namespace RpmVerif.Driver.C08
open RpmVerif.Hdr RpmVerif.Bld RpmVerif.Driver RpmVerif.Driver.Bld RpmVerif.Io

def ops : List String := ["build8", "shaw", "stale8", "lazy8"]

def tok (m : List String) (k : String) : String :=
  (m.findSome? fun t => if t.startsWith (k ++ "=") then some (t.drop (k.length + 1)).toString else none).getD "<missing>"

def parseScript (s : String) : List Resp :=
  if s == "-" then [] else (s.splitOn ",").map fun t =>
    if t == "i" then .intr else if t == "f" then .fail else .ok ((t.drop 1).toString.toNat?.getD 0)

/-- split like Rust's `chunks(step)` -/
def chunksOf (step : Nat) (bs : Bytes) : List Bytes :=
  if step = 0 then [bs] else
  let rec go (fuel : Nat) (b : Bytes) : List Bytes :=
    match fuel, b with
    | _, [] => []
    | 0, b => [b]
    | f + 1, b => b.take step :: go f (b.drop step)
  go bs.length bs

def hexStr (b : Bytes) : String := hexOfBytes b

def handle (op : String) (args : List String) (impl : String) : String :=
  match op, args with
  | "shaw", [script, chunks, data] =>
    match bytesOfHex data, chunks.toNat? with
    | some bs, some k =>
      -- after the finite script the sink accepts everything: extend the script accordingly
      let rs := parseScript script ++ List.replicate (bs.length + 2) (.ok (bs.length + 1))
      let step := (bs.length + (max k 1) - 1) / (max k 1)
      let parts := chunksOf (max step 1) bs
      let r := RpmVerif.ShaW.runH false parts rs
      let st := match r.2.2.1 with | .ok => "ok" | _ => "err"
      let m := s!"{st} digest={hexStr (Hash.sha256L r.2.1)} accepted={hex16 (fnv r.1)}:{r.1.length}"
      -- spec: the digest is the SHA-256 of the bytes the inner sink accepted (identified by fnv + length)
      let itoks := (impl.splitOn " ").filter (· ≠ "")
      let v := if tok itoks "accepted" == s!"{hex16 (fnv r.1)}:{r.1.length}" then
                 verdictOf (tok itoks "digest" == hexStr (Hash.sha256L r.1))
               else "fails:accepted-bytes-differ"
      answer m v s!"script{min (parseScript script).length 3}-{st}"
    | _, _ => badReq "args"
  | "stale8", _ :: cfg =>
    match parseReq cfg with
    | none => badReq "cfg"
    | some r =>
      if !impl.startsWith "ok " then answer "ok" (if impl == "err" then "dontcare" else "fails:" ++ impl) "build-rejected" else
      let itoks := (impl.splitOn " ").filter (· ≠ "")
      -- the main header is not touched by sign / clear: its digest is the digest of what the model builds,
      -- which needs the payload digests; they are not part of this observation, so the model copies `hreal`
      let hreal := tok itoks "hreal"
      let m := s!"ok stale=true hsha={hreal} hreal={hreal} digests=true"
      let v := if tok itoks "hsha" != hreal then "fails:header-digest-after-resign"
               else if tok itoks "digests" != "true" then "fails:digests-after-resign" else "holds"
      let _ := r
      answer m v "stale-resign"
  | "lazy8", "fail" :: how :: _ =>
    -- a refusing signer: build_and_sign yields no package; sign_with_timestamp leaves the package as it was, so the header
    -- digest is still recorded and still true
    if how == "bas" then answer "ok refused" (if impl == "ok refused" then "holds" else "fails:" ++ impl.replace " " "_") "refusing-signer" else
    if !impl.startsWith "ok " then answer "ok" ("fails:" ++ impl.replace " " "_") "refusing-signer" else
    let itoks := (impl.splitOn " ").filter (· ≠ "")
    let hreal := tok itoks "hreal"
    let m := s!"ok hsha={hreal} hreal={hreal} digests=true verify=refused"
    let v := if tok itoks "hsha" != hreal then "fails:header-digest-after-refused-signing"
             else if tok itoks "digests" != "true" then "fails:digests-after-refused-signing" else "holds"
    answer m v "refusing-signer"
  | "lazy8", _ :: _ :: _ =>
    -- a signer that reads only part of its input: the recorded header digest is the digest of the written header all the same,
    -- the digests verify and the (genuine) signature over the header verifies; `hreal` is copied from the observation
    if !impl.startsWith "ok " then answer "ok" ("fails:" ++ impl) "lazy-signer-rejected" else
    let itoks := (impl.splitOn " ").filter (· ≠ "")
    let hreal := tok itoks "hreal"
    let m := s!"ok hsha={hreal} hreal={hreal} digests=true verify=true"
    let v := if tok itoks "hsha" != hreal then "fails:header-digest-lazy-signer"
             else if tok itoks "digests" != "true" then "fails:digests-lazy-signer"
             else if tok itoks "verify" != "true" then "fails:verify-lazy-signer" else "holds"
    answer m v "lazy-signer"
  | "build8", _ =>
    match parseReq args with
    | none => badReq "cfg"
    | some r =>
      if !impl.startsWith "ok " then answer "ok" (if impl == "err" then "dontcare" else "fails:" ++ impl) "build-rejected" else
      let itoks := (impl.splitOn " ").filter (· ≠ "")
      let paysha := tok itoks "paysha"; let archsha := tok itoks "archsha"
      let hdr := mainHeader r.cfg r.now paysha.toUTF8.toList archsha.toUTF8.toList
      let x := String.ofList ((sha256hex (writeHeader hdr)).map fun b => Char.ofNat b.toNat)
      let nf := r.cfg.files.length
      let m := s!"ok paysha={paysha} archsha={archsha} pd={paysha} pda={archsha} hsha={x} hreal={x} fdg=true nfiles={nf} chsha={x}"
      let v :=
        if tok itoks "pd" != paysha then "fails:payload-digest"
        else if tok itoks "pda" != archsha then "fails:archive-digest"
        else if tok itoks "hsha" != tok itoks "hreal" then "fails:header-digest"
        else if tok itoks "chsha" != tok itoks "hreal" then "fails:header-digest-after-clear"
        else if tok itoks "fdg" != "true" then "fails:file-digest"
        else "holds"
      answer m v s!"files{min nf 2}-size{(r.files.map (·.size)).foldl max 0 / 50000}"
  | _, _ => badReq "args"

end RpmVerif.Driver.C08
