import RpmVerif.Driver.Bld
import RpmVerif.Model.ShaWriter
import RpmVerif.Model.ShaSink
import RpmVerif.Model.WithFileContent
import RpmVerif.Model.Sign
/-! Driver for C08. Ops `build8 <cfg>`, `shaw <script> <chunks> <data>`, `stale8`, `lazy8`, `sign08 <key> <api> <src> <cfg>`,
`hist08 <ops> <package>`.

`build8` / `sign08`: the model PREDICTS the digests. The builder's files with their contents are `WithFile.buildFilesC` over the
request's `with_file` calls (contents regenerated from the seeds); the archive goes through `ShaSink.prepareDigests` — the cpio
`Writer` on top of `Sha256Writer` on top of an all-accepting sink, standard or large-file form as `Bld.usesLargeFiles` says —
which yields the text recorded under PAYLOADDIGESTALT; for `c=none` the payload IS the archive, so PAYLOADDIGEST is predicted
too, for the real codecs the payload digest is taken from the harness' independent recomputation (`paysha`, the compressor's
output is not modelled) and only its PLACE in the header is predicted. The header digest is the SHA-256 (Lean implementation,
Driver/Hash.lean) of the model's own header bytes; RPMTAG_FILEDIGESTS is predicted text by text.
`hist08`: any start package: `Hdr.parsePackage`, then after any sign / clear the recorded digest is the digest of
`writeHeader` of the parsed main header (`Pipeline.history_header_digest_fresh`), before that the start package's own. -/
namespace RpmVerif.Driver.C08
open RpmVerif.Hdr RpmVerif.Bld RpmVerif.Driver RpmVerif.Driver.Bld RpmVerif.Io

def ops : List String := ["build8", "shaw", "stale8", "lazy8", "sign08", "hist08"]

def tok (m : List String) (k : String) : String :=
  (m.findSome? fun t => if t.startsWith (k ++ "=") then some (t.drop (k.length + 1)).toString else none).getD "<missing>"

def parseScript (s : String) : List Resp :=
  if s == "-" then [] else (s.splitOn ",").map fun t =>
    if t == "i" then .intr else if t == "f" then .fail else .ok ((t.drop 1).toString.toNat?.getD 0)

/-- split like Rust's `chunks(step)` -/
def chunksOf (step : Nat) (bs : Bytes) : List Bytes :=
  if step = 0 then [bs] else
  let rec go (fuel : Nat) (b : Bytes) : List Bytes :=
    match fuel, b with
    | _, [] => []
    | 0, b => [b]
    | f + 1, b => b.take step :: go f (b.drop step)
  go bs.length bs

def hexStr (b : Bytes) : String := hexOfBytes b


/-- `Sha256Writer` over the scripted sink through the STACKED model (`ShaSink.HSink.writeAll`, the machine `build8` runs): must
agree with `ShaW.runH` (the model of the C08 theorems `alt_digest` …) on every generated script -/
def runHSink (parts : List Bytes) (rs : List Resp) : Bytes × Bytes × Bool :=
  let script : List RpmVerif.PWriter.Resp := rs.map fun r => match r with
    | .ok n => .ok n | .intr => .intr | .fail => .fail
  let rec go (ps : List Bytes) (h : RpmVerif.ShaSink.HSink) : RpmVerif.ShaSink.HSink × Bool :=
    match ps with
    | [] => (h, true)
    | a :: r => match h.writeAll a with
      | (.ok (), h') => go r h'
      | (_, h') => (h', false)
  let (h, ok) := go parts { inner := { script := script }, hashed := [] }
  (h.inner.out, h.hashed, ok)

structure Predicted where
  archSha : String
  paySha : String
  hdrSha : String
  fd : String
  nfiles : Nat
  large : Bool

def strOf (b : Bytes) : String := String.ofList (b.map fun x => Char.ofNat x.toNat)

/-- the digests of the package `build` returns for request `r`; `paysha` = the payload digest the harness recomputed -/
def predict (args : List String) (r : Req) (paysha : String) : Option Predicted :=
  let calls := r.files.map (·.call)
  match RpmVerif.WithFile.buildFilesC sha256hex (fun _ => true) calls [] with
  | .ok fes =>
    let files : List RpmVerif.Cpio.FileIn := fes.map fun p => ⟨p.1.cpioPath, p.1.mode, p.2⟩
    let large := usesLargeFiles r.cfg
    match RpmVerif.ShaSink.prepareDigests (fun s => .ok s.out) sha256hex large 0 0 files {} with
    | .ok d =>
      let a := strOf d.archiveShaHex
      let isNone : Bool := match kv args "c" with
        | some c => (c.splitOn ":").head? == some "none"
        | none => r.cfg.compression == .none
      let pay := if isNone then strOf d.payloadShaHex else paysha
      let hdr := mainHeader r.cfg r.now pay.toUTF8.toList a.toUTF8.toList
      let x := strOf (sha256hex (writeHeader hdr))
      let ds := r.cfg.files.map fun f => strOf f.shaHex
      some ⟨a, pay, x, s!"{ds.length}:{hex16 (fnv (",".intercalate ds).toUTF8.toList)}", r.cfg.files.length, large⟩
    | _ => none
  | _ => none

def sizeClass (r : Req) : String :=
  let m := (r.files.map (·.size)).foldl max 0
  if [32767, 32768, 32769, 65535, 65536, 65537, 131071, 131072, 131073].contains m then "-edge" else s!"-size{m / 50000}"

def handle (op : String) (args : List String) (impl : String) : String :=
  match op, args with
  | "shaw", [script, chunks, data] =>
    match bytesOfHex data, chunks.toNat? with
    | some bs, some k =>
      -- after the finite script the sink accepts everything: extend the script accordingly
      let rs := parseScript script ++ List.replicate (bs.length + 2) (.ok (bs.length + 1))
      let step := (bs.length + (max k 1) - 1) / (max k 1)
      let parts := chunksOf (max step 1) bs
      let r := RpmVerif.ShaW.runH false parts rs
      let st := match r.2.2.1 with | .ok => "ok" | _ => "err"
      -- the stacked model of `build8` on the same script: same accepted bytes, same hashed bytes, same status
      let r2 := runHSink parts rs
      let agree := r2.1 == r.1 && r2.2.1 == r.2.1 && r2.2.2 == (st == "ok")
      let m := if agree then s!"{st} digest={hexStr (Hash.sha256L r.2.1)} accepted={hex16 (fnv r.1)}:{r.1.length}"
               else "models-disagree:ShaW.runH-vs-ShaSink.HSink"
      -- spec: the digest is the SHA-256 of the bytes the inner sink accepted (identified by fnv + length)
      let itoks := (impl.splitOn " ").filter (· ≠ "")
      let v := if tok itoks "accepted" == s!"{hex16 (fnv r.1)}:{r.1.length}" then
                 verdictOf (tok itoks "digest" == hexStr (Hash.sha256L r.1))
               else "fails:accepted-bytes-differ"
      answer m v s!"script{min (parseScript script).length 3}-{st}"
    | _, _ => badReq "args"
  | "stale8", _ :: cfg =>
    match parseReq cfg with
    | none => badReq "cfg"
    | some r =>
      if !impl.startsWith "ok " then answer "ok" (if impl == "err" then "dontcare" else "fails:" ++ impl) "build-rejected" else
      let itoks := (impl.splitOn " ").filter (· ≠ "")
      -- the main header is not touched by sign / clear: its digest is the digest of what the model builds,
      -- which needs the payload digests; they are not part of this observation, so the model copies `hreal`
      let hreal := tok itoks "hreal"
      let m := s!"ok stale=true hsha={hreal} hreal={hreal} digests=true"
      let v := if tok itoks "hsha" != hreal then "fails:header-digest-after-resign"
               else if tok itoks "digests" != "true" then "fails:digests-after-resign" else "holds"
      let _ := r
      answer m v "stale-resign"
  | "lazy8", "fail" :: how :: _ =>
    -- a refusing signer: build_and_sign yields no package; sign_with_timestamp leaves the package as it was, so the header
    -- digest is still recorded and still true
    if how == "bas" then answer "ok refused" (if impl == "ok refused" then "holds" else "fails:" ++ impl.replace " " "_") "refusing-signer" else
    if !impl.startsWith "ok " then answer "ok" ("fails:" ++ impl.replace " " "_") "refusing-signer" else
    let itoks := (impl.splitOn " ").filter (· ≠ "")
    let hreal := tok itoks "hreal"
    let m := s!"ok hsha={hreal} hreal={hreal} digests=true verify=refused"
    let v := if tok itoks "hsha" != hreal then "fails:header-digest-after-refused-signing"
             else if tok itoks "digests" != "true" then "fails:digests-after-refused-signing" else "holds"
    answer m v "refusing-signer"
  | "lazy8", _ :: _ :: _ =>
    -- a signer that reads only part of its input: the recorded header digest is the digest of the written header all the same,
    -- the digests verify and the (genuine) signature over the header verifies; `hreal` is copied from the observation
    if !impl.startsWith "ok " then answer "ok" ("fails:" ++ impl) "lazy-signer-rejected" else
    let itoks := (impl.splitOn " ").filter (· ≠ "")
    let hreal := tok itoks "hreal"
    let m := s!"ok hsha={hreal} hreal={hreal} digests=true verify=true"
    let v := if tok itoks "hsha" != hreal then "fails:header-digest-lazy-signer"
             else if tok itoks "digests" != "true" then "fails:digests-lazy-signer"
             else if tok itoks "verify" != "true" then "fails:verify-lazy-signer" else "holds"
    answer m v "lazy-signer"
  | "build8", _ =>
    match parseReq args with
    | none => badReq "cfg"
    | some r =>
      if !impl.startsWith "ok " then answer "ok" (if impl == "err" then "dontcare" else "fails:" ++ impl) "build-rejected" else
      let itoks := (impl.splitOn " ").filter (· ≠ "")
      let paysha := tok itoks "paysha"; let archsha := tok itoks "archsha"
      match predict args r paysha with
      | none => answer "err" "fails:model-rejects-build" "build-model-rejected"
      | some q =>
        let x := q.hdrSha
        let m := s!"ok paysha={q.paySha} archsha={q.archSha} pd={q.paySha} pda={q.archSha} hsha={x} hreal={x} fd={q.fd} fdg=true nfiles={q.nfiles} chsha={x}"
        let v :=
          if tok itoks "pd" != paysha then "fails:payload-digest"
          else if tok itoks "pda" != archsha then "fails:archive-digest"
          else if tok itoks "hsha" != tok itoks "hreal" then "fails:header-digest"
          else if tok itoks "chsha" != tok itoks "hreal" then "fails:header-digest-after-clear"
          else if tok itoks "fdg" != "true" then "fails:file-digest"
          else "holds"
        answer m v s!"files{min q.nfiles 2}{sizeClass r}{if q.large then "-stripped" else ""}"
  | "sign08", key :: api :: src :: cfg =>
    match parseReq cfg with
    | none => badReq "cfg"
    | some r =>
      if !impl.startsWith "ok " then answer "ok" ("fails:" ++ impl.replace " " "_") "sign-rejected" else
      let itoks := (impl.splitOn " ").filter (· ≠ "")
      let paysha := tok itoks "paysha"; let archsha := tok itoks "archsha"
      match predict cfg r paysha with
      | none => answer "err" "fails:model-rejects-build" "build-model-rejected"
      | some q =>
        let x := q.hdrSha
        -- signing replaces the signature header only: main header and payload, hence all their digests, are the built ones
        -- (C10 history_bytes); the header digest recorded next to the signature is the true one (C08 sign_header_digest_fresh)
        let m := s!"ok paysha={q.paySha} archsha={q.archSha} pd={q.paySha} pda={q.archSha} hsha={x} hreal={x} fd={q.fd} digests=true verify=true chsha={x}"
        let v :=
          if tok itoks "pd" != paysha then "fails:payload-digest-signed"
          else if tok itoks "pda" != archsha then "fails:archive-digest-signed"
          else if tok itoks "hsha" != tok itoks "hreal" then "fails:header-digest-signed"
          else if tok itoks "chsha" != tok itoks "hreal" then "fails:header-digest-after-clear"
          else if tok itoks "digests" != "true" then "fails:digests-signed"
          else if tok itoks "verify" != "true" then "fails:verify-signed"
          else "holds"
        answer m v s!"sign-{key}-{api}-{src}{if q.large then "-stripped" else ""}"
  | "hist08", [hops, pkgHex] =>
    match bytesOfHex pkgHex with
    | none => badReq "hex"
    | some bs =>
      match parsePackage bs with
      | .ok p =>
        let opl := (hops.splitOn ",").filter fun o => o != "" && o != "-"
        let touched := opl.any fun o => o.startsWith "c" || o.startsWith "s" || o.startsWith "S"
        let hb := writeHeader p.md.header
        let hreal := hexOfBytes (sha256hex hb)
        let recorded := match getString p.md.signature RpmVerif.Gen.SigTag.RPMSIGTAG_SHA256 with
          | .ok d => hexOrDash d
          | _ => "absent"
        let hsha := if touched then hreal else recorded
        let o := offsets p.md
        let hdrsame := (bs.drop o.hdr).take (o.payload - o.hdr) == hb
        let m := s!"ok hsha={hsha} hreal={hreal} hdrsame={boolStr hdrsame} paysame=true"
        let itoks := (impl.splitOn " ").filter (· ≠ "")
        let v :=
          if !impl.startsWith "ok " then (if touched then "fails:" ++ impl.replace " " "_" else "dontcare")
          else if touched && tok itoks "hsha" != tok itoks "hreal" then "fails:header-digest-after-history"
          else if tok itoks "hdrsame" != "true" && hdrsame then "fails:main-header-changed"
          else if tok itoks "paysame" != "true" then "fails:payload-changed"
          else if touched then "holds" else "dontcare"
        let startKind := if recorded == "absent" then "nodigest" else if recorded == hreal then "fresh" else "stale"
        answer m v s!"hist-{startKind}-{if touched then (if opl.getLast? == some "w" then "touched-w" else "touched") else "untouched"}"
      | _ => answer "err-parse" "dontcare" "hist-unparsable"
  | _, _ => badReq "args"

end RpmVerif.Driver.C08
