import RpmVerif.Driver.Common
import RpmVerif.Model.Accessors
import RpmVerif.Model.Header
import RpmVerif.Model.Cpio
import RpmVerif.Model.AddData
import RpmVerif.Driver.FileIterObs
import RpmVerif.Driver.Hash
import RpmVerif.Model.PayloadWriter
/-!
Driver for C07 (see harness/src/c07.rs for the request and observation formats).

* `files comp=… large=… [thr=N] f=<hexdest>:<octperm>:<size>:<kind><seed> …` — the harness BUILT the package
  with the real builder.  Model = `buildFiles` (BTreeMap by cpio path) + the large-file switch
  (`PWriter.usesLargeFiles`, or `combined > N` under the hook's threshold) + the archive: standard mode through the
  `payload::Writer` STATE MACHINE (`PWriter.builderArchiveW` into an all-accepting sink — equal to
  `Cpio.builderArchive` by `builder_archive_writer`), large-file mode `builderArchiveLarge` + the drained iterator
  (`FileIter.collectMem`); the contents are regenerated from the seeds.  Spec = the
  property read literally: the files given, ordered by cpio path, each with its exact bytes, its own
  mode, |content| = recorded size, SHA-256 matching the recorded digest (`dg`, computed by the harness).
* `filesraw <package>` — a hand-assembled foreign package.  Model = `Hdr.parsePackage` + the subset of
  `get_file_entries` the generator uses + `iterateE` (metadata = the header file the entry designates,
  `fileIndex`).  Spec = pairing BY NAME, judged on the implementation's observation with a reading of the
  archive of its own (`listArchive` + `entryPath`, no `fileIndex`): every yielded content must be the
  content of an archive entry that names the path of the metadata it is paired with; an archive entry
  naming no header file must not come out under any metadata (an error item is what is expected).
-/
namespace RpmVerif.Driver.C07
open RpmVerif.Cpio RpmVerif.Driver RpmVerif.FileIter

/-! Both ops: the model runs `FileIter.collectMem` — `FileIterator::next` as a state machine, drained like `collect()`
does, past error items — ONCE; the items up to the first error (`uptoErr`, = `Cpio.iterateE` by
`iterateE_is_prefix_mem`) give the per-item part of the observation, the whole list gives `all=<k>:<classes>:<fnv>`
(`FileIterObs.allObs`).  Spec for `all=`: the iterator must end (`fails:runaway` otherwise). -/

def ops : List String := ["files", "filesraw", "filesz07"]

/-! ## content generators (same as `content_of` in the harness) -/

def genR (seed size : Nat) : Bytes := (List.range size).map fun i => ((seed + i) % 251).toUInt8

def genP (seed size : Nat) : Bytes := Id.run do
  let mut s : UInt64 := seed.toUInt64
  let mut out : ByteArray := ByteArray.empty
  for _ in [0:(size + 7) / 8] do
    s := s + 0x9E3779B97F4A7C15
    let mut z := s
    z := (z ^^^ (z >>> 30)) * 0xBF58476D1CE4E5B9
    z := (z ^^^ (z >>> 27)) * 0x94D049BB133111EB
    z := z ^^^ (z >>> 31)
    for k in [0:8] do
      out := out.push (z >>> (8 * k).toUInt64).toUInt8
  return out.toList.take size

def contentOf (kind : Char) (seed size : Nat) : Bytes := if kind == 'r' then genR seed size else genP seed size

/-! ## observation text -/

def octal (n : Nat) : String := String.ofList (Nat.toDigits 8 n)

def pathRepr (p : Bytes) : String :=
  if p.length ≤ 40 then hexOrDash p else s!"L{p.length}.{hex16 (fnv p)}"

structure Item where
  path : Bytes
  size : Nat
  content : Bytes
  mode : Nat
  dg : String

def Item.str (i : Item) : String :=
  s!"{pathRepr i.path}:{i.size}:{i.content.length}:{hex16 (fnv i.content)}:{octal i.mode}:{i.dg}"

def obsOf (items : List Item) (ar : String) (errAt : Option Nat) (all : String) : String :=
  let base := s!"ok n={items.length} ar={ar}"
  let base := items.foldl (fun s i => s ++ " " ++ i.str) base
  (match errAt with | some k => base ++ s!" err@{k}" | none => base) ++ s!" all={all}"

/-- split the model's iteration result into the yielded items and the position of the first error -/
def splitIter {α} : List (Out α) → List α × Option Nat
  | l =>
    let oks := l.filterMap fun o => match o with | .ok c => some c | _ => none
    (oks, if oks.length < l.length then some oks.length else none)

/-! ## parsed implementation observation -/

structure IItem where
  path : String
  size : String
  len : String
  fnv : String
  mode : String
  dg : String

structure IObs where
  n : String
  items : List IItem
  err : Option String
  all : String

def parseImpl (impl : String) : Option IObs :=
  match impl.splitOn " " with
  | "ok" :: n :: _ar :: rest0 =>
    let all := ((rest0.find? (·.startsWith "all=")).map fun t => (t.drop 4).toString).getD "?"
    let rest := rest0.filter fun t => !t.startsWith "all="
    let (its, errs) := rest.partition fun t => !t.startsWith "err@"
    let items := its.filterMap fun t => match t.splitOn ":" with
      | [p, s, l, f, m, d] => some ⟨p, s, l, f, m, d⟩
      | _ => none
    if items.length ≠ its.length then none else
    some ⟨n.drop 2 |>.toString, items, errs.head?, all⟩
  | _ => none

/-! ## `files` -/

structure Spec where
  dest : Bytes
  perm : Nat
  size : Nat
  kind : Char
  seed : Nat

def parseOct (s : String) : Option Nat :=
  s.toList.foldlM (fun acc c => if '0' ≤ c ∧ c ≤ '7' then some (acc * 8 + (c.toNat - 48)) else none) 0

def parseF (t : String) : Option Spec :=
  match t.splitOn ":" with
  | [p, m, s, ks] => do
    let dest ← bytesOfHex p
    let perm ← parseOct m
    let size ← s.toNat?
    let kind ← ks.toList.head?
    let seed ← (String.ofList ks.toList.tail).toNat?
    pure ⟨dest, perm, size, kind, seed⟩
  | _ => none

/-- `add_data` (Model/AddData.lean): the archive name is "." ++ dir ++ base name, with dir / base name split off the destination
by `std::path` (so `/srv/d///f` and `/srv/d/f` are ONE file, `/opt//conf/s` and `/opt/conf/s` are two). The generator only
sends destinations `add_data` accepts; for anything else the old reading (dest, or "." ++ dest) is kept. -/
def cpioPath (dest : Bytes) : Bytes :=
  match RpmVerif.AddData.addData dest with
  | .ok r => r.1
  | _ => if dest.head? = some 46 then dest else 46 :: dest
/-- header path = dir ++ basename = the cpio path without its leading '.' -/
def headerPath (cpio : Bytes) : Bytes := cpio.drop 1

def firstDiff (exp imp : List IItem) : String :=
  match exp, imp with
  | e :: es, i :: is =>
    if e.path ≠ i.path then "order"
    else if e.size ≠ i.size ∨ e.len ≠ i.len then "size"
    else if e.fnv ≠ i.fnv then "content"
    else if e.mode ≠ i.mode then "mode"
    else if e.dg ≠ i.dg then "digest"
    else firstDiff es is
  | [], [] => "none"
  | _, _ => "count"

def compOf (args : List String) : String :=
  match args.find? (·.startsWith "comp=") with
  | some c => ((c.drop 5).toString.splitOn ":").headD "?"
  | none => "?"

def handleFiles (args : List String) (impl : String) : String :=
  let large := args.contains "large=1"
  let fts := args.filter (·.startsWith "f=")
  match fts.mapM (fun t => parseF (t.drop 2).toString) with
  | none => badReq "fspec"
  | some specs =>
    let given : List FileIn := specs.map fun s =>
      ⟨cpioPath s.dest, (if s.kind == 's' then 40960 else 32768) ||| (s.perm &&& 4095), contentOf s.kind s.seed s.size⟩
    -- model of the builder: BTreeMap keyed by cpio path, first insertion wins
    let fs := buildFiles given
    let sizes := fs.map (·.content.length)
    let combined := sizes.foldl (· + ·) 0
    let thr : Option Nat := (args.find? (·.startsWith "thr=")).bind fun t => (t.drop 4).toString.toNat?
    -- `combined_file_sizes > u32::MAX`, or the hook's threshold
    let usesLarge := match thr with
      | some n => decide (combined > n)
      | none => if large then decide (combined > 0) else RpmVerif.PWriter.usesLargeFiles fs
    -- standard mode: every entry goes through the `payload::Writer` state machine (sink = the in-memory archive)
    let written := if usesLarge then (Out.ok (), ({ out := builderArchiveLarge fs } : RpmVerif.PWriter.Sink))
                   else RpmVerif.PWriter.builderArchiveW 0 0 fs {}
    if written.1 != Out.ok () then answer "err-build" "fails:err" "built-writer-refused" else
    let archive := written.2.out
    let hpaths := fs.map fun f => headerPath f.path
    let all := collectMem archive hpaths sizes
    let (cs, errAt) := splitIter ((uptoErr all).map (Out.map fun x => (x.1, x.2.2)))
    -- the metadata of an item is that of the header file the iterator looked up for it
    let mItems : List Item := cs.filterMap fun (i, c) => (fs[i]?).map fun f =>
      ⟨headerPath f.path, f.content.length, c, f.mode, if c == f.content then "1" else "0"⟩
    let ar := if compOf args == "none" then hex16 (fnv archive) else "-"
    let model := obsOf mItems ar errAt (FileIterObs.allObs all fun i => hpaths.getD i [])
    -- spec, from the request alone: the given files ordered by cpio path, exact bytes, own metadata
    let dup := (given.map (·.path)).eraseDups.length ≠ given.length
    let tooLong := given.any fun f => f.path.length + 1 > Gen.cpioNameLenMax
    let sorted := (given.toArray.qsort fun a b => bytesLt a.path b.path).toList
    let expItems : List IItem := sorted.map fun f =>
      ⟨pathRepr (headerPath f.path), toString f.content.length, toString f.content.length,
       hex16 (fnv f.content), octal f.mode, "1"⟩
    let verdict :=
      -- the harness iterates the un-reparsed value `build()` returned as well; it answers `mem-differs …` when that differs
      if impl.startsWith "mem-differs" then "fails:unreparsed-value-differs" else
      if dup ∨ tooLong then
        -- which of two files with one destination is kept is not the property's business; that every item handed out has the
        -- recorded size and the recorded digest is (seed C08-7: the second content under the first one's digest)
        match parseImpl impl with
        | some o => if o.items.any (fun i => i.len ≠ i.size) then "fails:size" else if o.items.any (fun i => i.dg == "0") then "fails:digest"
                    else if o.all.startsWith "adapters-differ" then "fails:adapters" else "dontcare"
        | none => "dontcare"
      else match parseImpl impl with
        | none => "fails:err"
        | some o =>
          if o.all == "runaway" then "fails:runaway"
          else if o.all.startsWith "adapters-differ" then "fails:adapters"
          else if o.err.isSome then "fails:err"
          else match firstDiff expItems o.items with
            | "none" => "holds"
            | c => "fails:" ++ c
    let szClass := if sizes.any (· ≥ 1000000) then "-MiB" else if sizes.any (· ≥ 4095) then "-4k+" else ""
    let thrClass := match thr with
      | some n => if combined == n then "-thr=" else if combined == n + 1 then "-thr+1" else "-thr"
      | none => ""
    let branch := s!"built-{compOf args}-{if usesLarge then "stripped" else "newc"}-n{min fs.length 3}{szClass}{thrClass}" ++
      (if dup then "-dup" else "") ++ (if tooLong then "-name>4095" else "")
    answer model verdict branch

/-! ## `filesraw` -/

/-- `Path::new(dir).join(base)` on Unix, on the bytes of the two strings -/
def pathJoin (dir base : Bytes) : Bytes :=
  if base.head? = some 47 then base
  else if dir.isEmpty ∨ dir.getLast? = some 47 then dir ++ base
  else dir ++ [47] ++ base

open RpmVerif.Hdr in
/-- the subset of `get_file_entries` / `get_file_paths` the foreign generator exercises: first entry
with the tag, expected data type, `multizip` stops at the shortest array -/
def fileEntries (h : Hdr.Header) : Option (List (Bytes × Nat × Nat × Bytes)) := do
  let find (tag : Nat) : Option IndexData := (h.entries.find? (·.tag == tag)).map (·.data)
  let strs (tag : Nat) : Option (List Bytes) := match find tag with
    | some (.strArray l) => some l | some (.i18n l) => some l | _ => none
  let i32s (tag : Nat) : Option (List Nat) := match find tag with | some (.int32 l) => some l | _ => none
  match find RpmVerif.Gen.IndexTag.RPMTAG_FILEMODES with
  | none => some []
  | some (.int16 modes) =>
    let users ← strs RpmVerif.Gen.IndexTag.RPMTAG_FILEUSERNAME
    let groups ← strs RpmVerif.Gen.IndexTag.RPMTAG_FILEGROUPNAME
    let digests ← strs RpmVerif.Gen.IndexTag.RPMTAG_FILEDIGESTS
    let mtimes ← i32s RpmVerif.Gen.IndexTag.RPMTAG_FILEMTIMES
    let sizes ← (match find RpmVerif.Gen.IndexTag.RPMTAG_LONGFILESIZES with
      | some (.int64 l) => some l
      | _ => i32s RpmVerif.Gen.IndexTag.RPMTAG_FILESIZES)
    let flags ← i32s RpmVerif.Gen.IndexTag.RPMTAG_FILEFLAGS
    let links ← strs RpmVerif.Gen.IndexTag.RPMTAG_FILELINKTOS
    let bases ← strs RpmVerif.Gen.IndexTag.RPMTAG_BASENAMES
    let dix ← i32s RpmVerif.Gen.IndexTag.RPMTAG_DIRINDEXES
    let dirs ← strs RpmVerif.Gen.IndexTag.RPMTAG_DIRNAMES
    let paths ← (bases.zip dix).mapM fun (b, d) => (dirs[d]?).map (pathJoin · b)
    let n := [paths.length, users.length, groups.length, modes.length, digests.length, mtimes.length,
              sizes.length, flags.length, links.length].foldl min paths.length
    pure ((List.range n).filterMap fun i => do
      pure (← paths[i]?, ← sizes[i]?, ← modes[i]?, ← digests[i]?))
  | _ => none

/-- spec-side reading of the archive: all entries up to the trailer; `clean` = the trailer was reached -/
def listArchive (sizes : List Nat) : Nat → Bytes → List (PayloadEntry × Bytes) × Bool
  | 0, _ => ([], false)
  | fuel + 1, bs =>
    match readerNew sizes bs with
    | .ok (e, fsz, r) =>
      if isTrailer e then ([], true) else
      match readData fsz r with
      | .ok (c, r') =>
        let (l, cl) := listArchive sizes fuel r'
        ((e, c) :: l, cl)
      -- data or padding cut short: the (possibly short) data is kept as the last entry, the archive is not clean
      | _ => ([(e, r.take fsz)], false)
    | _ => ([], false)

/-- the compressor `get_payload_compressor` reads (C05's accessor model) and whether `decompress_stream` has an arm for
it in the build at hand (`feat=nobz`: rpm-rs with its default cargo features, i.e. without bzip2) -/
def compressorOf (h : Hdr.Header) (nobz : Bool) : Out Nat × Bool :=
  match RpmVerif.Acc.getPayloadCompressorVariant h with
  | .ok v => (.ok v, v == 0 || Gen.cargoDefaultFeatureTypes.contains v || (!nobz && Gen.compressionVariants[v]? == some "Bzip2"))
  | o => (o, false)

/-- `dec` = what the streaming decoder hands out before it stops and whether it then fails (`filesz07`; the harness runs the
codec crates), `none` for an uncompressed payload (`filesraw`) -/
def handleRawWith (pkgHex : String) (dec : Option (Bytes × Bool)) (nobz : Bool) (impl : String) : String :=
  match bytesOfHex pkgHex with
  | none => badReq "hex"
  | some bs =>
    match Hdr.parsePackage bs with
    | .ok p =>
      match fileEntries p.md.header with
      | none => answer "err-files" "dontcare" "foreign-header-rejected"
      | some fes =>
        -- `files()`: `get_payload_compressor()?` then `decompress_stream(..)?` - an unknown name and a codec that is not
        -- compiled in are errors of `files()` itself, whatever the payload holds
        let (comp, supported) := compressorOf p.md.header nobz
        if dec.isSome && (!comp.isOk || !supported) then
          answer "err-files" (if impl == "err-files" then "holds" else "fails:unsupported-codec-read")
            (if comp.isOk then "foreign-codec-not-compiled-in" else "foreign-compressor-unknown") else
        let streaming := dec.isSome && comp != .ok 0
        -- Model/Cpio.lean `filesChunked`: the iteration over the bytes decoded so far
        let pcontent := match dec with | some (a, _) => a | none => p.content
        let p : Hdr.Package := { p with content := pcontent }
        let sizes := fes.map (·.2.1)
        let paths := fes.map (·.1)          -- the header's file paths
        -- model: the iterator as it is (metadata index by `fileIndex`)
        let all := collectMem p.content paths sizes
        let its := uptoErr all
        let (arch, clean) := listArchive sizes (p.content.length + 1) p.content
        -- the part of the archive the `count` guard lets the iterator reach
        let reach := arch.take fes.length
        -- header path an archive entry designates, if it is the path of a header file (spec side)
        let designated (a : PayloadEntry × Bytes) : Option Bytes := match entryPath paths a.1 with
          | some hp => if paths.contains hp then some hp else none
          | none => none
        -- contents the package means for a header path: those of the archive entries that designate it
        let byName (hp : Bytes) : List Bytes := (arch.filter fun a => designated a == some hp).map (·.2)
        let (oks, errAt) := splitIter its
        -- the harness' `dg`: sha256(content) against the recorded digest. For an uncompressed archive the generator contract
        -- (the digest is that of the complete content meant for this path) answers it; a decoder over a DAMAGED stream can
        -- hand out wrong bytes before it notices (or without noticing), so there the driver's own SHA-256 decides
        let shaMatches (dgst c : Bytes) : Bool := (hexOfBytes (Hash.sha256L c)).toUTF8.toList == dgst
        let mItems : List Item := oks.filterMap fun (i, _, c) => (fes[i]?).map fun (path, size, mode, dgst) =>
          ⟨path, size, c, mode,
           if dgst.isEmpty then "n"
           else if streaming then (if shaMatches dgst c then "1" else "0")
           else if (byName path).head? == some c && c.length == size then "1" else "0"⟩
        -- where a decoder is left after it (or the cpio reader on top of it) failed is not modelled: the drained view
        -- `all=` is predicted only when no error item occurs; up to the first error the items are predicted exactly
        let allField := if streaming && errAt.isSome then (match parseImpl impl with | some o => o.all | none => "?")
          else FileIterObs.allObs all fun i => paths.getD i []
        let model := obsOf mItems "-" errAt allField
        -- A decoder that FAILS on a damaged stream: how many bytes it hands out before it notices depends on how it is read
        -- (buffer sizes of `read_exact` / `read_to_end` vs. the harness' 97-byte reads: a truncated zstd stream gave the real
        -- iterator one more complete entry than the harness' own decoding of the same bytes). `C07.files_chunked_prefix` holds
        -- for whatever the decoder hands out, so nothing exact is predicted there (`*`); judged: the items both sides have in
        -- common are the same items (path, length, content) — never a wrong item — and the rest is don't-care.
        let decoderFailed := match dec with | some (_, f) => f | none => false
        if streaming && decoderFailed then
          let v := match parseImpl impl with
            | none => "dontcare"
            | some o =>
              let k := min o.items.length mItems.length
              let same := ((o.items.take k).zip (mItems.take k)).all fun (i, m) =>
                i.path == pathRepr m.path && i.len == toString m.content.length && i.fnv == hex16 (fnv m.content)
              if o.all == "runaway" then "fails:runaway" else if same then "dontcare" else "fails:content"
          answer "*" v s!"foreign-stream-failed-{if comp == .ok 0 then "none" else "codec"}" else
        -- spec: pairing by name, judged on the implementation's observation
        let unknownAt := reach.findIdx? fun a => (designated a).isNone
        let verdict := match parseImpl impl with
          | none => "dontcare"
          | some o =>
            let judge (j : Nat) (i : IItem) : Option String :=
              -- the metadata the implementation attached: the header file with that path
              match fes.find? (fun fe => pathRepr fe.1 == i.path) with
              | none => some "content"
              | some fe =>
                let posFnv := (arch[j]?).map fun a => hex16 (fnv a.2)
                let cands := byName fe.1
                -- several entries may name the same file: the item must be one of them
                match cands.find? (fun c => hex16 (fnv c) == i.fnv && toString c.length == i.len) with
                | none => some (if posFnv == some i.fnv then "position-pairing" else if clean then "content" else "short-content")
                | some _ =>
                  -- size and digest are recorded once per file: judged when the archive is unanimous about the content
                  if cands.eraseDups.length ≠ 1 then none
                  -- the item IS the content of the (only) archive entry naming this file, but the archive entry's own `filesize`
                  -- is not the size the rpm header records for the file (`C07.item_length_eq_recorded_iff`): its own class
                  else if i.len ≠ i.size then some (if clean then "recorded-size-disagrees" else "short-content")
                  -- a content the damaged stream itself delivers wrong is the package's inconsistency, not the iterator's
                  else if i.dg == "0" && !(streaming && cands.all (fun c => !shaMatches fe.2.2.2 c)) then some "digest"
                  else none
            let fails := (o.items.zipIdx.filterMap fun (i, j) => judge j i)
            if o.all == "runaway" then "fails:runaway"
            else if o.all.startsWith "adapters-differ" then "fails:adapters"
            else if fails.contains "position-pairing" then "fails:position-pairing"
            -- an archive entry whose own `filesize` contradicts the size the header records is an INCONSISTENT package: the two
            -- demands of the property ("exactly the bytes stored for it", "its length equals the recorded size") cannot both be
            -- met and its quantifier lists no such packages — don't-care, not a failure (the model still has to predict the
            -- code exactly; `C07.item_length_eq_recorded_iff` says when it happens)
            else match (fails.filter (· ≠ "recorded-size-disagrees")).head? with
              | some c => "fails:" ++ c
              | none =>
                if fails.contains "recorded-size-disagrees" then "dontcare" else
                if !clean then "dontcare"                       -- damaged archive: an error is acceptable
                else match unknownAt with
                  | some k =>
                    -- an entry that names no header file: nothing may come out for it under some file's
                    -- metadata (judged above); an error is expected, items after it are not demanded
                    if o.err.isSome ∧ o.items.length ≤ k then "holds"
                    else if o.items.length > reach.length - 1 then "fails:count"
                    else "dontcare"
                  | none =>
                    if o.err.isSome then "fails:err"
                    else if o.items.length ≠ min arch.length fes.length then "fails:count"
                    else "holds"
        let kind := match arch.head? with
          | some (.cpio e, _) => if e.crc then "crc" else "newc"
          | some (.stripped _, _) => "stripped"
          | none => "empty"
        let idxs := arch.map fun a => (designated a).map fun hp => paths.idxOf hp
        let known := idxs.filterMap id
        let shape :=
          if !clean then "truncated"
          else if unknownAt.isSome then "unknown-name"
          else if known.eraseDups.length ≠ known.length then "duplicate-name"
          else if known == List.range fes.length then "same-order"
          else if known.length < fes.length && (known.zip (known.drop 1)).all (fun (a, b) => a < b) then "ghost-omitted"
          else "reordered"
        let plain := match arch.head? with
          | some (.cpio e, _) => if namePath e.name == e.name then "-plain-name" else ""
          | _ => ""
        let nuls := match arch.head? with
          | some (.cpio e, _) => if (p.content.drop 94).take 8 == fmtHex8 (e.name.length + 1) then "" else "-padded-name"
          | _ => ""
        let zs := match dec with
          | some (_, failed) => if !streaming then "-nocodec" else if failed then "-z-failed" else "-z-eof"
          | none => ""
        -- numeric fields of the first entry spelled with upper-case digits / a leading `+` (both accepted by `from_str_radix`)
        let alt := match arch.head? with
          | some (.cpio _, _) => if ((p.content.drop 6).take 104).any (fun b => b == 43 || (65 ≤ b.toNat && b.toNat ≤ 70)) then "-altspelling" else ""
          | some (.stripped _, _) => if ((p.content.drop 6).take 8).any (fun b => b == 43 || (65 ≤ b.toNat && b.toNat ≤ 70)) then "-altspelling" else ""
          | none => ""
        let nuls := if alt == "" then nuls else ""
        answer model verdict s!"foreign-{kind}-{shape}{plain}{nuls}{alt}{zs}"
    | _ => answer "err-parse" "dontcare" "foreign-unparsable"

def handleRaw (pkgHex : String) (impl : String) : String := handleRawWith pkgHex none false impl

def handle (op : String) (args : List String) (impl : String) : String :=
  match op, args with
  | "files", _ => handleFiles args impl
  | "filesraw", [pkg] => handleRaw pkg impl
  | "filesz07", pkg :: dechex :: how :: rest =>
    let nobz := rest.contains "feat=nobz"
    if how == "none" then handleRawWith pkg (some ([], true)) nobz impl
    else match bytesOfHex dechex with
      | some d => handleRawWith pkg (some (d, how == "fail")) nobz impl
      | none => badReq "decoded"
  | _, _ => badReq "args"

end RpmVerif.Driver.C07
