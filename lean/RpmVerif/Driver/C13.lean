import RpmVerif.Driver.Common
import RpmVerif.Spec.Vercmp
import RpmVerif.Model.Version
/-! Driver for C13. Ops:
  `vercmp A B`                      – `Evr::new("",A,"").cmp(..)`   (A, B hex of UTF-8)
  `evrcmp E1 V1 R1 E2 V2 R2`        – `Evr::cmp`, `==`, `partial_cmp`, `<`, `<=`, `>`, `>=`, `max`, `min`
                                      obs `ord,eqflag,pc,lt,le,gt,ge,max,min` (pc ∈ lt|eq|gt|none; flags 0|1; max / min name the
                                      argument that came back: l | r | b (both arguments are field-wise alike) | ?)
  `nevracmp N1 E1 V1 R1 A1 N2 …`    – the same for `Nevra`
The spec side is rpm's algorithm run on the UTF-8 *bytes*, the model runs on code points. -/
namespace RpmVerif.Driver.C13
open RpmVerif.Vercmp RpmVerif.Driver

def rankLabel (a b : List Nat) : String :=
  let rec go : List K → List K → Nat → String
    | p :: s, q :: t, i => if cmpK p q == .eq then go s t (i + 1)
        else s!"tok{min i 3}-r{p.1}{q.1}"
    | _, _, i => s!"same-{min i 3}"
  if a == b then "identical" else go (key a) (key b) 0

def cEvr (e1 v1 r1 e2 v2 r2 : List Nat) : Ordering :=
  (cVercmp (epochOr0 e1) (epochOr0 e2)).then ((cVercmp v1 v2).then (cVercmp r1 r2))

def b01 (b : Bool) : String := if b then "1" else "0"
def pcStr : Option Ordering → String | some o => ordStr o | none => "none"
/-- which argument came back from `max` / `min` -/
def which {α} [DecidableEq α] (m x y : α) : String :=
  if x = y then "b" else if m = x then "l" else if m = y then "r" else "?"

def opsObs (ord : Ordering) (eq : Bool) (pc : Option Ordering) (lt le gt ge : Bool) (mx mn : String) : String :=
  ",".intercalate [ordStr ord, toString eq, pcStr pc, b01 lt, b01 le, b01 gt, b01 ge, mx, mn]

/-- the property on one observation, `so` = rpm's order of the two values: `cmp` says `so`; `==` only where `cmp` says
Equal; `partial_cmp`, `<`, `<=`, `>`, `>=` all tell the same relation; `max` / `min` hand back an argument that is an upper /
lower bound (on a tie either one will do) -/
def judgeOps (so : Ordering) (impl : String) : String :=
  match impl.splitOn "," with
  | [o, e, pc, lt, le, gt, ge, mx, mn] =>
    if o != ordStr so then "fails"
    else if e == "true" && o != "eq" then "fails:eq-but-not-equal"
    else if pc != ordStr so then "fails:partial-cmp"
    else if lt != b01 (so == .lt) || le != b01 (so != .gt) || gt != b01 (so == .gt) || ge != b01 (so != .lt) then "fails:operator"
    else if !((mx == "b") || (so != .gt && mx == "r") || (so != .lt && mx == "l")) then "fails:max"
    else if !((mn == "b") || (so != .gt && mn == "l") || (so != .lt && mn == "r")) then "fails:min"
    else "holds"
  | _ => if impl == "panic" then "fails:panic" else "fails:malformed"

def handle (op : String) (args : List String) (impl : String) : String :=
  match op, args with
  | "vercmp", [ha, hb] =>
    match codePointsOfHex ha, codePointsOfHex hb, bytesOfHex ha, bytesOfHex hb with
    | some a, some b, some ba, some bb =>
      let m := ordStr (rustCmp a b)
      let s := ordStr (cVercmp (natsOfBytes ba) (natsOfBytes bb))
      answer m (verdictOf (impl == s)) (rankLabel a b)
    | _, _, _, _ => badReq "utf8"
  | "evrcmp", [e1, v1, r1, e2, v2, r2] =>
    match [e1, v1, r1, e2, v2, r2].mapM codePointsOfHex, [e1, v1, r1, e2, v2, r2].mapM bytesOfHex with
    | some [a1, a2, a3, b1, b2, b3], some [c1, c2, c3, d1, d2, d3] =>
      let x : Evr := ⟨a1, a2, a3⟩; let y : Evr := ⟨b1, b2, b3⟩
      let m := opsObs (x.cmp y) (x.eq y) (x.partialCmp y) (x.lt y) (x.le y) (x.gt y) (x.ge y) (which (x.max y) x y) (which (x.min y) x y)
      let so := cEvr (natsOfBytes c1) (natsOfBytes c2) (natsOfBytes c3) (natsOfBytes d1) (natsOfBytes d2) (natsOfBytes d3)
      -- spec: ordering equals the rpm ordering; "equal ⇒ compares equal"; the operators tell the same relation
      answer m (judgeOps so impl) ("evr-" ++ ordStr so ++ (if x.eq y then "-alike" else ""))
    | _, _ => badReq "utf8"
  | "nevracmp", [n1, e1, v1, r1, a1, n2, e2, v2, r2, a2] =>
    match [n1, e1, v1, r1, a1, n2, e2, v2, r2, a2].mapM codePointsOfHex,
          [n1, e1, v1, r1, a1, n2, e2, v2, r2, a2].mapM bytesOfHex with
    | some [x1, x2, x3, x4, x5, y1, y2, y3, y4, y5], some [c1, c2, c3, c4, c5, d1, d2, d3, d4, d5] =>
      let x : Nevra := ⟨x1, ⟨x2, x3, x4⟩, x5⟩; let y : Nevra := ⟨y1, ⟨y2, y3, y4⟩, y5⟩
      let m := opsObs (x.cmp y) (x.eq y) (x.partialCmp y) (x.lt y) (x.le y) (x.gt y) (x.ge y) (which (x.max y) x y) (which (x.min y) x y)
      let n := natsOfBytes
      let so := (cVercmp (n c1) (n d1)).then ((cEvr (n c2) (n c3) (n c4) (n d2) (n d3) (n d4)).then (cVercmp (n c5) (n d5)))
      answer m (judgeOps so impl) ("nevra-" ++ ordStr so ++ (if x.eq y then "-alike" else ""))
    | _, _ => badReq "utf8"
  | "evrstrcmp", [hs, ht] =>
    match codePointsOfHex hs, codePointsOfHex ht, bytesOfHex hs, bytesOfHex ht with
    | some a, some b, some ba, some bb =>
      let m := ordStr (RpmVerif.Version.rpmEvrCompare a b)
      -- spec: split at the first ':' then the first '-' (bytes), compare with rpm's algorithm
      let (e1, v1, r1) := RpmVerif.Version.evrParseValues (natsOfBytes ba)
      let (e2, v2, r2) := RpmVerif.Version.evrParseValues (natsOfBytes bb)
      let so := cEvr e1 v1 r1 e2 v2 r2
      answer m (verdictOf (impl == ordStr so)) ("evrstr-" ++ ordStr so)
    | _, _, _, _ => badReq "utf8"
  | _, _ => badReq "op"

def ops : List String := ["vercmp", "evrcmp", "nevracmp", "evrstrcmp"]

end RpmVerif.Driver.C13
