import RpmVerif.Driver.Common
import RpmVerif.Spec.FileMode
/-! Driver for C18. Ops (numbers in decimal):
  `fm16 W`              – `FileMode::from(W as u16)`, 0 ≤ W < 65536
  `fm32 N`              – `FileMode::from(N as i32)` and `FileMode::try_from_raw(N)`, N an `i32`
  `fmctor K P`          – `FileMode::regular / dir / symbolic_link (P as u16)`, K ∈ reg | dir | sym
  `fm32blk START COUNT` – the integers START … START+COUNT−1 through `FileMode::from(i32)`, digested
Observation of one value: `kind,raw,type,perm,u16,u32,err,stored,field,rt,heq,reason`
  kind ∈ dir | reg | sym | inv | other; `raw_mode()`, `file_type()`, `permissions()`, `u16::from` as 4 hex
  digits, `u32::from` as 8; err ∈ ok | err (`to_result` / `try_from_raw`); stored = the `raw_mode`
  field of `Invalid` in decimal, `-` for the other variants; field = the `permissions` FIELD of the variant read by
  pattern matching (4 hex digits, `-` for `Invalid`); rt = 1 when `FileMode::from(m.raw_mode()) == m`; heq = 1 when the
  two hash alike (`DefaultHasher`); reason ∈ u | o | x | - : the `reason` of an `Invalid` is the one `From<u16>` gives an
  unknown type / the one `From<i32>` gives an out-of-range integer / neither / not an `Invalid`.
Observation of a block: `digest,ninvalid,firstbad` — a 64-bit digest over the per-value observations,
  the number of values reported invalid (variant `Invalid` and an error), and the first value that was
  not (or `-`).
The verdict is `Spec/FileMode.lean` evaluated on the implementation's observation. -/
namespace RpmVerif.Driver.C18
open RpmVerif.FileMode RpmVerif.FileMode.Spec RpmVerif.Driver

def hexW (digits n : Nat) : String :=
  String.ofList ((List.range digits).reverse.map fun i => hexDigit (n / 16 ^ i % 16))

def parseHex (s : String) : Option Nat :=
  if s.isEmpty then none else
  s.toList.foldlM (fun acc c => (hexVal c).map (acc * 16 + ·)) 0

def kindStr : Kind → String
  | .dir => "dir" | .regular => "reg" | .symlink => "sym" | .invalid => "inv" | .other => "other"

def parseKind : String → Option Kind
  | "dir" => some .dir | "reg" => some .regular | "sym" => some .symlink | "inv" => some .invalid
  | "other" => some .other | _ => none

def fmtObs (o : Obs) : String :=
  ",".intercalate [kindStr o.kind, hexW 4 o.raw, hexW 4 o.ftype, hexW 4 o.perm, hexW 4 o.back16, hexW 8 o.back32,
    (if o.err then "err" else "ok"), (match o.stored with | some n => toString n | none => "-"),
    (match o.field with | some f => hexW 4 f | none => "-"), (if o.rtEq then "1" else "0"), (if o.hashEq then "1" else "0"),
    (match o.reason with | some .unknownFileType => "u" | some .outOf16BitBounds => "o" | none => "-")]

def parseReason : String → Option (Option Reason)
  | "u" => some (some Reason.unknownFileType)
  | "o" => some (some Reason.outOf16BitBounds)
  | "-" => some none
  | "x" => some none
  | _ => none

def parseObs (s : String) : Option Obs :=
  match s.splitOn "," with
  | [k, r, t, p, b16, b32, e, st, fl, rt, hq, rs] => do
    let kind ← parseKind k
    let raw ← parseHex r
    let ftype ← parseHex t
    let perm ← parseHex p
    let back16 ← parseHex b16
    let back32 ← parseHex b32
    let err ← (match e with | "err" => some true | "ok" => some false | _ => none)
    let stored ← (if st == "-" then some none else st.toInt?.map some)
    let field ← (if fl == "-" then some none else (parseHex fl).map some)
    let rtEq ← (match rt with | "1" => some true | "0" => some false | _ => none)
    let hashEq ← (match hq with | "1" => some true | "0" => some false | _ => none)
    let reason ← parseReason rs
    pure { kind, raw, ftype, perm, back16, back32, err, stored, field, rtEq, hashEq, reason }
  | _ => none

/-- verdict of a Bool spec on the implementation's observation text -/
def judge (impl : String) (spec : Obs → Bool) : String :=
  if impl == "panic" then "fails:panic" else
  match parseObs impl with
  | some o => verdictOf (spec o)
  | none => "fails:unparsable"

def bitsLabel (w : Nat) : String :=
  if typeBits w == 0o040000 then "dir" else if typeBits w == 0o100000 then "reg"
  else if typeBits w == 0o120000 then "sym" else "inv"

/-! ### block digest (the same arithmetic as `harness/src/c18.rs`) -/

def mix (h v : UInt64) : UInt64 :=
  let x := (h ^^^ v) * 0x100000001b3
  x ^^^ (x >>> 29)

def kindCode : Kind → Nat
  | .dir => 0 | .regular => 1 | .symlink => 2 | .invalid => 3 | .other => 4

def digestObs (h : UInt64) (o : Obs) : UInt64 :=
  let x1 := kindCode o.kind + (if o.err then 8 else 0) + o.raw * 256 + o.ftype * 16777216 + o.perm * 1099511627776
  let x2 := o.back16 + o.back32 * 65536
  let x3 := match o.stored with | some n => (n % 4294967296).toNat | none => 4294967296
  let x4 := (match o.field with | some f => f | none => 65536) + (if o.rtEq then 131072 else 0) + (if o.hashEq then 262144 else 0)
    + (match o.reason with | some .unknownFileType => 524288 | some .outOf16BitBounds => 1048576 | none => 0)
  mix (mix (mix (mix h x1.toUInt64) x2.toUInt64) x3.toUInt64) x4.toUInt64

structure Blk where
  h : UInt64
  ninv : Nat
  bad : Option Int

def blkLoop (n : Int) : Nat → Blk → Blk
  | 0, s => s
  | k + 1, s =>
    let o := observe (fromI32 n)
    let good := o.kind == .invalid && o.err
    blkLoop (n + 1) k
      { h := digestObs s.h o, ninv := if good then s.ninv + 1 else s.ninv,
        bad := if good then s.bad else match s.bad with | some b => some b | none => some n }

def fmtBlk (b : Blk) : String :=
  hexW 16 b.h.toNat ++ "," ++ toString b.ninv ++ "," ++ (match b.bad with | some n => toString n | none => "-")

def handle (op : String) (args : List String) (impl : String) : String :=
  match op, args with
  | "fm16", [ws] =>
    match ws.toNat? with
    | some w =>
      if w < 65536 then
        answer (fmtObs (observe (fromU16 w))) (judge impl (specWord w)) ("w-" ++ bitsLabel w)
      else badReq "range"
    | none => badReq "number"
  | "fm32", [ns] =>
    match ns.toInt? with
    | some n =>
      if -2147483648 ≤ n ∧ n ≤ 2147483647 then
        let label :=
          if n > 65535 then "i-above" else if n < -32768 then "i-below"
          else (if n < 0 then "i-neg-" else "i-pos-") ++ bitsLabel (n % 65536).toNat
        answer (fmtObs (observe (fromI32 n))) (judge impl (specInt n)) label
      else badReq "range"
    | none => badReq "number"
  | "fmx", [ty, ns] =>
    -- a conversion from an integer type the crate has none for today: the model says `absent`; should one appear, the spec
    -- judges it like the i32 conversion (outside the 16-bit range: invalid; inside: the word with that bit pattern)
    match ns.toInt? with
    | some n =>
      let v := if impl == "absent" || impl == "unrepresentable" then "holds" else judge impl (specInt n)
      answer (if impl == "unrepresentable" then "unrepresentable" else "absent") v ("x-" ++ ty)
    | none => badReq "number"
  | "fmctor", [ks, ps] =>
    match ps.toNat? with
    | some p =>
      if p < 65536 then
        let masked := if p < 4096 then "-kept" else "-masked"
        match ks with
        | "reg" => answer (fmtObs (observe (mkRegular p))) (judge impl (specCtor .regular p)) ("ctor-reg" ++ masked)
        | "dir" => answer (fmtObs (observe (mkDir p))) (judge impl (specCtor .dir p)) ("ctor-dir" ++ masked)
        | "sym" => answer (fmtObs (observe (mkSymlink p))) (judge impl (specCtor .symlink p)) ("ctor-sym" ++ masked)
        | _ => badReq "kind"
      else badReq "range"
    | none => badReq "number"
  | "fm32blk", [ss, cs] =>
    match ss.toInt?, cs.toNat? with
    | some start, some count =>
      if -2147483648 ≤ start ∧ start + count ≤ 2147483648 ∧ 0 < count then
        let m := fmtBlk (blkLoop start count { h := 0xcbf29ce484222325, ninv := 0, bad := none })
        let last := start + count - 1
        -- the closed form of the property for a block wholly outside the 16-bit range: every value is
        -- reported invalid. Blocks that meet the range are judged value by value (`fm32`), not here.
        if start > 65535 ∨ last < -32768 then
          let v := match impl.splitOn "," with
            | [_, ninv, bad] => verdictOf (ninv == toString count && bad == "-")
            | _ => if impl == "panic" then "fails:panic" else "fails:unparsable"
          answer m v (if start > 65535 then "blk-above" else "blk-below")
        else answer m "dontcare" "blk-inrange"
      else badReq "range"
    | _, _ => badReq "number"
  | _, _ => badReq "op"

def ops : List String := ["fm16", "fm32", "fmctor", "fm32blk", "fmx"]

end RpmVerif.Driver.C18
