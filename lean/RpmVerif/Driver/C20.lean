import RpmVerif.Driver.Common
import RpmVerif.Model.Timestamp
import RpmVerif.Spec.Timestamp
/-! Driver for C20. An instant travels as `<secs:i64> <nanos:u32>` (secs = floor, nanos < 10⁹).
Ops:
  `tssys S N`            – `Timestamp::try_from(UNIX_EPOCH ± Duration)`               (SystemTime)
  `tsutc S N`            – `Timestamp::try_from(DateTime::<Utc>::from_timestamp(S,N))`
  `tsfix S N OFF`        – the same instant `.with_timezone(&FixedOffset::east(OFF))`  (OFF seconds)
  `tspair K1 S1 N1 O1 K2 S2 N2 O2` – two conversions (`K ∈ sys|utc|fix`), observation `r1 & r2`
Observations: `ok <n> | underflow | overflow | panic | unrepresentable` (the harness could not
construct the value: outside `SystemTime` / chrono's range – `dontcare`).
The verdict comes from `TimestampSpec` on the floor `S` alone, never from the model functions. -/
namespace RpmVerif.Driver.C20
open RpmVerif.Timestamp RpmVerif.TimestampSpec RpmVerif.Driver

def mkInstant (s n : String) : Option Instant :=
  match s.toInt?, n.toNat? with
  | some secs, some nanos => if h : nanos < 1000000000 then some ⟨secs, nanos, h⟩ else none
  | _, _ => none

def mkSource (kind : String) (t : Instant) (off : String) : Option Source :=
  match kind, off.toInt? with
  | "sys", some _ => some (.sys t)
  | "utc", some _ => some (.chrono ⟨t, 0⟩)
  | "fix", some o => if -86400 < o ∧ o < 86400 then some (.chrono ⟨t, o⟩) else none
  | _, _ => none

/-- every platform here represents at least ±2⁴¹ s in both `SystemTime` and chrono; inside that
core an `unrepresentable` from the harness is a plumbing error and must show as a disagreement -/
def inCore (secs : Int) : Bool := -2199023255552 ≤ secs && secs ≤ 2199023255552

def near (x c : Int) : Bool := c - 2000 ≤ x && x ≤ c + 2000

def region (secs : Int) : String :=
  if near secs 0 then (if secs < 0 then "epoch-below" else "epoch-above")
  else if near secs 2147483648 then "2^31"
  else if near secs 4294967296 then (if secs < 4294967296 then "2^32-below" else "2^32-above")
  else if secs < 0 then (if inCore secs then "negative" else "negative-extreme")
  else if secs < 4294967296 then "inside"
  else if inCore secs then "beyond" else "beyond-extreme"

def subsec (n : Nat) : String := if n == 0 then "whole" else "frac"

def offClass (kind : String) (off : Int) : String :=
  if kind != "fix" then kind
  else if off == 0 then "fix0" else if off % 3600 == 0 then "fix-hour" else "fix-odd"

def modelObs (s : Source) (impl : String) : String :=
  if impl == "unrepresentable" && !inCore s.instant.secs then "*" else (convert s).wire

def handleOne (kind : String) (s n off : String) (impl : String) : String :=
  match mkInstant s n with
  | none => badReq "instant"
  | some t =>
    match mkSource kind t off with
    | none => badReq "source"
    | some src =>
      let label :=
        if impl == "unrepresentable" then "unrepresentable"
        else if kind == "utc" && subsec t.nanos == "whole" && region t.secs == "inside" then "plain"
        else offClass kind (off.toInt?.getD 0) ++ ":" ++ region t.secs ++ ":" ++ subsec t.nanos
      answer (modelObs src impl) (judge t.secs impl) label

def handle (op : String) (args : List String) (impl : String) : String :=
  match op, args with
  | "tssys", [s, n] => handleOne "sys" s n "0" impl
  -- the modification time of a source file handed to `PackageBuilder::with_file`: the same SystemTime conversion, reached
  -- through the builder (src/rpm/builder.rs `modified()?.try_into()?`)
  | "tsfile", [s, n] => handleOne "sys" s n "0" impl
  | "tsutc", [s, n] => handleOne "utc" s n "0" impl
  | "tsfix", [s, n, off] => handleOne "fix" s n off impl
  | "tspair", [k1, s1, n1, o1, k2, s2, n2, o2] =>
    match mkInstant s1 n1, mkInstant s2 n2 with
    | some t1, some t2 =>
      match mkSource k1 t1 o1, mkSource k2 t2 o2 with
      | some a, some b =>
        match impl.splitOn " & " with
        | [i1, i2, ord] =>
          -- the order of the two `Timestamp` values under the type's own `Ord`
          -- (`#[derive(Ord)]` on the `u32` newtype: the order of the numbers)
          let mOrd := match convert a, convert b with
            | .ok x, .ok y => if x < y then "lt" else if x == y then "eq" else "gt"
            | _, _ => "-"
          let m := modelObs a i1 ++ " & " ++ modelObs b i2 ++ " & " ++ mOrd
          let m := if (modelObs a i1 == "*" || modelObs b i2 == "*") then "*" else m
          let rel := if t1.secs == t2.secs && t1.nanos == t2.nanos then "same"
            else if t1.secs == t2.secs then "same-second" else "apart"
          let both := (okValue i1).isSome && (okValue i2).isSome
          let far := both && (t1.secs - t2.secs ≥ 2147483648 || t2.secs - t1.secs ≥ 2147483648)
          let label := if i1 == "unrepresentable" || i2 == "unrepresentable" then "unrepresentable"
            else "pair:" ++ k1 ++ "-" ++ k2 ++ ":" ++ rel ++ (if far then ":far" else "") ++ (if both then ":both-ok" else ":vacuous")
          -- "preserves ordering": instant1 ≤ instant2 ⇒ Timestamp1 ≤ Timestamp2 (and symmetrically)
          let le12 := t1.secs < t2.secs || (t1.secs == t2.secs && t1.nanos ≤ t2.nanos)
          let le21 := t2.secs < t1.secs || (t1.secs == t2.secs && t2.nanos ≤ t1.nanos)
          let vOrd :=
            if !both then (if ord == "-" then "holds" else "fails:order-of-nothing")
            else if ord == "incoherent" then "fails:ord-incoherent"
            else if le12 && ord == "gt" then "fails:order-not-preserved"
            else if le21 && ord == "lt" then "fails:order-not-preserved"
            else if ord == "lt" || ord == "eq" || ord == "gt" then "holds" else "fails:malformed"
          let v := judgePair t1.secs t1.nanos t2.secs t2.nanos i1 i2
          answer m (if v == "holds" || v == "dontcare" then (if vOrd == "holds" then v else vOrd) else v) label
        | _ => answer ((convert a).wire ++ " & " ++ (convert b).wire) "fails:malformed" "pair:malformed"
      | _, _ => badReq "source"
    | _, _ => badReq "instant"
  | "tsleap", [kind, sS, extra, off] =>
    -- a chrono reading inside a leap second: `timestamp()` is the second it hangs on; whether that instant counts
    -- as second S or S+1 "since the epoch" the property does not say (dontcare), but it must not panic
    match mkInstant sS extra with
    | none => badReq "instant"
    | some t =>
      match mkSource kind t off with
      | none => badReq "source"
      | some src =>
        let v := if impl == "panic" then "fails:panic" else "dontcare"
        answer (modelObs src impl) v ("leap:" ++ kind ++ ":" ++ region t.secs)
  | _, _ => badReq "op"

def ops : List String := ["tssys", "tsutc", "tsfix", "tspair", "tsleap", "tsfile"]

end RpmVerif.Driver.C20
