import RpmVerif.Driver.Common
import RpmVerif.Model.Timestamp
import RpmVerif.Spec.Timestamp
/-! Driver for C20. An instant travels as `<secs:i64> <nanos:u32>` (secs = floor, nanos < 10⁹).
Ops:
  `tssys S N`            – `Timestamp::try_from(UNIX_EPOCH ± Duration)`               (SystemTime)
  `tsutc S N`            – `Timestamp::try_from(DateTime::<Utc>::from_timestamp(S,N))`
  `tsfix S N OFF`        – the same instant `.with_timezone(&FixedOffset::east(OFF))`  (OFF seconds)
  `tspair K1 S1 N1 O1 K2 S2 N2 O2` – two conversions (`K ∈ sys|utc|fix`), observation `r1 & r2`
  `tscal20 KIND Y M D h m s FRAC OFF` – a `DateTime` built from CALENDAR FIELDS on a wall clock OFF seconds east of UTC:
                           KIND = ymd (`NaiveDate::from_ymd_opt(..).and_hms_nano_opt(..)` + `and_local_timezone(FixedOffset)`),
                           rfc (an RFC 3339 text written out by the harness, `DateTime::parse_from_rfc3339`; second 60 for a leap
                           reading), utc (`Utc.with_ymd_and_hms(..)` + `with_nanosecond`, OFF = 0). FRAC < 2·10⁹; from 10⁹ on a
                           reading inside a leap second (only on second 59). The driver computes the seconds with `Calendar`.
  `tsst20 ZONE S N`      – `DateTime::<Utc>::from(SystemTime)` (ZONE = utc) / `DateTime::<Local>::from(SystemTime)` (loc)
  `tsloc20 TZ OFF S N`   – `Local` under the environment variable TZ = the POSIX zone text TZ (hex), in a fresh thread
                           (chrono caches the zone per thread): `Local.timestamp_opt(S, N)`; OFF = the offset the zone must
                           show at that instant (`-` = not stated): the harness answers `tzignored` when chrono shows another
  `tsnow20`              – `Timestamp::now()` on the real clock, bracketed by two readings of `SystemTime::now()`: `in | out`
Observations: `ok <n> | underflow | overflow | panic | unrepresentable` (the harness could not
construct the value: outside `SystemTime` / chrono's range – `dontcare`).
The verdict comes from `TimestampSpec` on the floor `S` alone, never from the model functions. -/
namespace RpmVerif.Driver.C20
open RpmVerif.Timestamp RpmVerif.TimestampSpec RpmVerif.Driver RpmVerif.Calendar

def mkInstant (s n : String) : Option Instant :=
  match s.toInt?, n.toNat? with
  | some secs, some nanos => if h : nanos < 1000000000 then some ⟨secs, nanos, h⟩ else none
  | _, _ => none

def mkSource (kind : String) (t : Instant) (off : String) : Option Source :=
  match kind, off.toInt? with
  | "sys", some _ => some (.sys t)
  | "utc", some _ => some (.chrono ⟨t, 0⟩)
  | "stutc", some _ => some (.chrono ⟨t, 0⟩)
  | "stloc", some _ => some (.chrono ⟨t, 0⟩)
  | "loc", some o => some (.chrono ⟨t, o⟩)
  | "fix", some o => if -86400 < o ∧ o < 86400 then some (.chrono ⟨t, o⟩) else none
  | _, _ => none

/-- every platform here represents at least ±2⁴¹ s in both `SystemTime` and chrono; inside that
core an `unrepresentable` from the harness is a plumbing error and must show as a disagreement -/
def inCore (secs : Int) : Bool := -2199023255552 ≤ secs && secs ≤ 2199023255552

def near (x c : Int) : Bool := c - 2000 ≤ x && x ≤ c + 2000

def region (secs : Int) : String :=
  if near secs 0 then (if secs < 0 then "epoch-below" else "epoch-above")
  else if near secs 2147483648 then "2^31"
  else if near secs 4294967296 then (if secs < 4294967296 then "2^32-below" else "2^32-above")
  else if secs < 0 then (if inCore secs then "negative" else "negative-extreme")
  else if secs < 4294967296 then "inside"
  else if inCore secs then "beyond" else "beyond-extreme"

def subsec (n : Nat) : String := if n == 0 then "whole" else "frac"

def offClass (kind : String) (off : Int) : String :=
  if kind != "fix" then kind
  else if off == 0 then "fix0" else if off % 3600 == 0 then "fix-hour" else "fix-odd"

def modelObs (s : Source) (impl : String) : String :=
  if impl == "unrepresentable" && !inCore s.instant.secs then "*" else (convert s).wire

def handleOne (kind : String) (s n off : String) (impl : String) : String :=
  match mkInstant s n with
  | none => badReq "instant"
  | some t =>
    match mkSource kind t off with
    | none => badReq "source"
    | some src =>
      let label :=
        if impl == "unrepresentable" then "unrepresentable"
        else if kind == "utc" && subsec t.nanos == "whole" && region t.secs == "inside" then "plain"
        else offClass kind (off.toInt?.getD 0) ++ ":" ++ region t.secs ++ ":" ++ subsec t.nanos
      answer (modelObs src impl) (judge t.secs impl) label

/-- class of a POSIX TZ text: with a daylight-saving rule (`,M…`), a fixed offset with minutes, a fixed whole-hour offset -/
def tzClass (tz : String) : String :=
  if tz.contains ',' then "dst" else if tz.contains ':' then "odd" else "hour"

/-- calendar request → (reading, offset) when the numbers are well-formed -/
def mkCivil (a : List String) : Option (Civil × Int) :=
  match a with
  | [y, mo, d, h, mi, s, fr, off] =>
    match y.toInt?, mo.toNat?, d.toNat?, h.toNat?, mi.toNat?, s.toNat?, fr.toNat?, off.toInt? with
    | some y, some mo, some d, some h, some mi, some s, some fr, some off => some (⟨y, mo, d, h, mi, s, fr⟩, off)
    | _, _, _, _, _, _, _, _ => none
  | _ => none

/-- inside this core chrono must be able to build the value: an `unrepresentable` there is a plumbing error -/
def civilCore (kind : String) (c : Civil) (off : Int) : Bool :=
  decide c.valid && decide (-86400 < off ∧ off < 86400) &&
  (match kind with
   | "ymd" => decide (-200000 ≤ c.year ∧ c.year ≤ 200000)
   | "rfc" => decide (0 ≤ c.year ∧ c.year ≤ 9999) && off % 60 == 0
   | "utc" => decide (-200000 ≤ c.year ∧ c.year ≤ 200000) && off == 0
   | _ => false)

def handleCal (kind : String) (a : List String) (impl : String) : String :=
  match mkCivil a with
  | none => badReq "calendar"
  | some (c, off) =>
    if kind != "ymd" && kind != "rfc" && kind != "utc" then badReq "kind" else
    if hv : c.frac < 2000000000 then
      let d := ofCivil c off hv
      let core := civilCore kind c off
      let m := if !core then (if impl == "unrepresentable" then "unrepresentable" else "*")
        else (fromChronoDT d).wire
      let v := if !decide c.valid then (if impl == "panic" then "fails:panic" else "dontcare")
        else if d.isLeap then judgeLeap d.secs impl else judge d.secs impl
      let label := if impl == "unrepresentable" then "unrepresentable"
        else "cal-" ++ kind ++ ":" ++ offClass "fix" off ++ ":" ++ region d.secs ++ ":" ++ (if d.isLeap then "leap" else subsec c.frac)
      answer m v label
    else badReq "frac"

def handle (op : String) (args : List String) (impl : String) : String :=
  match op, args with
  | "tscal20", kind :: rest => handleCal kind rest impl
  | "tsst20", [zone, s, n] =>
    if zone == "utc" then handleOne "stutc" s n "0" impl else if zone == "loc" then handleOne "stloc" s n "0" impl else badReq "zone"
  | "tsloc20", [tzh, off, s, n] =>
    match mkInstant s n, codePointsOfHex tzh with
    | some t, some tz =>
      let cls := tzClass (stringOfCodePoints tz)
      let label := if impl == "unrepresentable" then "unrepresentable" else "loc-" ++ cls ++ ":" ++ region t.secs ++ ":" ++ subsec t.nanos
      answer (modelObs (.chrono ⟨t, off.toInt?.getD 0⟩) impl) (if impl == "tzignored" then "dontcare" else judge t.secs impl) label
    | _, _ => badReq "instant"
  | "tsnow20", [] =>
    -- `now clock` for a clock inside 1970..2106 (`now_total_iff`): the value of the clock's second
    answer "in" (if impl == "in" then "holds" else if impl == "panic" then "fails:panic" else "fails:now-wrong") "now"
  | "tssys", [s, n] => handleOne "sys" s n "0" impl
  -- the modification time of a source file handed to `PackageBuilder::with_file`: the same SystemTime conversion, reached
  -- through the builder (src/rpm/builder.rs `modified()?.try_into()?`)
  | "tsfile", [s, n] => handleOne "sys" s n "0" impl
  | "tsutc", [s, n] => handleOne "utc" s n "0" impl
  | "tsfix", [s, n, off] => handleOne "fix" s n off impl
  | "tspair", [k1, s1, n1, o1, k2, s2, n2, o2] =>
    match mkInstant s1 n1, mkInstant s2 n2 with
    | some t1, some t2 =>
      match mkSource k1 t1 o1, mkSource k2 t2 o2 with
      | some a, some b =>
        match impl.splitOn " & " with
        | [i1, i2, ord] =>
          -- the order of the two `Timestamp` values under the type's own `Ord`
          -- (`#[derive(Ord)]` on the `u32` newtype: the order of the numbers)
          let mOrd := match convert a, convert b with
            | .ok x, .ok y => if x < y then "lt" else if x == y then "eq" else "gt"
            | _, _ => "-"
          let m := modelObs a i1 ++ " & " ++ modelObs b i2 ++ " & " ++ mOrd
          let m := if (modelObs a i1 == "*" || modelObs b i2 == "*") then "*" else m
          let rel := if t1.secs == t2.secs && t1.nanos == t2.nanos then "same"
            else if t1.secs == t2.secs then "same-second" else "apart"
          let both := (okValue i1).isSome && (okValue i2).isSome
          let far := both && (t1.secs - t2.secs ≥ 2147483648 || t2.secs - t1.secs ≥ 2147483648)
          let label := if i1 == "unrepresentable" || i2 == "unrepresentable" then "unrepresentable"
            else "pair:" ++ k1 ++ "-" ++ k2 ++ ":" ++ rel ++ (if far then ":far" else "") ++ (if both then ":both-ok" else ":vacuous")
          -- "preserves ordering": instant1 ≤ instant2 ⇒ Timestamp1 ≤ Timestamp2 (and symmetrically)
          let le12 := t1.secs < t2.secs || (t1.secs == t2.secs && t1.nanos ≤ t2.nanos)
          let le21 := t2.secs < t1.secs || (t1.secs == t2.secs && t2.nanos ≤ t1.nanos)
          let vOrd :=
            if !both then (if ord == "-" then "holds" else "fails:order-of-nothing")
            else if ord == "incoherent" then "fails:ord-incoherent"
            else if le12 && ord == "gt" then "fails:order-not-preserved"
            else if le21 && ord == "lt" then "fails:order-not-preserved"
            else if ord == "lt" || ord == "eq" || ord == "gt" then "holds" else "fails:malformed"
          let v := judgePair t1.secs t1.nanos t2.secs t2.nanos i1 i2
          answer m (if v == "holds" || v == "dontcare" then (if vOrd == "holds" then v else vOrd) else v) label
        | _ => answer ((convert a).wire ++ " & " ++ (convert b).wire) "fails:malformed" "pair:malformed"
      | _, _ => badReq "source"
    | _, _ => badReq "instant"
  | "tsleap", [kind, sS, extra, off] =>
    -- a chrono reading inside a leap second: `timestamp()` is the second it hangs on; whether that instant counts
    -- as second S or S+1 "since the epoch" the property does not say inside the range (either answer holds there), at the two
    -- ends of the range it does (only S); anything else fails (`judgeLeap`)
    match mkInstant sS extra with
    | none => badReq "instant"
    | some t =>
      match mkSource kind t off with
      | none => badReq "source"
      | some src =>
        -- `t.nanos` is the part beyond the full second: the stored sub-second field is 10⁹ + that (`ChronoDT`, `ts_leap_reading`)
        answer (modelObs src impl) (judgeLeap t.secs impl) ("leap:" ++ kind ++ ":" ++ region t.secs)
  | _, _ => badReq "op"

def ops : List String := ["tssys", "tsutc", "tsfix", "tspair", "tsleap", "tsfile", "tscal20", "tsst20", "tsloc20", "tsnow20"]

end RpmVerif.Driver.C20
