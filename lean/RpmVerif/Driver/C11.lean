import RpmVerif.Driver.Bld
/-! Driver for C11. Op `repro <cfg> [sign=..] [children=n]`. Observation
`ok paysha=… archsha=… runs=<n> distinct=<k> hdr=<fnv> bt=<build time> mt=<max file mtime> st=<signature time|->`. -/
namespace RpmVerif.Driver.C11
open RpmVerif.Hdr RpmVerif.Bld RpmVerif.Driver RpmVerif.Driver.Bld

def ops : List String := ["repro"]

def tok (m : List String) (k : String) : String :=
  (m.findSome? fun t => if t.startsWith (k ++ "=") then some (t.drop (k.length + 1)).toString else none).getD "<missing>"

def handle (_op : String) (args : List String) (impl : String) : String :=
  match parseReq args with
  | none => badReq "cfg"
  | some r =>
    if !impl.startsWith "ok " then answer "err" (if impl == "err" then "dontcare" else "fails:" ++ impl) "build-rejected" else
    let itoks := (impl.splitOn " ").filter (· ≠ "")
    let paysha := tok itoks "paysha"; let archsha := tok itoks "archsha"
    let hdr := mainHeader r.cfg r.now paysha.toUTF8.toList archsha.toUTF8.toList
    let bt := clampNow r.cfg.sourceDate r.now
    let mt := (r.cfg.files.map fun f => clampMtime r.cfg.sourceDate f.mtime).foldl max 0
    let signed := args.any (·.startsWith "sign=")
    let st := if signed then toString bt else "-"
    let m := s!"ok paysha={paysha} archsha={archsha} runs={tok itoks "runs"} distinct=1 hdr={hex16 (fnv (writeHeader hdr))} bt={bt} mt={mt} st={st}"
    let sd := r.cfg.sourceDate.getD 0
    let le (s : String) : Bool := match s.toNat? with | some n => n ≤ sd | none => s == "-"
    let v :=
      if tok itoks "distinct" != "1" then "fails:not-reproducible"
      else if !le (tok itoks "bt") then "fails:buildtime-after-source-date"
      else if !le (tok itoks "mt") then "fails:mtime-after-source-date"
      else if !le (tok itoks "st") then "fails:sigtime-after-source-date"
      else "holds"
    let owners := ((r.cfg.files.map (·.user)) ++ (r.cfg.files.map (·.group))).eraseDups.length
    answer m v s!"owners{min owners 4}-{if signed then "signed" else "unsigned"}"

end RpmVerif.Driver.C11
