import RpmVerif.Driver.Bld
import RpmVerif.Model.Cpio
/-! Driver for C11. Op `repro <cfg> [sign=..] [children=n]`. Observation
`ok paysha=… archsha=… runs=<n> distinct=<k> hdr=<fnv> bt=<build time> mt=<max file mtime> st=<signature time|-> cmt=<max c_mtime of the cpio entries|-> sto=<signatures under OPENPGP: count:times:same-blob-as-legacy-tag|->`. -/
namespace RpmVerif.Driver.C11
open RpmVerif.Hdr RpmVerif.Bld RpmVerif.Driver RpmVerif.Driver.Bld

def ops : List String := ["repro"]

def tok (m : List String) (k : String) : String :=
  (m.findSome? fun t => if t.startsWith (k ++ "=") then some (t.drop (k.length + 1)).toString else none).getD "<missing>"

def handle (_op : String) (args : List String) (impl : String) : String :=
  match parseReq args with
  | none => badReq "cfg"
  | some r =>
    if args.any (·.startsWith "sdneg=") then
      -- a source date before 1970: the setter panics today (C17's known finding, not C11's business); a package built
      -- nevertheless carries times later than the requested date, whatever they are
      answer "panic" (if impl.startsWith "ok " then "fails:buildtime-after-source-date" else "dontcare") "unrepresentable-source-date"
    else
    if !impl.startsWith "ok " then answer "ok" (if impl == "err" then "dontcare" else "fails:" ++ impl) "build-rejected" else
    let itoks := (impl.splitOn " ").filter (· ≠ "")
    let paysha := tok itoks "paysha"; let archsha := tok itoks "archsha"
    let hdr := mainHeader r.cfg r.now paysha.toUTF8.toList archsha.toUTF8.toList
    let bt := clampNow r.cfg.sourceDate r.now
    let mt := (r.cfg.files.map fun f => clampMtime r.cfg.sourceDate f.mtime).foldl max 0
    let signed := args.any (·.startsWith "sign=")
    let st := if signed then toString bt else "-"
    -- `sigtime_clamped`: ONE signature, base64 under OPENPGP, the same packet raw under the legacy tag, created at `bt`
    let sto := if signed then s!"1:{bt}:1" else "-"
    -- what the per-file `payload::Builder` of the model puts into c_mtime (Model/Cpio.lean `builderMeta`)
    let cmt := (r.cfg.files.map fun f => (RpmVerif.Cpio.builderMeta 0 0 1 ⟨f.cpioPath, f.mode, []⟩).mtime).foldl max 0
    -- a source date later than every clock of the runs (in-process: now + i·7919, children: now + k·100003): the build time is
    -- the clock's, so every run differs in it — the guard of the property ("source date set" = in the past of the build) fails
    let future := match r.cfg.sourceDate with | some d => decide (d > r.now + 500000) | none => false
    let m := s!"ok paysha={paysha} archsha={archsha} runs={tok itoks "runs"} distinct={if future then tok itoks "runs" else "1"} hdr={hex16 (fnv (writeHeader hdr))} bt={bt} mt={mt} st={st} cmt={cmt} sto={sto}"
    let sd := r.cfg.sourceDate.getD 0
    let le (s : String) : Bool := match s.toNat? with | some n => n ≤ sd | none => s == "-"
    let v :=
      if !future && tok itoks "distinct" != "1" then "fails:not-reproducible"
      else if !le (tok itoks "bt") then "fails:buildtime-after-source-date"
      else if !le (tok itoks "mt") then "fails:mtime-after-source-date"
      else if !le (tok itoks "st") then "fails:sigtime-after-source-date"
      else if !(((((tok itoks "sto").splitOn ":").getD 1 "-").splitOn "+").all le) then "fails:sigtime-after-source-date"
      -- the archive's own time stamps (the builder writes none: `payload::Builder` leaves c_mtime at 0)
      else if !le (tok itoks "cmt") then "fails:cpio-mtime-after-source-date"
      else "holds"
    let owners := ((r.cfg.files.map (·.user)) ++ (r.cfg.files.map (·.group))).eraseDups.length
    let v := if future && v == "holds" then "dontcare" else v
    answer m v (if future then "future-source-date" else s!"owners{min owners 4}-{if signed then "signed" else "unsigned"}")

end RpmVerif.Driver.C11
