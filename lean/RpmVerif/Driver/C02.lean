import RpmVerif.Driver.Common
import RpmVerif.Driver.Hash
import RpmVerif.Model.Verify
import RpmVerif.Model.Sign
import RpmVerif.Spec.Verify
import RpmVerif.Spec.Digest
/-! Driver for C02.

Ops
* `vsig PATTERN B64TABLE BYTES` — `Package::parse(BYTES)?.verify_signature(&recording)`; the recording verifier accepts its
                          i-th consult iff PATTERN[i] = '1' (`-` = empty pattern; beyond the pattern: reject). Observation
                          `ok[…]` / `err[…]` with the consult log `len:fnv(data):siglen:fnv(sig):acc;…`, or `parse-err`.
                          B64TABLE = `text=decoded|!` pairs (hex, `.` = empty, `-` = no pairs): what pgp's base64 decoder made of
                          each OPENPGP entry text — the model's abstract `b64` parameter, supplied by the harness.
                          Since AUDIT2 (a8, a10) the observation continues ` keyids=<id+id|none|err:CLASS> echo=<h|c><len>:<bytes>;…|-`:
                          `signature_key_ids()` on the same package — predicted by `Sign.keyIds` with the SAME table as base64 decoder
                          (the code has a second, inline decoder there) and the optional 4th argument PKTTABLE as packet parser —
                          and what `echo_signature` handed to a Debug logger, predicted by `verifySignatureSE`.
* `forge02 KEY OFF DEL INS B64TABLE BYTES` — right key, different data (AUDIT2 b21): BYTES (library-signed) edited, then every recorded
                          digest recomputed (`forge`: the driver's own forger, compared with the harness's through `forged=<fnv>`),
                          signatures kept. Model: `verifySignatureS` on the forged package with the verifier the SigScheme hypotheses
                          describe for the signer's own key (accepts exactly the original's signatures, each for exactly the data it was
                          made for: `Correct` + `Binds`). Spec: parsed (header bytes, content) differ from the original's ⇒ not `verify=ok`
                          (`fails:tamper-accepted`), as proved in `Props/C02Bytes.lean: tamper_rejected_build_sign`.
* `vorig KEY BYTES`, `vflip KEY BIT BYTES`, `vedit KEY OFF DEL INS BYTES` — the real `pgp::Verifier` on a package built and signed
                          by the library, unmodified / one bit flipped / DEL bytes at OFF replaced by INS:
                          `verify=ok | verify=err | verify=parse-err`.
* `vobs KEY LABEL BYTES` — regression cases for rpm-rs's own `Verifier` (fix c25de51; see `old_verifier_*_witness` in
                          `Props/C02.lean`): a hand-made package whose only signature covers the EMPTY message must give an
                          error (`verify=ok` → `fails:unsigned-header-accepted`); one whose signature covers the header: `ok`.

* `sigpkts KEY LABEL KIDS PKTTABLE B64TABLE BLOB BYTES` — gap G3, `Verifier::parse_signature`: a hand-made package whose signature blob
                          is a SEQUENCE of OpenPGP packets. Observation `keyids=… verify=ok|err build=267|268|none|err`
                          (`signature_key_ids()`, `verify_signature(Verifier of KEY)`, the legacy tag
                          `SignatureHeaderBuilder::build` files BLOB under). The `pgp` crate enters as the model's abstract
                          per-packet parser: PKTTABLE says, for every single packet, `N` (not a signature) or
                          `S/<issuers>/<pub alg>/<bit per key of KEY's certificate: accepts it over the header>`, KIDS the key ids
                          of the certificate (primary, subkeys). The model frames every blob itself (`Pgp.splitPackets`), picks the
                          first packet the table calls a signature (`Pgp.parseSignature`) and runs `keyIds` / `verifySignatureS` with
                          `pgpVerifierVerifyP` as the verifier / `builderTag` on top of that. Spec: `verify=ok` needs a signature
                          packet in the table that some key of the certificate accepts (`fails:unsigned-header-accepted`).

Model observation: `verifySignatureS` with the driver's own hash functions, the table as `b64` and the pattern as a
(history-dependent) verifier. For the real-key ops the driver cannot run OpenPGP: it predicts `verify=err` whenever the
modification changes the parsed header bytes or content (digest route; under the SigScheme hypothesis otherwise),
`verify=ok` when the parsed package is the original one (only lead / reserved / padding bytes differ), `*` when only
the signature header changed.

Spec verdict (on the IMPLEMENTATION's observation):
* `vsig`: `VerifySpec.successAllowed` — success needs ≥ 1 consult, all accepted, each over the package's own header
  region (canonical) or, for the binary under RPMSIGTAG_PGP, header ++ payload, and all recorded digests matching
  (recomputed from the raw byte ranges with the driver's hashes). An error always satisfies the text.
* `vflip` / `vedit` inside the header / payload regions: parsed (header bytes, content) differ from the original's ⇒ the
  observation must not be `verify=ok` (`fails:tamper-accepted`); everything else is `dontcare`. -/
namespace RpmVerif.Driver.C02
open RpmVerif.Hdr RpmVerif.Driver RpmVerif.Verify RpmVerif.Gen

def ops : List String := ["vsig", "vorig", "vflip", "vedit", "vobs", "sigpkts", "forge02"]

def realH : DigestSpec.Hashes := ⟨Hash.md5L, Hash.sha1L, Hash.sha256L⟩

def hexDot (s : String) : Option Bytes := if s == "." then some [] else bytesOfHexAux s.toList []

/-- `text=decoded,text=!,…` -/
def parseTable (s : String) : Option (List (Bytes × Option Bytes)) :=
  if s == "-" then some [] else
  (s.splitOn ",").mapM fun pair =>
    match pair.splitOn "=" with
    | [t, d] => do
      let t ← hexDot t
      if d == "!" then pure (t, none) else do
        let d ← hexDot d
        pure (t, some d)
    | _ => none

def patternOf (s : String) : List Bool := if s == "-" then [] else s.toList.map (· == '1')

def scripted (pat : List Bool) : Verifier := fun pre _ _ => pat.getD pre.length false

def consultStr (c : Consult) : String :=
  s!"{c.data.length}:{hex16 (fnv c.data)}:{c.sig.length}:{hex16 (fnv c.sig)}:{if c.accepted then 1 else 0}"

def obsStr (r : Out Unit × List Consult) : String :=
  (match r.1 with | .ok _ => "ok" | .err _ => "err" | .panic _ => "panic") ++ "[" ++ ";".intercalate (r.2.map consultStr) ++ "]"

abbrev Id2 := Nat × UInt64
def ident (b : Bytes) : Id2 := (b.length, fnv b)

def hexU64 (s : String) : Option UInt64 :=
  s.toList.foldlM (fun acc c => (hexVal c).map fun d => acc * 16 + d.toUInt64) (0 : UInt64)

/-- `ok[…]` / `err[…]` → (is ok, observed consults) -/
def parseImpl (s0 : String) : Option (Bool × List (VerifySpec.Seen Id2)) :=
  let s := (s0.splitOn " ").headD ""
  let (isOk, rest) := if s.startsWith "ok[" then (true, (s.drop 3).toString) else (false, (s.drop 4).toString)
  if !(s.startsWith "ok[" || s.startsWith "err[") || !rest.endsWith "]" then none else
  let body := (rest.dropEnd 1).toString
  if body.isEmpty then some (isOk, []) else
  ((body.splitOn ";").mapM fun (e : String) =>
    match e.splitOn ":" with
    | [(l : String), d, sl, sg, a] => do
      let l ← l.toNat?
      let d ← hexU64 d
      let sl ← sl.toNat?
      let sg ← hexU64 sg
      pure (⟨(l, d), (sl, sg), a == "1"⟩ : VerifySpec.Seen Id2)
    | _ => none).map fun log => (isOk, log)

def tagState (sig : Header) (tag : Nat) (right : IndexData → Bool) : String :=
  match DigestSpec.firstData sig.entries tag with
  | none => "-"
  | some d => if right d then "+" else "x"

def shapeLabel (p : Package) : String :=
  let sig := p.md.signature
  let o := match DigestSpec.firstData sig.entries SigTag.RPMSIGTAG_OPENPGP with
    | none => "absent"
    | some (.strArray _) => "array"
    | some (.i18n _) => "i18n"
    | some _ => "wrongtype"
  let isBin : IndexData → Bool := fun d => match d with | .bin _ => true | _ => false
  let st := [SigTag.RPMSIGTAG_RSA, SigTag.RPMSIGTAG_DSA, SigTag.RPMSIGTAG_PGP].map (tagState sig · isBin)
  s!"openpgp-{o},legacy-{st.count "+"}bin-{st.count "x"}wrong"

def flipBit (bs : Bytes) (bit : Nat) : Bytes :=
  let i := bit / 8
  match bs[i]? with
  | some b => bs.set i (b ^^^ ((0x80 : UInt8) >>> (bit % 8).toUInt8))
  | none => bs

def splice (bs : Bytes) (off del : Nat) (ins : Bytes) : Bytes :=
  let off := min off bs.length
  bs.take off ++ ins ++ bs.drop (min (off + del) bs.length)

/-- judge a modification at byte position `pos` of the signed package `orig` -/
def judgeEdit (tag : String) (orig edited : Bytes) (pos : Nat) (impl : String) : String :=
  match parsePackage orig with
  | .ok p =>
    let inRegion := pos ≥ (offsets p.md).hdr
    let region := if pos < 96 then "lead" else if pos < (offsets p.md).hdr then "sig" else if pos < (offsets p.md).payload then "hdr" else "payload"
    match parsePackage edited with
    | .err c => answer "verify=parse-err" "dontcare" s!"{tag}-{region}:parse-err-{c}"
    | .panic s => answer "panic" "dontcare" s!"{tag}-{region}:parse-panic-{s}"
    | .ok p' =>
      let changed := writeHeader p'.md.header ≠ writeHeader p.md.header ∨ p'.content ≠ p.content
      let dig := Digest.verifyDigests realH.md5 realH.sha1 realH.sha256 p'
      let m := if !dig.isOk then "verify=err"
        else if changed then "verify=err"
        else if p'.md.signature = p.md.signature then "verify=ok"
        else "*"
      let why := if !dig.isOk then "digest" else if changed then "sig-only" else if m == "*" then "sighdr-changed" else "same-parse"
      let branch := s!"{tag}-{region}:{if changed then "changed" else "same"}:{why}"
      if inRegion && changed then
        if impl == "verify=ok" then answer m "fails:tamper-accepted" branch
        else if impl == "verify=err" || impl == "verify=parse-err" then answer m "holds" branch
        else answer m "dontcare" branch
      else answer m "dontcare" branch
  | _ => badReq "orig-does-not-parse"

/-! ### `sigpkts`: `Verifier::parse_signature` on blobs of several packets -/

/-- what the `pgp` crate's parser made of one packet that it returned as a signature -/
structure PktInfo where
  /-- `issuer()`: raw 8-byte key ids -/
  issuers : List Bytes
  /-- `u8::from(config.pub_alg)` -/
  alg : Nat
  /-- one bit per key of the verifier's certificate (primary, subkeys…): `signature.verify(key, header bytes).is_ok()` -/
  bits : List Bool
  /-- the same over header ++ payload (what a signature under RPMSIGTAG_PGP is checked against) -/
  bitsAll : List Bool := []

/-- `packet=N` / `packet=S/<id+id|->/<alg>/<bits>`, comma separated (`-` = no packets) -/
def parsePktTable (s : String) : Option (List (Bytes × Option PktInfo)) :=
  if s == "-" then some [] else
  (s.splitOn ",").mapM fun pair =>
    match pair.splitOn "=" with
    | [t, d] => do
      let t ← hexDot t
      if d == "N" then pure (t, none) else
      match d.splitOn "/" with
      | ["S", iss, alg, bits] => do
        let ids ← if iss == "-" then some [] else (iss.splitOn "+").mapM fun h => bytesOfHexAux h.toList []
        let a ← alg.toNat?
        pure (t, some ⟨ids, a, bits.toList.map (· == '1'), []⟩)
      | ["S", iss, alg, bits, bitsAll] => do
        let ids ← if iss == "-" then some [] else (iss.splitOn "+").mapM fun h => bytesOfHexAux h.toList []
        let a ← alg.toNat?
        pure (t, some ⟨ids, a, bits.toList.map (· == '1'), bitsAll.toList.map (· == '1')⟩)
      | _ => none
    | _ => none

def natOfBytes (bs : Bytes) : Nat := bs.foldl (fun n b => n * 256 + b.toNat) 0

/-- key ids as the lower-case hex text the library prints -/
def hexText (bs : Bytes) : Bytes := (hexOfBytes bs).toUTF8.toList

def textOf (bs : Bytes) : String := (String.fromUTF8? (ByteArray.mk bs.toArray)).getD "?"

def idsStr : Out (List Bytes) → String
  | .ok [] => "none"
  | .ok l => "+".intercalate (l.map textOf)
  | .err c => "err:" ++ c
  | .panic _ => "panic"

def handleSigpkts (label kidsS pktS b64S blobS hb impl : String) : String :=
  match parsePktTable pktS, parseTable b64S, bytesOfHex blobS, bytesOfHex hb with
  | some ptbl, some btbl, some blob, some bs =>
    match parsePackage bs with
    | .err c => answer "parse-err" "dontcare" ("sigpkts-parse-err-" ++ c)
    | .panic s => answer "panic" "dontcare" ("sigpkts-parse-panic-" ++ s)
    | .ok p =>
      let kids : List Bytes := if kidsS == "-" then [] else (kidsS.splitOn ",").filterMap fun h => bytesOfHexAux h.toList []
      let texts := match getStringArray p.md.signature SigTag.RPMSIGTAG_OPENPGP with | .ok l => l | _ => []
      if texts.any (fun t => (btbl.lookup t).isNone) then badReq "b64-table" else
      let b64 : Bytes → Option Bytes := fun t => (btbl.lookup t).getD none
      -- every blob the model will frame: each packet it finds must be in the table (the parser is a parameter)
      let legacyBlobs := [SigTag.RPMSIGTAG_RSA, SigTag.RPMSIGTAG_DSA, SigTag.RPMSIGTAG_PGP].filterMap fun t =>
        (getBinary p.md.signature t).toOption
      let blobs := blob :: (texts.filterMap b64 ++ legacyBlobs)
      let missing := blobs.any fun b => match Pgp.splitPackets b with
        | some ps => ps.any fun q => (ptbl.lookup q).isNone
        | none => false
      if missing then badReq "pkt-table" else
      let parsePkt : Bytes → Option PktInfo := fun q => (ptbl.lookup q).getD none
      let hdr := writeHeader p.md.header
      let E : PgpPkt Nat PktInfo :=
        { kid := fun i => natOfBytes (kids.getD i []), parsePkt := parsePkt, issuers := fun s => s.issuers.map natOfBytes,
          early := fun _ _ => false,
          check := fun k d s => (d == hdr && s.bits.getD k false) || (d == hdr ++ p.content && s.bitsAll.getD k false) }
      let ring : KeyRing Nat := ⟨0, (List.range kids.length).drop 1⟩
      let v : Verifier := fun _ d sig => (pgpVerifierVerifyP E ring d sig).1.isOk
      let r := verifySignatureS realH.md5 realH.sha1 realH.sha256 b64 v p
      let PP : Sign.PktParser := ⟨PktInfo, parsePkt, fun s => s.issuers.map hexText, fun s => s.alg⟩
      let S : Sign.SigScheme :=
        Sign.SigScheme.withParser
          { Key := Unit, decEq := inferInstance, sign := fun _ _ _ => [], verify := fun _ _ _ => false, issuer := fun _ => none,
            keyId := fun _ => [], legacyTag := fun _ => 0, b64enc := id, b64dec := b64 } PP
      let ids := idsStr (Sign.keyIds S p)
      let ver := match r.1 with | .ok _ => "ok" | _ => "err"
      let build := match Sign.builderTag PP blob with | .ok t => toString t | _ => "err"
      let m := s!"keyids={ids} verify={ver} build={build}"
      let cls := match r.1 with | .ok _ => "ok" | .err c => c | .panic _ => "panic"
      -- which packet of BLOB the model takes for THE signature
      let pcls := match Pgp.splitPackets blob with
        | none => "framing-broken"
        | some ps => match ps.findIdx? (fun q => (parsePkt q).isSome) with
          | some i => s!"sig#{i + 1}of{ps.length}"
          | none => s!"no-sig-in-{ps.length}"
      let branch := s!"sigpkts-{label}:{pcls}:{cls}"
      -- spec: success needs a signature packet (as framed from the request) that some key of the certificate accepts
      let someAccepted := ptbl.any fun e => match e.2 with | some i => i.bits.any id || i.bitsAll.any id | none => false
      let implOk := (impl.splitOn " ").contains "verify=ok"
      if impl == "parse-err" || impl == "panic" then answer m "dontcare" branch
      else if implOk && !someAccepted then answer m "fails:unsigned-header-accepted" branch
      else answer m "holds" branch
  | _, _, _, _ => badReq "args"

/-- the echo column: scope, `signature.len()`, the printed slice -/
def echoStr (log : List Consult) (ech : List (Nat × Bytes)) : String :=
  if ech.isEmpty then "-" else
  ";".intercalate ((log.zip ech).map fun (c, n, pre) =>
    s!"{if c.fromPgpTag then "c" else "h"}{n}:{if pre.isEmpty then "." else hexOfBytes pre}")

def handleVsig (pat table hb pktS impl : String) : String :=
  match parseTable table, bytesOfHex hb, parsePktTable pktS with
  | some tbl, some bs, some ptbl =>
    match parsePackage bs with
    | .err c => answer "parse-err" "dontcare" ("parse-err-" ++ c)
    | .panic s => answer "panic" "dontcare" ("parse-panic-" ++ s)
    | .ok p =>
      -- every OPENPGP text the model will decode must be in the table
      let texts := match getStringArray p.md.signature SigTag.RPMSIGTAG_OPENPGP with | .ok l => l | _ => []
      if texts.any (fun t => (tbl.lookup t).isNone) then badReq "b64-table" else
      let b64 : Bytes → Option Bytes := fun t => (tbl.lookup t).getD none
      let r3 := verifySignatureSE realH.md5 realH.sha1 realH.sha256 b64 (scripted (patternOf pat)) p
      let r : Out Unit × List Consult := (r3.1, r3.2.1)
      -- `signature_key_ids`: the same table is the base64 decoder of its inline loop; a packet that is not in PKTTABLE is no signature
      let PP : Sign.PktParser := ⟨PktInfo, fun q => (ptbl.lookup q).getD none, fun s => s.issuers.map hexText, fun s => s.alg⟩
      let S : Sign.SigScheme :=
        Sign.SigScheme.withParser
          { Key := Unit, decEq := inferInstance, sign := fun _ _ _ => [], verify := fun _ _ _ => false, issuer := fun _ => none,
            keyId := fun _ => [], legacyTag := fun _ => 0, b64enc := id, b64dec := b64 } PP
      let m := obsStr r ++ " keyids=" ++ idsStr (Sign.keyIds S p) ++ " echo=" ++ echoStr r3.2.1 r3.2.2
      let cls := match r.1 with | .ok _ => "ok" | .err c => c | .panic _ => "panic"
      let branch := s!"vsig[{shapeLabel p}]{cls}/{r.2.length}"
      match parseImpl impl with
      | none => answer m "dontcare" branch           -- parse-err / panic on the implementation's side: a broken tie, no verdict
      | some (false, _) => answer m "holds" branch   -- the text restricts success only
      | some (true, log) =>
        let hdr := DigestSpec.rawHeader bs
        let content := DigestSpec.rawContent bs
        let pgpSig := match DigestSpec.firstData p.md.signature.entries SigTag.RPMSIGTAG_PGP with
          | some (.bin s) => some s | _ => none
        let binOf : Nat → Option Bytes := fun tag => match DigestSpec.firstData p.md.signature.entries tag with
          | some (.bin s) => some s | _ => none
        let openpgpReadable := match DigestSpec.firstData p.md.signature.entries SigTag.RPMSIGTAG_OPENPGP with
          | some (.strArray _) => true | some (.i18n _) => true | _ => false
        let excl := !openpgpReadable && pgpSig != binOf SigTag.RPMSIGTAG_RSA && pgpSig != binOf SigTag.RPMSIGTAG_DSA
        let digestsMatch := DigestSpec.judgeWith (DigestSpec.recomputeRaw realH bs) (DigestSpec.Recorded p) .ok
        if VerifySpec.successAllowed ident hdr content pgpSig excl digestsMatch log then answer m "holds" branch
        else answer m ("fails:" ++ VerifySpec.whyNot ident hdr content pgpSig excl digestsMatch log) branch
  | _, _, _ => badReq "args"

/-! ### `forge02`: edit, recompute every recorded digest, keep the signatures -/

def be32At (bs : Bytes) (i : Nat) : Option Nat :=
  match (bs.drop i).take 4 with
  | [a, b, c, d] => some (((a.toNat * 256 + b.toNat) * 256 + c.toNat) * 256 + d.toNat)
  | _ => none

/-- position (in the file) of the data of the FIRST index entry with tag `tag` of the header whose intro starts at `h0`, provided
its type code is `ty`; and the end of that header's store -/
def entryPos (bs : Bytes) (h0 tag ty : Nat) : Option (Nat × Nat) := do
  let n ← be32At bs (h0 + 8)
  let dl ← be32At bs (h0 + 12)
  let store := h0 + 16 + 16 * n
  let stop := store + dl
  if stop > bs.length then none else
  let rec go (i : Nat) (fuel : Nat) : Option (Nat × Nat) :=
    match fuel with
    | 0 => none
    | fuel + 1 =>
      if i ≥ n then none else
      match be32At bs (h0 + 16 + 16 * i) with
      | none => none
      | some t =>
        if t == tag then
          match be32At bs (h0 + 16 + 16 * i + 4), be32At bs (h0 + 16 + 16 * i + 8) with
          | some ty', some off => if ty' == ty then some (store + off, stop) else none
          | _, _ => none
        else go (i + 1) fuel
  go 0 (n + 1)

/-- overwrite `new.length` bytes at `pos` if they lie inside the store and (for text) a NUL follows them there -/
def patch (bs : Bytes) (pe : Option (Nat × Nat)) (new : Bytes) (text : Bool) : Bytes :=
  match pe with
  | none => bs
  | some (pos, stop) =>
    let fin := pos + new.length
    if fin + (if text then 1 else 0) ≤ stop && (!text || bs[fin]? == some 0) then bs.take pos ++ new ++ bs.drop fin else bs

def hexText' (bs : Bytes) : Bytes := (hexOfBytes bs).toUTF8.toList

/-- the forger (same steps as `forge` in harness/src/c02.rs, written independently over the model's parser and the driver's
own hash functions) -/
def forge (orig : Bytes) (off del : Nat) (ins : Bytes) : Bytes :=
  let e := splice orig off del ins
  match parsePackage e with
  | .ok p1 =>
    let h0 := (offsets p1.md).hdr
    let p0 := (offsets p1.md).payload
    let e := patch e (entryPos e h0 IndexTag.RPMTAG_PAYLOADDIGEST 8) (hexText' (realH.sha256 (e.drop p0))) true
    match parsePackage e with
    | .ok p2 =>
      let hb := writeHeader p2.md.header
      let s0 := (offsets p1.md).sig
      let e := patch e (entryPos e s0 SigTag.RPMSIGTAG_SHA256 6) (hexText' (realH.sha256 hb)) true
      let e := patch e (entryPos e s0 SigTag.RPMSIGTAG_SHA1 6) (hexText' (realH.sha1 hb)) true
      patch e (entryPos e s0 SigTag.RPMSIGTAG_MD5 7) (realH.md5 (hb ++ e.drop p0)) false
    | _ => e
  | _ => e

def handleForge (offS delS insS table hb impl : String) : String :=
  match parseTable table, bytesOfHex hb, offS.toNat?, delS.toNat?, bytesOfHex insS with
  | some tbl, some bs, some off, some del, some ins =>
    match parsePackage bs with
    | .ok p =>
      let e := forge bs off del ins
      let tail := " forged=" ++ hex16 (fnv e)
      let region := if off < 96 then "lead" else if off < (offsets p.md).hdr then "sig" else if off < (offsets p.md).payload then "hdr" else "payload"
      match parsePackage e with
      | .err c => answer ("verify=parse-err" ++ tail) "dontcare" s!"forge-{region}:parse-err-{c}"
      | .panic s => answer "panic" "dontcare" s!"forge-{region}:parse-panic-{s}"
      | .ok p' =>
        let texts := match getStringArray p'.md.signature SigTag.RPMSIGTAG_OPENPGP with | .ok l => l | _ => []
        if texts.any (fun t => (tbl.lookup t).isNone) then badReq "b64-table" else
        let b64 : Bytes → Option Bytes := fun t => (tbl.lookup t).getD none
        -- the signer's own key, as the SigScheme hypotheses describe its verifier: the ORIGINAL's signatures, each accepted for
        -- exactly the data it was made for (`Correct` and `Binds`)
        let hb0 := writeHeader p.md.header
        let otexts := match getStringArray p.md.signature SigTag.RPMSIGTAG_OPENPGP with | .ok l => l | _ => []
        let sigsHdr := otexts.filterMap b64 ++ [SigTag.RPMSIGTAG_RSA, SigTag.RPMSIGTAG_DSA].filterMap fun t => (getBinary p.md.signature t).toOption
        let sigsAll := [SigTag.RPMSIGTAG_PGP].filterMap fun t => (getBinary p.md.signature t).toOption
        let v : Verifier := fun _ d s => (sigsHdr.contains s && d == hb0) || (sigsAll.contains s && d == hb0 ++ p.content)
        let r := verifySignatureS realH.md5 realH.sha1 realH.sha256 b64 v p'
        let changed := writeHeader p'.md.header ≠ hb0 ∨ p'.content ≠ p.content
        let m := (if r.1.isOk then "verify=ok" else "verify=err") ++ tail
        let cls := match r.1 with | .ok _ => "ok" | .err c => c | .panic _ => "panic"
        let branch := s!"forge-{region}:{if changed then "changed" else "same"}:{cls}"
        let implV := (impl.splitOn " ").headD ""
        if off ≥ (offsets p.md).hdr && changed then
          if implV == "verify=ok" then answer m "fails:tamper-accepted" branch
          else if implV == "verify=err" || implV == "verify=parse-err" then answer m "holds" branch
          else answer m "dontcare" branch
        else answer m "dontcare" branch
    | _ => badReq "orig-does-not-parse"
  | _, _, _, _, _ => badReq "args"

def handle (op : String) (args : List String) (impl : String) : String :=
  match op, args with
  | "vsig", [pat, table, hb] => handleVsig pat table hb "-" impl
  | "vsig", [pat, table, hb, pkt] => handleVsig pat table hb pkt impl
  | "forge02", [_, off, del, ins, table, hb] => handleForge off del ins table hb impl
  | "sigpkts", [_, label, kids, ptbl, btbl, blob, hb] => handleSigpkts label kids ptbl btbl blob hb impl
  | "vorig", [_, hb] =>
    -- hypothesis of the model (SigScheme: a signature verifies over the message it was made for); no verdict
    match bytesOfHex hb with
    | some bs => match parsePackage bs with
      | .ok _ => answer "verify=ok" "dontcare" "orig"
      | _ => answer "verify=parse-err" "dontcare" "orig-parse-err"
    | none => badReq "hex"
  | "vobs", [_, label, _] =>
    -- regression cases for rpm-rs's own `Verifier` (fix c25de51). The label says what the only signature covers:
    -- the EMPTY message → nobody signed the (non-empty) header: by `pgp_verifier_sound` success would need a key that
    -- accepts this signature over the header bytes, so the model predicts `err` and `ok` violates the property;
    -- the header itself → `ok` expected (SigScheme hypothesis; no verdict, a deviation is a broken tie).
    -- `no-signature-packet-*`: the blob holds no signature packet at all → nobody signed anything.
    if (label.splitOn "empty-message").length > 1 || (label.splitOn "no-signature-packet").length > 1 then
      let v := if impl == "verify=ok" then "fails:unsigned-header-accepted"
        else if impl == "verify=err" || impl == "verify=parse-err" then "holds" else "dontcare"
      answer "verify=err" v s!"reg-{label}:{impl}"
    else answer "verify=ok" "dontcare" s!"reg-{label}:{impl}"
  | "vflip", [_, bit, hb] =>
    match bytesOfHex hb, bit.toNat? with
    | some bs, some k => judgeEdit "flip" bs (flipBit bs k) (k / 8) impl
    | _, _ => badReq "args"
  | "vedit", [_, off, del, ins, hb] =>
    match bytesOfHex hb, off.toNat?, del.toNat?, bytesOfHex ins with
    | some bs, some o, some d, some i => judgeEdit "edit" bs (splice bs o d i) o impl
    | _, _, _, _ => badReq "args"
  | _, _ => badReq "args"

end RpmVerif.Driver.C02
