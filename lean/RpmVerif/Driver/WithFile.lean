import RpmVerif.Driver.Common
import RpmVerif.Model.WithFile
import RpmVerif.Model.FileCaps
import RpmVerif.Spec.FileOptions
/-! Shared by the drivers of C17 (`wfile`) and C06 (`wfile6`): one `FileOptions::new(dest).<setters…>` +
`PackageBuilder::with_file(source, ..)` call on a source the harness prepared, then build → write → parse → read back.

  `wfile <kind> <perm> <secs> <nanos> <size> <dest> <setters>`
* `<kind>`: what the source path is — `reg` a regular file, `lnk` a symbolic link to one, `fifo` a FIFO (a thread writes
  `<size>` bytes into it), `dir` a directory, `missing` nothing;
* `<perm>`: octal, the 12 permission bits the source is chmod-ed to; `<secs> <nanos>`: its modification time (floor seconds,
  any sign; not controllable for a FIFO); `<dest>`: hex of the destination;
* `<setters>`: `-` or a comma-separated chain in call order: `user=H group=H symlink=H caps=H` (hex, `-` = empty), `mode=<i32>`,
  `modeu=<u16>`, `moder=<perm>` / `moded=` / `model=` (`FileMode::regular` / `dir` / `symbolic_link`), `verify=<u32>`, and the
  `is_*` setters by name without the prefix.
Observation: `st=<st_mode of the source, octal | -> ` followed by
`ok mode=<FILEMODES word> cmode=<c_mode of the cpio entry> mtime=<n|~> flags= user= group= link= caps=<hex|~> vf= size=`
| `err:io` | `err:TimestampConv` | `err:InvalidDestinationPath` | `err:InvalidCapabilities` | `err:other` | `panic`
| `fs-unsupported` (the file system did not keep the requested mtime). -/
namespace RpmVerif.Driver.WithFile
open RpmVerif.Driver RpmVerif.WithFile RpmVerif.FileMode

structure Req where
  kind : String
  perm : Nat
  secs : Int
  nanos : Nat
  size : Nat
  dest : Bytes
  setters : List Setter
  setterNames : List String

def octalNat (s : String) : Option Nat :=
  s.toList.foldl (fun acc c => acc.bind fun a => if '0' ≤ c ∧ c ≤ '7' then some (a * 8 + (c.toNat - 48)) else none) (some 0)

def octal (n : Nat) : String := String.ofList (Nat.toDigits 8 n)

def parseSetter (t : String) : Option Setter :=
  let names := RpmVerif.Gen.fileOptionSetters.map (·.1)
  match t.splitOn "=" with
  | ["user", h] => (bytesOfHex h).map .user
  | ["group", h] => (bytesOfHex h).map .group
  | ["symlink", h] => (bytesOfHex h).map .symlink
  | ["caps", h] => (bytesOfHex h).map .caps
  | ["mode", n] => n.toInt?.map fun z => .mode (fromI32 z)
  | ["modeu", n] => n.toNat?.map fun w => .mode (fromU16 w)
  | ["moder", p] => (octalNat p).map fun p => .mode (mkRegular p)
  | ["moded", p] => (octalNat p).map fun p => .mode (mkDir p)
  | ["model", p] => (octalNat p).map fun p => .mode (mkSymlink p)
  | ["verify", n] => n.toNat?.map .verify
  | [nm] => let i := names.idxOf ("is_" ++ nm); if i < names.length then some (.flag i) else none
  | _ => none

def parse (args : List String) : Option Req :=
  match args with
  | [kind, perm, secs, nanos, size, dest, setters] => do
    let perm ← octalNat perm
    let secs ← secs.toInt?
    let nanos ← nanos.toNat?
    let size ← size.toNat?
    let dest ← bytesOfHex dest
    let names := if setters == "-" then [] else setters.splitOn ","
    let ss ← names.mapM parseSetter
    if ["reg", "lnk", "fifo", "dir", "missing"].contains kind then pure ⟨kind, perm, secs, nanos, size, dest, ss, names⟩ else none
  | _ => none

/-- the capability validator of C19's model, on the (ASCII) text -/
def capsValid (t : Bytes) : Bool := (RpmVerif.FileCaps.validateCapsText (t.map (·.toNat))).isOk

/-- the `st_mode` the source has after the harness prepared it (OS constants `S_IF*` of `Model/WithFile.lean`) -/
def stModeOf (r : Req) : Option Nat :=
  match r.kind with
  | "reg" | "lnk" => some (S_IFREG ||| r.perm)
  | "fifo" => some (S_IFIFO ||| r.perm)
  | "dir" => some (S_IFDIR ||| r.perm)
  | _ => none

def sourceOf (r : Req) : Source :=
  if h : r.nanos < 1000000000 then
    match r.kind with
    | "reg" | "lnk" => .readable ⟨List.replicate r.size 0, S_IFREG ||| r.perm, ⟨r.secs, r.nanos, h⟩⟩
    -- writing into the FIFO stamps it with the current time: inside the range, not predictable
    | "fifo" => .readable ⟨List.replicate r.size 0, S_IFIFO ||| r.perm, ⟨1, 0, by decide⟩⟩
    | "dir" => .readFails
    | _ => .openFails
  else .openFails

def capsObs : Option Bytes → String | none => "~" | some b => hexOrDash b

/-- the model's observation -/
def modelObs (r : Req) : String :=
  let st := match stModeOf r with | some m => octal m | none => "-"
  let out := match runCall (fun _ => []) capsValid ⟨sourceOf r, r.dest, r.setters⟩ with
    | .ok e =>
      -- what `prepare_data` writes: `u16::from(mode)` into FILEMODES, `u32::from(mode)` into the cpio header — one word in the model
      let mt := if r.kind == "fifo" then "~" else toString e.mtime
      s!"ok mode={e.mode} cmode={e.mode} mtime={mt} flags={e.flags} user={hexOrDash e.user} group={hexOrDash e.group} link={hexOrDash e.link} caps={capsObs e.caps} vf={e.verifyFlags} size={e.size}"
    | .err c => "err:" ++ c
    | .panic _ => "panic"
  s!"st={st} {out}"

def isPanicObs (impl : String) : Bool := (impl.splitOn " ").any (·.startsWith "panic")

def field (impl k : String) : String :=
  (((impl.splitOn " ").findSome? fun t => if t.startsWith (k ++ "=") then some (t.drop (k.length + 1)).toString else none)).getD "<missing>"

def lastOf {α} (l : List α) (f : α → Option β) : Option β := (l.filterMap f).getLast?

/-- C06's demands on a successful call, from the REQUEST alone (no model): the first one violated -/
def firstViolation (r : Req) (impl : String) : Option String :=
  let modeAsked : Option (Option Nat) := lastOf r.setterNames fun t =>
    match t.splitOn "=" with
    | ["mode", n] => n.toInt?.map fun z => if -32768 ≤ z && z ≤ 65535 then some (z % 65536).toNat else none
    | ["modeu", n] => n.toNat?.map some
    | ["moder", p] => (octalNat p).map fun p => some (0o100000 ||| (p &&& 0o7777))
    | ["moded", p] => (octalNat p).map fun p => some (0o040000 ||| (p &&& 0o7777))
    | ["model", p] => (octalNat p).map fun p => some (0o120000 ||| (p &&& 0o7777))
    | _ => none
  -- inherited: a regular source's own mode; the property is silent on what a FIFO "inherits"
  let wantMode : Option Nat := match modeAsked with
    | some m => m
    | none => if r.kind == "fifo" then none else some (0o100000 ||| r.perm)
  let hexArg (k : String) : Option String := lastOf r.setterNames fun t =>
    match t.splitOn "=" with | [k', h] => if k' == k then some h else none | _ => none
  let wantUser := (hexArg "user").getD (hexOrDash FileOptionsSpec.root)
  let wantGroup := (hexArg "group").getD (hexOrDash FileOptionsSpec.root)
  let wantLink := (hexArg "symlink").getD "-"
  let wantCaps := (hexArg "caps").getD "~"
  let wantVf := (lastOf r.setterNames fun t => match t.splitOn "=" with | ["verify", n] => some n | _ => none).getD (toString RpmVerif.Gen.FileVerifyFlags.all)
  let wantFlags := r.setterNames.foldl (fun acc t =>
    acc ||| ((FileOptionsSpec.settersStd.find? fun p => p.1 == "is_" ++ t).map (·.2)).getD 0) 0
  if wantMode.isSome && some (field impl "mode") != wantMode.map toString then some "file-mode"
  else if field impl "cmode" != field impl "mode" then some "cpio-mode"
  else if field impl "user" != wantUser then some "file-user"
  else if field impl "group" != wantGroup then some "file-group"
  else if field impl "link" != wantLink then some "file-link"
  else if field impl "caps" != wantCaps && !(wantCaps == "~" && field impl "caps" == "-") then some "file-caps"
  else if field impl "vf" != wantVf then some "file-verifyflags"
  else if field impl "flags" != toString wantFlags then some "file-flags"
  else if r.kind != "fifo" && field impl "mtime" != toString r.secs then some "file-mtime"
  else if field impl "size" != toString r.size then some "file-size"
  else none

def label (r : Req) (impl : String) : String :=
  let outcome := if impl.contains "fs-unsupported" then "fs-unsupported" else
    match (impl.splitOn " ").drop 1 with
    | o :: _ => o
    | [] => "?"
  let modeKind := if r.setters.any (·.isMode) then "explicit" else "inherit"
  let region := if r.secs < 0 then "pre-1970" else if r.secs < 4294967296 then "in-range" else "post-2106"
  s!"wfile:{r.kind}:{modeKind}:{region}:{outcome}"

/-- `wfile` (C17: no panic whatever the source and the chain) and `wfile6` (C06: what was given is read back) -/
def handle (readback : Bool) (args : List String) (impl : String) : String :=
  match parse args with
  | none => badReq "wfile"
  | some r =>
    if impl.endsWith "fs-unsupported" then answer "*" "dontcare" "wfile:fs-unsupported" else
    let verdict :=
      if isPanicObs impl then "fails:builder-panic"
      else if !readback then "holds"
      else if !(impl.splitOn " ").contains "ok" then "dontcare"
      else match firstViolation r impl with
        | none => "holds"
        | some k => "fails:" ++ k
    answer (modelObs r) verdict (label r impl)

end RpmVerif.Driver.WithFile
