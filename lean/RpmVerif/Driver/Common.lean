import RpmVerif.Model.Basic
/-! Driver plumbing shared by all properties (executable only; nothing here is used in a theorem). -/
namespace RpmVerif.Driver

/-- answer line: model observation | spec verdict | branch label -/
def answer (model verdict branch : String) : String := model ++ " | " ++ verdict ++ " | " ++ branch

def badReq (why : String) : String := answer ("bad-request:" ++ why) "dontcare" "bad-request"

def ordStr : Ordering → String | .lt => "lt" | .eq => "eq" | .gt => "gt"

/-- hex of UTF-8 bytes → code points; `none` when not valid UTF-8 -/
def codePointsOfHex (h : String) : Option (List Nat) := do
  let bs ← bytesOfHex h
  let s ← String.fromUTF8? (ByteArray.mk bs.toArray)
  pure (s.toList.map Char.toNat)

def natsOfBytes (bs : Bytes) : List Nat := bs.map UInt8.toNat

def hexOfString (s : String) : String := hexOrDash s.toUTF8.toList

def stringOfCodePoints (l : List Nat) : String := String.ofList (l.map Char.ofNat)

def verdictOf (b : Bool) : String := if b then "holds" else "fails"

end RpmVerif.Driver

namespace RpmVerif.Driver
/-- FNV-1a 64 (same function as harness/src/common.rs `fnv`) -/
def fnv (bs : Bytes) : UInt64 :=
  bs.foldl (fun h b => (h ^^^ b.toUInt64) * 0x100000001b3) 0xcbf29ce484222325

def hex16 (x : UInt64) : String :=
  let s := String.ofList (Nat.toDigits 16 x.toNat)
  String.ofList (List.replicate (16 - s.length) '0') ++ s

def boolStr (b : Bool) : String := if b then "true" else "false"
end RpmVerif.Driver
