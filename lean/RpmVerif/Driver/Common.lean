import RpmVerif.Model.Basic
/-! Driver plumbing shared by all properties (executable only; nothing here is used in a theorem). -/
namespace RpmVerif.Driver

/-- answer line: model observation | spec verdict | branch label -/
def answer (model verdict branch : String) : String := model ++ " | " ++ verdict ++ " | " ++ branch

def badReq (why : String) : String := answer ("bad-request:" ++ why) "dontcare" "bad-request"

def ordStr : Ordering → String | .lt => "lt" | .eq => "eq" | .gt => "gt"

/-- hex of UTF-8 bytes → code points; `none` when not valid UTF-8 -/
def codePointsOfHex (h : String) : Option (List Nat) := do
  let bs ← bytesOfHex h
  let s ← String.fromUTF8? (ByteArray.mk bs.toArray)
  pure (s.toList.map Char.toNat)

def natsOfBytes (bs : Bytes) : List Nat := bs.map UInt8.toNat

def hexOfString (s : String) : String := hexOrDash s.toUTF8.toList

def stringOfCodePoints (l : List Nat) : String := String.ofList (l.map Char.ofNat)

def verdictOf (b : Bool) : String := if b then "holds" else "fails"

end RpmVerif.Driver
