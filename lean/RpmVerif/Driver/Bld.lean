import RpmVerif.Driver.C05
import RpmVerif.Driver.Hash
import RpmVerif.Model.Builder
import RpmVerif.Model.Path
import RpmVerif.Model.WithFile
import RpmVerif.Model.PrepareData
import RpmVerif.Spec.FileOptions
import RpmVerif.Gen.CompressionNames
/-! Shared driver front-end for the builder properties (C06, C08, C09, C11): decodes the compact
configuration of harness/src/bld.rs into the builder state the model works on. -/
namespace RpmVerif.Driver.Bld
open RpmVerif.Hdr RpmVerif.Bld RpmVerif.Driver

def hb (s : String) : Bytes := (bytesOfHex s).getD []

/-- deterministic file content, same generator as harness/src/bld.rs `content` -/
def splitmixNext (st : UInt64) : UInt64 × UInt64 :=
  let s := st + 0x9E3779B97F4A7C15
  let z := (s ^^^ (s >>> 30)) * 0xBF58476D1CE4E5B9
  let z := (z ^^^ (z >>> 27)) * 0x94D049BB133111EB
  (s, z ^^^ (z >>> 31))

def content (seed size : Nat) : Bytes :=
  if seed % 2 == 0 then (List.range size).map fun i => ((i + seed) % 251).toUInt8
  else Id.run do
    let mut st : UInt64 := seed.toUInt64
    let mut out : Array UInt8 := Array.mkEmpty size
    for _ in [0:size] do
      let (s, v) := splitmixNext st
      st := s
      out := out.push v.toUInt8
    return out.toList

def sha256hex (b : Bytes) : Bytes := (hexOfBytes (Hash.sha256L b)).toUTF8.toList

/-- `add_data`'s path handling: the model of C17 (`Model/AddData.lean`), as an `Option` -/
def addData (dest : Bytes) : Option (Bytes × Bytes × Bytes) := (RpmVerif.AddData.addData dest).toOption

/-- one `f=` token: `call` is what the harness does with it (source file it prepares, options chain in the harness' call
order) — the input of the MODEL (`Model/WithFile.lean`); the other fields are what the request asks for — the input of the
SPEC (C06), computed without the model: the mode word asked for (`none` where the property is silent: an explicit `i32`
outside 16 bits), owner, group, the attribute bits of the named directives by rpm's own numbers (`Spec/FileOptions.lean`) … -/
structure FileReq where
  dest : Bytes
  call : RpmVerif.WithFile.Call
  mode : Option Nat
  user : Bytes
  group : Bytes
  flags : Nat
  caps : Option Bytes
  link : Bytes
  mtime : Int
  seed : Nat
  size : Nat
  verifyFlags : Nat

structure Req where
  cfg : Cfg
  files : List FileReq       -- as requested, in request order
  now : Nat
  /-- the error class when the MODEL's sequence of `with_file` calls fails (then `cfg.files` is empty) -/
  buildErr : Option String := none
  /-- `PackageBuilder::new(..)` of the request and the calls made on it, in the harness' order (input of `Build.run`) -/
  st0 : RpmVerif.Build.St := ⟨cfg, [], []⟩
  calls : List RpmVerif.Build.Call := []
  /-- `sgn=bs|b+s`: the package is signed after the build (`build_and_sign` / `build` + `sign`): lead, main header and payload
  are those of the unsigned build, the signature header is not predicted -/
  signed : Bool := false

def kv (toks : List String) (k : String) : Option String :=
  toks.findSome? fun t => if t.startsWith (k ++ "=") then some (t.drop (k.length + 1)).toString else none

def parseScript (p : List String) : Option RpmVerif.Bld.Scriptlet :=
  match p with
  | [_, s, f, pr] =>
    some ⟨hb s, (if f == "~" then none else f.toNat?),
      (if pr == "~" then none else if pr == "-" then some [] else some ((pr.splitOn ",").map hb))⟩
  | _ => none

/-! ### the `f=` token

`f=<dest>:<mode>:<user>:<group>:<flags>:<caps|~>:<link>:<mtime>:<seed>:<size>:<verifyflags|~>[:<extras>]`
* `<mode>`: `i<perm>` — no `mode(..)` call, the source file is chmod-ed to `<perm>` (all 12 bits); `<n>` (signed decimal) —
  `.mode(n as i32)` after `symlink(..)`; `f<n>` / `l<n>` — the same call made FIRST (right after `new`) / LAST (after the flag
  setters); `u<n>` — `.mode(n as u16)`.
* `<flags>`: `+`-separated `is_*` setter names without the prefix, in call order (`config_noreplace+doc`), `0` = none; a
  number is the legacy encoding (bit 2 doc, 1 config, 16 config_noreplace, 64 ghost, 128 license, 256 readme, in that order).
* `<mtime>`: signed seconds; `<extras>`: `+`-separated `ns=<nanos>`, `k=<dir|missing>` (what the source path is). -/

def setterNames : List String := RpmVerif.Gen.fileOptionSetters.map (·.1)

/-- the `is_*` setters a flags field names, as indices of `Gen.fileOptionSetters` (unknown names: index past the table) -/
def flagSetters (fl : String) : List Nat :=
  match fl.toNat? with
  | some n =>
    [("is_doc", 2), ("is_config", 1), ("is_config_noreplace", 16), ("is_ghost", 64), ("is_license", 128), ("is_readme", 256)].filterMap
      fun (nm, bit) => if n &&& bit != 0 then some (setterNames.idxOf nm) else none
  | none => if fl == "-" then [] else (fl.splitOn "+").map fun nm => setterNames.idxOf ("is_" ++ nm)

/-- the attribute bits the SPEC expects for those directives (`Spec/FileOptions.lean`, not the scraped table) -/
def specFlags (idxs : List Nat) : Nat :=
  idxs.foldl (fun acc i => acc ||| ((RpmVerif.FileOptionsSpec.settersStd[i]?).map (·.2)).getD 0) 0

def parseFile (t : String) : Option FileReq :=
  open RpmVerif.WithFile RpmVerif.FileMode in
  let parts := (t.drop 2).toString.splitOn ":"
  match parts.take 11, parts.drop 11 with
  | [d, m, u, gr, fl, cp, ln, mt, sd, sz, vf], ex =>
    if ex.length > 1 then none else
    let extras := (ex.headD "").splitOn "+"
    let user := hb u; let group := hb gr; let link := hb ln
    let caps := if cp == "~" then none else some (hb cp)
    let seed := sd.toNat?.getD 0; let size := sz.toNat?.getD 0
    let secs := mt.toInt?.getD 0
    let nanos := ((kv extras "ns").bind (·.toNat?)).getD 0
    let flagIdx := flagSetters fl
    -- the mode argument and where the harness places the call
    let (pos, arg) : String × String :=
      if m.startsWith "i" then ("i", (m.drop 1).toString) else if m.startsWith "f" then ("f", (m.drop 1).toString)
      else if m.startsWith "l" then ("l", (m.drop 1).toString) else if m.startsWith "u" then ("u", (m.drop 1).toString) else ("m", m)
    let n : Int := arg.toInt?.getD 0
    let modeSetter : List Setter :=
      if pos == "i" then [] else if pos == "u" then [.mode (fromU16 (asU16 n))] else [.mode (fromI32 n)]
    let base : List Setter := [.user user, .group group, .symlink link]
    let tail : List Setter := (match caps with | some c => [.caps c] | none => []) ++
      (if vf == "~" then [] else [.verify (vf.toNat?.getD 0)])
    let flags : List Setter := flagIdx.map .flag
    let setters := if pos == "f" then modeSetter ++ base ++ tail ++ flags
                   else if pos == "l" then base ++ tail ++ flags ++ modeSetter
                   else base ++ modeSetter ++ tail ++ flags
    -- the source the harness prepares: a regular file with the generated content, chmod-ed, mtime set
    let perm := if pos == "i" then n.toNat &&& 0o7777 else 0o644
    let src : Source :=
      match kv extras "k" with
      | some "dir" => .readFails
      | some "missing" => .openFails
      | _ => if h : nanos < 1000000000 then .readable ⟨content seed size, S_IFREG ||| perm, ⟨secs, nanos, h⟩⟩ else .openFails
    let specMode : Option Nat :=
      if pos == "i" then some (0o100000 ||| perm)
      else if -32768 ≤ n && n ≤ 65535 then some (n % 65536).toNat else none
    some ⟨hb d, ⟨src, hb d, setters⟩, specMode, user, group, specFlags flagIdx, caps, link, secs, seed, size,
          (if vf == "~" then RpmVerif.Gen.FileVerifyFlags.all else vf.toNat?.getD 0)⟩
  | _, _ => none

/-- the cargo features of the rpm-rs build the harness links: its defaults, plus bzip2 unless `feat=nobz` -/
def featureEnabled (nobz : Bool) (t : Nat) : Bool :=
  RpmVerif.Gen.cargoDefaultFeatureTypes.contains t || (!nobz && RpmVerif.Gen.compressionVariants[t]? == some "Bzip2")

/-- a (`CompressionWithLevel` variant index, level) pair of the tables as the builder model's `Comp` -/
def compOfVariant (p : Nat × Int) : Comp :=
  match RpmVerif.Gen.levelVariants[p.1]? with
  | some "Gzip" => .gzip p.2.toNat | some "Zstd" => .zstd p.2 | some "Xz" => .xz p.2.toNat | some "Bzip2" => .bzip2 p.2.toNat
  | _ => .none

/-- `CompressionWithLevel::default()` for that feature set (table scraped from compressor.rs) -/
def defaultComp (nobz : Bool) : Comp :=
  match RpmVerif.AddData.defaultCompression (featureEnabled nobz) with
  | some p => compOfVariant p
  | none => .none

/-- `CompressionType::<name>.into()` -/
def compOfTypeName (name : String) : Comp :=
  let t := (RpmVerif.Gen.compressionVariants.map String.toLower).idxOf name
  match RpmVerif.AddData.withLevelOfType t with
  | some p => compOfVariant p
  | none => .none

/-- `c=<…>` as the `CompressionWithLevel` handed to `compression(..)` -/
def parseComp (c : String) : Comp :=
  match c.splitOn ":" with
  | [ty, "d"] => compOfTypeName ty                -- `compression(CompressionType::<ty>)`
  | ["none"] => .none | ["none", _] => .none
  | ["gzip", l] => .gzip (l.toNat?.getD 0) | ["zstd", l] => .zstd (l.toInt?.getD 0)
  | ["xz", l] => .xz (l.toNat?.getD 0) | ["bzip2", l] => .bzip2 (l.toNat?.getD 0)
  | _ => .none

/-- key and value of a `k=v` token -/
def splitTok (t : String) : String × String :=
  match t.splitOn "=" with
  | k :: rest => (k, "=".intercalate rest)
  | [] => ("", "")

/-- a typed instant `<kind>:<secs>:<nanos>` (kind `u32 | sys | utc | fix`) as the argument of a timestamp setter -/
def parseTsArg (kind secs nanos : String) : Option RpmVerif.AddData.TsArg :=
  match secs.toInt?, nanos.toNat? with
  | some s, some n =>
    if h : n < 1000000000 then
      match kind with
      | "u32" => if 0 ≤ s && s < 4294967296 && n == 0 then some (.secs s.toNat) else none
      | "sys" => some (.src (.sys ⟨s, n, h⟩))
      | "utc" => some (.src (.chrono ⟨⟨s, n, h⟩, 0⟩))
      | "fix" => some (.src (.chrono ⟨⟨s, n, h⟩, 20700⟩))
      | _ => none
    else none
  | _, _ => none

def scriptKinds : List String := ["prein", "postin", "preun", "postun", "pretrans", "posttrans", "preuntrans", "postuntrans", "verify"]
def depKindsWire : List String := ["prov", "req", "conf", "obs", "rec", "sug", "enh", "sup"]

/-- the calls `harness/src/bld.rs builder_from` makes on the `PackageBuilder`, in ITS order: every occurrence of a metadata /
compression token in token order, `source_date` (unless `sdlast`), then the `f=` / `dp=` / `sc=` / `cl=` / `clt=` tokens in
token order, `source_date` last with `sdlast`. The model of each call is `Model/Builder.lean` (`MetaSetter.apply`) /
`Model/WithFile.lean` / `Model/AddData.lean` (timestamps) — composed by `Build.run` (`Model/PrepareData.lean`). -/
def callsOf (toks : List String) (fileReqs : List FileReq) : List RpmVerif.Build.Call :=
  open RpmVerif.Build in
  let g := kv toks
  let simple : List Call := toks.filterMap fun t =>
    let (k, v) := splitTok t
    match k with
    | "e" => v.toNat?.map fun n => .set (.epoch n)
    | "r" => some (.set (.release (hb v))) | "d" => some (.set (.description (hb v))) | "ve" => some (.set (.vendor (hb v)))
    | "pk" => some (.set (.packager (hb v))) | "g" => some (.set (.group (hb v))) | "u" => some (.set (.url (hb v)))
    | "vc" => some (.set (.vcs (hb v))) | "ck" => some (.set (.cookie (hb v))) | "bh" => some (.set (.buildHost (hb v)))
    | "c" => some (.set (.compression (parseComp v)))
    | _ => none
  -- `sd=<u32>` with `sdk=` choosing the argument type for the same instant; `sdneg=<s>`: s seconds before 1970 as a DateTime;
  -- `sdt=<kind>:<secs>:<nanos>`: any instant as that type
  let sd : List Call :=
    (match (g "sd").bind (·.toNat?) with
     | some n =>
       let k := (g "sdk").getD "u32"
       if k == "st" then [.sourceDate (.src (.sys ⟨n, 0, by decide⟩))]
       else if k.startsWith "dt" then [.sourceDate (.src (.chrono ⟨⟨n, 0, by decide⟩, 0⟩))]
       else [.sourceDate (.secs n)]
     | none => []) ++
    (match (g "sdneg").bind (·.toNat?) with
     | some n => [.sourceDate (.src (.chrono ⟨⟨-(n : Int), 0, by decide⟩, 0⟩))]
     | none => []) ++
    (match (g "sdt").map (·.splitOn ":") with
     | some [k, s, n] => (parseTsArg k s n).toList.map .sourceDate
     | _ => [])
  let fileCalls := fileReqs.map (·.call)
  let rec seq (ts : List String) (fs : List RpmVerif.WithFile.Call) : List Call :=
    match ts with
    | [] => []
    | t :: rest =>
      if t.startsWith "f=" then
        match fs with
        | c :: fs' => .file c :: seq rest fs'
        | [] => seq rest []
      else if t.startsWith "dp=" then
        match (t.drop 3).toString.splitOn ":" with
        | [k, n, f, v] => .set (.dep (depKindsWire.idxOf k) ⟨hb n, f.toNat?.getD 0, hb v⟩) :: seq rest fs
        | _ => seq rest fs
      else if t.startsWith "dpc=" then
        -- a dependency made by the public constructor named (table `Gen.depCtors`, scraped from types.rs)
        match (t.drop 4).toString.splitOn ":" with
        | [k, ctor, n, v] =>
          (match RpmVerif.Bld.depCtor (RpmVerif.Gen.depCtorNames.idxOf ctor) (hb n) (hb v) with
           | some d => [Call.set (.dep (depKindsWire.idxOf k) d)]
           | none => []) ++ seq rest fs
        | _ => seq rest fs
      else if t.startsWith "sc=" then
        let p := (t.drop 3).toString.splitOn ":"
        match parseScript p with
        | some s => .set (.script (scriptKinds.idxOf (p.headD "")) s) :: seq rest fs
        | none => seq rest fs
      else if t.startsWith "scs=" then
        -- `impl From<&str / String> for Scriptlet`: the text alone
        match (t.drop 4).toString.splitOn ":" with
        | [k, s] => .set (.script (scriptKinds.idxOf k) (RpmVerif.Bld.Scriptlet.new (hb s))) :: seq rest fs
        | _ => seq rest fs
      else if t.startsWith "cl=" then
        match (t.drop 3).toString.splitOn ":" with
        | [n, x, tm] => .set (.changelog (hb n) (hb x) (tm.toNat?.getD 0)) :: seq rest fs
        | _ => seq rest fs
      else if t.startsWith "clt=" then
        match (t.drop 4).toString.splitOn ":" with
        | [n, x, k, s, ns] => (match parseTsArg k s ns with | some a => [Call.changelog (hb n) (hb x) a] | none => []) ++ seq rest fs
        | _ => seq rest fs
      else seq rest fs
  let sdLast := toks.contains "sdlast"
  simple ++ (if sdLast then [] else sd) ++ seq toks fileCalls ++ (if sdLast then sd else [])

def parseReqWith (valid : Bytes → Bool) (toks : List String) : Option Req := do
  let g := kv toks
  -- (a malformed `f=` token makes the request unreadable rather than silently dropping a file)
  let fileReqs : List FileReq := toks.filterMap fun t => if t.startsWith "f=" then parseFile t else none
  let nobz := g "feat" == some "nobz"
  -- the builder state: `PackageBuilder::new` (defaults of the table scraped from builder.rs; no `compression(..)` call =
  -- `CompressionWithLevel::default()`), then the MODEL of every call in the harness' order (`Build.run`)
  let st0 : RpmVerif.Build.St :=
    let s := RpmVerif.Build.St.new (hb ((g "n").getD "-")) (hb ((g "v").getD "-")) (hb ((g "l").getD "-")) (hb ((g "a").getD "-"))
      (hb ((g "s").getD "-")) (defaultComp nobz)
    { s with base := { s.base with largeFileThreshold := ((g "lf").bind (·.toNat?)).getD 4294967295 } }
  let calls := callsOf toks fileReqs
  let (cfg, buildErr) : Cfg × Option String := match RpmVerif.Build.run sha256hex valid calls st0 with
    | .ok st => (st.cfg, none)
    | .err e => (st0.cfg, some e)
    | .panic p => (st0.cfg, some ("panic:" ++ p))
  let now ← (g "now").bind (·.toNat?)
  pure ⟨cfg, fileReqs, now, buildErr, st0, calls, (g "sgn").isSome⟩

/-- (the configurations of C06 / C08 / C09 / C11 carry valid capability texts only) -/
def parseReq (toks : List String) : Option Req := parseReqWith (fun _ => true) toks

/-- the verify scriptlet through the raw getters, as harness `verify_script_dump` -/
def verifyDump (h : Header) : String :=
  open RpmVerif.Gen in
  let script := C05.rs (getString h IndexTag.RPMTAG_VERIFYSCRIPT)
  let flags := match getU32 h IndexTag.RPMTAG_VERIFYSCRIPTFLAGS with | .ok v => toString v | _ => "~"
  let prog := match getStringArray h IndexTag.RPMTAG_VERIFYSCRIPTPROG with
    | .ok v => "[" ++ "/".intercalate (v.map C05.hx) ++ "]" | _ => "~"
  s!"verify={script},{flags},{prog}"

/-- model observation of `build`, given the two digests the harness computed independently -/
def modelBuildObs (r : Req) (paysha archsha : String) : String × Package :=
  let hdr := mainHeader r.cfg r.now paysha.toUTF8.toList archsha.toUTF8.toList
  let hbytes := writeHeader hdr
  let sig := signatureHeader [] (some (sha256hex hbytes))
  let lead := leadNew r.cfg.name
  let md : Metadata := ⟨lead, sig, hdr⟩
  let same := match parseMetadata (writeMetadata md) with | .ok (m2, _) => m2 == md | _ => false
  let obs := s!"ok paysha={paysha} archsha={archsha} lead={hex16 (fnv (writeLead lead))} sig={if r.signed then "signed" else hex16 (fnv (writeSignature sig))} hdr={hex16 (fnv hbytes)} hlen={hbytes.length} same={boolStr same} || {C05.dump md} {verifyDump hdr}"
  (obs, ⟨md, []⟩)

end RpmVerif.Driver.Bld
