import RpmVerif.Driver.C05
import RpmVerif.Driver.Hash
import RpmVerif.Model.Builder
import RpmVerif.Model.Path
/-! Shared driver front-end for the builder properties (C06, C08, C09, C11): decodes the compact
configuration of harness/src/bld.rs into the builder state the model works on. -/
namespace RpmVerif.Driver.Bld
open RpmVerif.Hdr RpmVerif.Bld RpmVerif.Driver

def hb (s : String) : Bytes := (bytesOfHex s).getD []

/-- deterministic file content, same generator as harness/src/bld.rs `content` -/
def splitmixNext (st : UInt64) : UInt64 × UInt64 :=
  let s := st + 0x9E3779B97F4A7C15
  let z := (s ^^^ (s >>> 30)) * 0xBF58476D1CE4E5B9
  let z := (z ^^^ (z >>> 27)) * 0x94D049BB133111EB
  (s, z ^^^ (z >>> 31))

def content (seed size : Nat) : Bytes :=
  if seed % 2 == 0 then (List.range size).map fun i => ((i + seed) % 251).toUInt8
  else Id.run do
    let mut st : UInt64 := seed.toUInt64
    let mut out : Array UInt8 := Array.mkEmpty size
    for _ in [0:size] do
      let (s, v) := splitmixNext st
      st := s
      out := out.push v.toUInt8
    return out.toList

def sha256hex (b : Bytes) : Bytes := (hexOfBytes (Hash.sha256L b)).toUTF8.toList

/-- `add_data`'s path handling (same logic as Model/AddData.lean of C17) -/
def addData (dest : Bytes) : Option (Bytes × Bytes × Bytes) :=
  open RpmVerif.Path in
  if !strStartsWith dest [46, 47] && !strStartsWith dest [47] then none else
  match parent dest with
  | none => none
  | some par =>
    let r : Option (Bytes × Bytes) :=
      if strStartsWith dest [46] then
        match stripPrefixDot par with
        | none => none
        | some sp => some (dest, [47] ++ sp ++ [47])
      else some ([46] ++ dest, par ++ [47])
    match r, fileName dest with
    | some (_, dir), some bn =>
      let dir := if dir == [47, 47] then [47] else dir
      -- since fix cbb69e5 the archive entry is named "." ++ dir ++ base name
      some ([46] ++ dir ++ bn, dir, bn)
    | _, _ => none

structure FileReq where
  dest : Bytes
  mode : Nat
  user : Bytes
  group : Bytes
  flags : Nat
  caps : Option Bytes
  link : Bytes
  mtime : Nat
  seed : Nat
  size : Nat
  verifyFlags : Nat
  deriving Repr

structure Req where
  cfg : Cfg
  files : List FileReq       -- as requested, in request order
  now : Nat
  deriving Repr

def kv (toks : List String) (k : String) : Option String :=
  toks.findSome? fun t => if t.startsWith (k ++ "=") then some (t.drop (k.length + 1)).toString else none

def parseScript (p : List String) : Option RpmVerif.Bld.Scriptlet :=
  match p with
  | [_, s, f, pr] =>
    some ⟨hb s, (if f == "~" then none else f.toNat?),
      (if pr == "~" then none else if pr == "-" then some [] else some ((pr.splitOn ",").map hb))⟩
  | _ => none

def insertSorted (f : FileE) : List FileE → List FileE
  | [] => [f]
  | g :: r => if f.cpioPath == g.cpioPath then g :: r           -- `or_insert`: the first one stays
              else if f.cpioPath < g.cpioPath then f :: g :: r else g :: insertSorted f r

def parseReq (toks : List String) : Option Req := do
  let g := kv toks
  let opt (k : String) : Option Bytes := (g k).map hb
  let fileReqs : List FileReq := toks.filterMap fun t =>
    if t.startsWith "f=" then
      match (t.drop 2).toString.splitOn ":" with
      | [d, m, u, gr, fl, cp, ln, mt, sd, sz, vf] =>
        let mode := if m.startsWith "i" then (0o100000 ||| ((m.drop 1).toString.toNat?.getD 0 &&& 0o7777)) else
          -- `.mode(i32)`: From<i32> then From<FileMode> for u16 = raw_mode
          (m.toInt?.getD 0 % 65536).toNat
        some ⟨hb d, mode, hb u, hb gr, fl.toNat?.getD 0, (if cp == "~" then none else some (hb cp)), hb ln,
              mt.toNat?.getD 0, sd.toNat?.getD 0, sz.toNat?.getD 0, (if vf == "~" then RpmVerif.Gen.FileVerifyFlags.all else vf.toNat?.getD 0)⟩
      | _ => none
    else none
  let files := fileReqs.foldl (fun acc f =>
    match addData f.dest with
    | some (cpio, dir, bn) =>
      insertSorted ⟨cpio, dir, bn, f.size, f.mode, f.user, f.group, f.link, f.flags, f.caps, f.verifyFlags, f.mtime,
                    sha256hex (content f.seed f.size)⟩ acc
    | none => acc) []
  let dirs := sortedDedup (fileReqs.filterMap fun f => (addData f.dest).map (·.2.1))
  let deps (kind : String) : List Dep := toks.filterMap fun t =>
    if t.startsWith "dp=" then
      match (t.drop 3).toString.splitOn ":" with
      | [k, n, f, v] => if k == kind then some ⟨hb n, f.toNat?.getD 0, hb v⟩ else none
      | _ => none
    else none
  let script (kind : String) : Option RpmVerif.Bld.Scriptlet :=
    (toks.filterMap fun t =>
      if t.startsWith "sc=" then
        let p := (t.drop 3).toString.splitOn ":"
        if p.head? == some kind then parseScript p else none
      else none).getLast?
  let changelog := toks.filterMap fun t =>
    if t.startsWith "cl=" then
      match (t.drop 3).toString.splitOn ":" with
      | [n, x, tm] => some (hb n, hb x, tm.toNat?.getD 0)
      | _ => none
    else none
  let comp : Comp := match g "c" with
    | none => .zstd 19
    | some c => match c.splitOn ":" with
      | ["none"] => .none | ["none", _] => .none
      | ["gzip", l] => .gzip (l.toNat?.getD 0) | ["zstd", l] => .zstd (l.toInt?.getD 0)
      | ["xz", l] => .xz (l.toNat?.getD 0) | ["bzip2", l] => .bzip2 (l.toNat?.getD 0)
      | _ => .none
  let cfg : Cfg := {
    name := hb ((g "n").getD "-"), epoch := ((g "e").bind (·.toNat?)).getD 0, version := hb ((g "v").getD "-"),
    release := (opt "r").getD [49], license := hb ((g "l").getD "-"), arch := hb ((g "a").getD "-"),
    summary := hb ((g "s").getD "-"), desc := opt "d", vendor := opt "ve", packager := opt "pk", group := opt "g",
    url := opt "u", vcs := opt "vc", cookie := opt "ck", buildHost := opt "bh",
    sourceDate := (g "sd").bind (·.toNat?), files := files, directories := dirs,
    provides := deps "prov", requires := deps "req", conflicts := deps "conf", obsoletes := deps "obs",
    recommends := deps "rec", suggests := deps "sug", enhances := deps "enh", supplements := deps "sup",
    preIn := script "prein", postIn := script "postin", preUn := script "preun", postUn := script "postun",
    preTrans := script "pretrans", postTrans := script "posttrans", preUntrans := script "preuntrans",
    postUntrans := script "postuntrans", verify := script "verify", changelog := changelog, compression := comp,
    largeFileThreshold := ((g "lf").bind (·.toNat?)).getD 4294967295 }
  let now ← (g "now").bind (·.toNat?)
  pure ⟨cfg, fileReqs, now⟩

/-- the verify scriptlet through the raw getters, as harness `verify_script_dump` -/
def verifyDump (h : Header) : String :=
  open RpmVerif.Gen in
  let script := C05.rs (getString h IndexTag.RPMTAG_VERIFYSCRIPT)
  let flags := match getU32 h IndexTag.RPMTAG_VERIFYSCRIPTFLAGS with | .ok v => toString v | _ => "~"
  let prog := match getStringArray h IndexTag.RPMTAG_VERIFYSCRIPTPROG with
    | .ok v => "[" ++ "/".intercalate (v.map C05.hx) ++ "]" | _ => "~"
  s!"verify={script},{flags},{prog}"

/-- model observation of `build`, given the two digests the harness computed independently -/
def modelBuildObs (r : Req) (paysha archsha : String) : String × Package :=
  let hdr := mainHeader r.cfg r.now paysha.toUTF8.toList archsha.toUTF8.toList
  let hbytes := writeHeader hdr
  let sig := signatureHeader [] (some (sha256hex hbytes))
  let lead := leadNew r.cfg.name
  let md : Metadata := ⟨lead, sig, hdr⟩
  let same := match parseMetadata (writeMetadata md) with | .ok (m2, _) => m2 == md | _ => false
  let obs := s!"ok paysha={paysha} archsha={archsha} lead={hex16 (fnv (writeLead lead))} sig={hex16 (fnv (writeSignature sig))} hdr={hex16 (fnv hbytes)} hlen={hbytes.length} same={boolStr same} || {C05.dump md} {verifyDump hdr}"
  (obs, ⟨md, []⟩)

end RpmVerif.Driver.Bld
