import RpmVerif.Driver.Common
import RpmVerif.Model.Header
import RpmVerif.Spec.Canon
import RpmVerif.Model.Builder
import RpmVerif.Driver.Hash
/-! Driver for C16. Ops `offsets BYTES`, `offbig DL`, `offbig16 WHICH N DL` (N NULL entries + DL-byte store in the signature / MAIN header). Observation
`ok <lead> <sig> <hdr> <payload> wlen=<n> clen=<n> i1=<intro at sig> i2=<intro at hdr>` | `err`.
Spec: boundaries recomputed from the raw input bytes (`Canon.hdrLen`), independently of the parser. -/
namespace RpmVerif.Driver.C16
open RpmVerif.Hdr RpmVerif.Driver

def ops : List String := ["offsets", "offbig", "offv", "offbig16"]

def introAt (w : Bytes) (pos : Nat) : Bool := (w.drop pos).take 4 == RpmVerif.Gen.HEADER_MAGIC ++ [1]

def obs (o : Offsets) (wlen clen : Nat) (i1 i2 : Bool) : String :=
  s!"ok {o.lead} {o.sig} {o.hdr} {o.payload} wlen={wlen} clen={clen} i1={boolStr i1} i2={boolStr i2}"

def handle (op : String) (args : List String) (impl : String) : String :=
  match op, args with
  | "offsets", [hb] =>
    match bytesOfHex hb with
    | none => badReq "hex"
    | some bs =>
      match parsePackage bs with
      | .ok p =>
        let w := writePackage p
        let o := offsets p.md
        let m := obs o w.length p.content.length (introAt w o.sig) (introAt w o.hdr)
        -- spec, from the input bytes alone: written length = input length, boundaries by the intro fields
        let r := bs.drop 96
        let h := 96 + Canon.hdrLen r + Canon.sigPadOf r
        let pay := h + Canon.hdrLen (bs.drop h)
        let want := obs ⟨0, 96, h, pay⟩ bs.length (bs.length - pay) true true
        let v := if impl.startsWith "ok" then verdictOf (impl == want && 96 < h && h < pay) else "dontcare"
        answer m v s!"sig{min p.md.signature.entries.length 3}-mod{p.md.signature.dataSize % 8}-hdr{min p.md.header.entries.length 3}"
      | o => answer (if o.isPanic then "panic" else "err") (if impl.startsWith "ok" then "fails:accepted-what-model-rejects" else "dontcare") "rejected"
  | "offv", [variant, hb] =>
    -- a value changed in memory after parsing: the spec is the theorem's statement, evaluated on the
    -- model's written bytes (segments of the written package), the model predicts offsets and lengths
    match bytesOfHex hb with
    | none => badReq "hex"
    | some bs =>
      if variant == "signE" || variant == "signNow" then
        -- a real signature: its bytes are not predictable; the spec is judged on the observation alone
        -- (an intro starts at both header offsets of the written bytes, distance payload offset → end = payload length)
        let toks := (impl.splitOn " ").filter (· ≠ "")
        let v := match toks with
          | ["ok", l, s, h, p, wl, cl, i1, i2] =>
            let n (x : String) := ((x.splitOn "=").getLast?.getD "").toNat?.getD 0
            verdictOf (l == "0" && s == "96" && i1 == "i1=true" && i2 == "i2=true" && 96 < n h && n h < n p && n wl - n p == n cl)
          | _ => if impl == "err" then "dontcare" else "fails:malformed-observation"
        answer "*" v s!"variant-{variant}"
      else
      match parsePackage bs with
      | .ok p0 =>
        let sig : Header := match variant with
          | "clearsig" => RpmVerif.Bld.signatureHeader [] (some ((hexOfBytes (Hash.sha256L (writeHeader p0.md.header))).toUTF8.toList))
          | "clear" => p0.md.signature.clear     -- `Header::clear` (Model/Header.lean; C16.offsets_cleared)
          | _ => Header.empty                    -- `Header::new_empty` (C16.offsets_new_empty)
        let p : Package := ⟨⟨p0.md.lead, sig, p0.md.header⟩, p0.content⟩
        let w := writePackage p
        let o := offsets p.md
        let m := obs o w.length p.content.length (introAt w o.sig) (introAt w o.hdr)
        let h := 96 + (writeSignature sig).length
        let pay := h + (writeHeader p.md.header).length
        let want := obs ⟨0, 96, h, pay⟩ (pay + p.content.length) p.content.length true true
        let v := if impl.startsWith "ok" then verdictOf (impl == want) else "fails:variant-rejected"
        answer m v s!"variant-{variant}"
      | _ => answer "err" (if impl == "err" then "dontcare" else "fails:accepted-what-model-rejects") "rejected"
  | "offbig", [d] =>
    match d.toNat? with
    | some dl =>
      let md : Metadata := ⟨⟨3, 0, 0, 0, [], 1, 5, []⟩, ⟨0, dl, [], []⟩, ⟨0, 0, [], []⟩⟩
      let o := offsets md
      let m := obs o (o.payload + 3) 3 true true
      let h := 96 + 16 + dl + (8 - dl % 8) % 8
      let want := obs ⟨0, 96, h, h + 16⟩ (h + 16 + 3) 3 true true
      answer m (verdictOf (impl == want)) "big-store"
    | none => badReq "dl"
  | "offbig16", [which, ns, d] =>
    -- N NULL entries and a DL-byte store in the signature (`s`) or MAIN (`h`) header, the other header empty: the model's
    -- `offsets` needs the two intro fields only (C16.header_size_fits: that IS what the code's u64 arithmetic computes)
    match ns.toNat?, d.toNat? with
    | some n, some dl =>
      let big : Header := ⟨n, dl, [], []⟩
      let md : Metadata := if which == "s" then ⟨⟨3, 0, 0, 0, [], 1, 5, []⟩, big, ⟨0, 0, [], []⟩⟩ else ⟨⟨3, 0, 0, 0, [], 1, 5, []⟩, ⟨0, 0, [], []⟩, big⟩
      let o := offsets md
      let m := obs o (o.payload + 3) 3 true true
      let sz := 16 + 16 * n + dl
      let h := if which == "s" then 96 + sz + (8 - dl % 8) % 8 else 96 + 16
      let pay := if which == "s" then h + 16 else h + sz
      let want := obs ⟨0, 96, h, pay⟩ (pay + 3) 3 true true
      answer m (verdictOf (impl == want)) (s!"big16-{which}-" ++ (if 16 * n + dl ≥ 4294967296 then "beyond-u32" else "inside-u32"))
    | _, _ => badReq "numbers"
  | _, _ => badReq "args"

end RpmVerif.Driver.C16
