import RpmVerif.Driver.Common
import RpmVerif.Model.Header
import RpmVerif.Spec.Canon
import RpmVerif.Model.Io
import RpmVerif.Model.BufWriter
/-! Driver for C01. Ops `pkgrt BYTES`, `metart BYTES`, `pkgrtv clear|newempty BYTES` (signature header cleared /
replaced by `new_empty()` in memory before writing) — observation
`ok w=<fnv of written bytes> len=<n> re=<reparse equals the value written> rw=<rewrite identical>` | `err`.

`openrt01 BYTES` (entry points and source / sink kinds, AUDIT2 follow-up 1): the same bytes through `Package::parse` on a slice
(`s=`), on an `io::Cursor` (`c=`), `Package::open` on a file (`o=` with a `&Path`, `os=` with a `&str`), each summarised as
`<len of written bytes>:<fnv>:<content len>:<fnv content>` | `err`, `eq=` (the four values equal); then `write_file` of the
slice-parsed value (`wf=<len>:<fnv>` of the file), `Package::open` of that file (`wo=`), `weq=`.
Model: `s` = `parsePackage`, `c` = `Io.parseChunked bs []` (a source that hands out whatever is asked), `o` / `os` =
`Io.parseChunked` under a script of 8192-byte chunks (std's default `BufReader` capacity over a `File`), `wf` =
`Io.writeFile 8192 (prog p)` into an all-accepting sink (`BufWriter::new(File::create(..))`), `wo` = `parseChunked` of that.
Spec, from the raw bytes alone: every source kind must deliver canon(input) with the content = everything after the
metadata, and the file written must hold exactly those bytes and open to the same value. All four rejected: silent. -/
namespace RpmVerif.Driver.C01
open RpmVerif.Hdr RpmVerif.Driver

def ops : List String := ["pkgrt", "metart", "pkgrtv", "openrt01"]

def obsOf (w : Bytes) (re rw : Bool) : String :=
  s!"ok w={hex16 (fnv w)} len={w.length} re={boolStr re} rw={boolStr rw}"

def errBranch {α} : Out α → String
  | .err c => "rejected-" ++ c | .panic s => "panic-" ++ s | .ok _ => "ok"

def summ (w content : Bytes) : String := s!"{w.length}:{hex16 (fnv w)}:{content.length}:{hex16 (fnv content)}"

def summOut : Out Package → String
  | .ok p => summ (writePackage p) p.content
  | .err _ => "err"
  | .panic _ => "panic"

def sameOut : Out Package → Out Package → Bool
  | .ok a, .ok b => a == b
  | .err _, .err _ => true
  | _, _ => false

/-- std's default `BufReader` capacity / `BufWriter` capacity -/
def stdBufCap : Nat := 8192

def openrtHandle (bs : Bytes) (impl : String) : String :=
  let s := parsePackage bs
  let c := Io.parseChunked bs []
  let script := List.replicate (bs.length / stdBufCap + 8) (Io.Chunk.size stdBufCap)
  let o := Io.parseChunked bs script
  let eq := sameOut c s && sameOut o s
  let head := s!"s={summOut s} c={summOut c} o={summOut o} os={summOut o} eq={boolStr eq}"
  let m := match s with
    | .ok p =>
      let ds := (Io.prog p).map Io.Act.buf
      let total := (writePackage p).length
      let f := Io.writeFile stdBufCap ds (List.replicate (ds.length + 4) (Io.Resp.ok (total + 1)))
      let wf := match f.2 with | .ok => s!"{f.1.length}:{hex16 (fnv f.1)}" | _ => "err"
      let re := Io.parseChunked f.1 (List.replicate (f.1.length / stdBufCap + 8) (Io.Chunk.size stdBufCap))
      s!"{head} wf={wf} wo={summOut re} weq={boolStr (sameOut re s)}"
    | _ => head
  -- the spec, from the raw bytes alone
  let r := bs.drop 96
  let l1 := Canon.hdrLen r
  let pad := Canon.sigPadOf r
  let mdLen := 96 + l1 + pad + Canon.hdrLen (r.drop (l1 + pad))
  let cw := Canon.canon bs
  let want := summ cw (bs.drop mdLen)
  let wantAll := s!"s={want} c={want} o={want} os={want} eq=true wf={cw.length}:{hex16 (fnv cw)} wo={want} weq=true"
  let v :=
    if impl == "s=err c=err o=err os=err eq=true" then "dontcare"
    else if impl == wantAll then "holds"
    else match impl.splitOn " " with
      | sI :: cI :: oI :: osI :: _ =>
        if (cI.drop 2).toString != (sI.drop 2).toString || (oI.drop 2).toString != (sI.drop 2).toString
            || (osI.drop 3).toString != (sI.drop 2).toString then "fails:entry-points-differ"
        else if sI != s!"s={want}" then "fails:not-canonical"
        else "fails:write-file-open"
      | _ => "fails"
  let big := if bs.length > stdBufCap then "big" else "small"
  let br := match s with
    | .ok p => s!"openrt-{big}-accepted-sig{min p.md.signature.entries.length 3}-hdr{min p.md.header.entries.length 3}-pay{min p.content.length 1}"
    | o => s!"openrt-{big}-{errBranch o}"
  answer m v br

def handle (op : String) (args : List String) (impl : String) : String :=
  match args with
  | [hb] =>
    match bytesOfHex hb with
    | none => badReq "hex"
    | some bs =>
      if op == "openrt01" then openrtHandle bs impl
      else if op == "pkgrt" then
        match parsePackage bs with
        | .ok p =>
          let w := writePackage p
          let (re, rw) := match parsePackage w with
            | .ok p2 => (p2 == p, writePackage p2 == w)
            | _ => (false, false)
          let m := obsOf w re rw
          -- spec: what the implementation wrote must be canon(input), and be a fixpoint
          let want := obsOf (Canon.canon bs) true true
          let v := if impl.startsWith "ok" then verdictOf (impl == want) else "dontcare"
          answer m v s!"accepted-sig{p.md.signature.entries.length}-hdr{min p.md.header.entries.length 3}-pay{min p.content.length 1}"
        | o => answer (if o.isPanic then "panic" else "err")
                 (if impl.startsWith "ok" then verdictOf (impl == obsOf (Canon.canon bs) true true) else "dontcare") (errBranch o)
      else
        match parseMetadata bs with
        | .ok (m0, _) =>
          let w := writeMetadata m0
          let (re, rw) := match parseMetadata w with
            | .ok (m2, _) => (m2 == m0, writeMetadata m2 == w)
            | _ => (false, false)
          let m := obsOf w re rw
          -- metadata only: canonical bytes truncated to the metadata length
          let want := obsOf ((Canon.canon bs).take w.length) true true
          let v := if impl.startsWith "ok" then verdictOf (impl == want) else "dontcare"
          answer m v s!"meta-accepted-sig{m0.signature.entries.length}-hdr{min m0.header.entries.length 3}"
        | o => answer (if o.isPanic then "panic" else "err") (if impl.startsWith "ok" then "fails:accepted-what-model-rejects" else "dontcare") ("meta-" ++ errBranch o)
  | [variant, hb] =>
    -- `pkgrtv`: parse, `signature.clear()` / `signature = new_empty()`, write. Model: `Header.clear` / `Header.empty`
    -- (C01.cleared_fixpoint). Spec, from the input bytes alone: lead ++ 16-byte empty intro ++ canonical bytes from the
    -- main header on (boundary recomputed with `Canon.hdrLen`), and a fixpoint.
    match (if op == "pkgrtv" then bytesOfHex hb else none) with
    | none => badReq "hex"
    | some bs =>
      match parsePackage bs with
      | .ok p0 =>
        let sig : Header := if variant == "clear" then p0.md.signature.clear else Header.empty
        let p : Package := ⟨{ p0.md with signature := sig }, p0.content⟩
        let w := writePackage p
        let (re, rw) := match parsePackage w with
          | .ok p2 => (p2 == p, writePackage p2 == w)
          | _ => (false, false)
        let r := bs.drop 96
        let hdrStart := 96 + Canon.hdrLen r + Canon.sigPadOf r
        let want := obsOf (bs.take 96 ++ writeIntro 0 0 ++ (Canon.canon bs).drop hdrStart) true true
        let v := if impl.startsWith "ok" then verdictOf (impl == want) else "fails:variant-rejected"
        answer (obsOf w re rw) v s!"variant-{variant}-sig{min p0.md.signature.entries.length 3}-hdr{min p0.md.header.entries.length 3}"
      | o => answer (if o.isPanic then "panic" else "err") (if impl.startsWith "ok" then "fails:accepted-what-model-rejects" else "dontcare") (errBranch o)
  | _ => badReq "args"

end RpmVerif.Driver.C01
