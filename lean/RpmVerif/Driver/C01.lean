import RpmVerif.Driver.Common
import RpmVerif.Model.Header
import RpmVerif.Spec.Canon
/-! Driver for C01. Ops `pkgrt BYTES`, `metart BYTES`, `pkgrtv clear|newempty BYTES` (signature header cleared /
replaced by `new_empty()` in memory before writing) — observation
`ok w=<fnv of written bytes> len=<n> re=<reparse equals the value written> rw=<rewrite identical>` | `err`. -/
namespace RpmVerif.Driver.C01
open RpmVerif.Hdr RpmVerif.Driver

def ops : List String := ["pkgrt", "metart", "pkgrtv"]

def obsOf (w : Bytes) (re rw : Bool) : String :=
  s!"ok w={hex16 (fnv w)} len={w.length} re={boolStr re} rw={boolStr rw}"

def errBranch {α} : Out α → String
  | .err c => "rejected-" ++ c | .panic s => "panic-" ++ s | .ok _ => "ok"

def handle (op : String) (args : List String) (impl : String) : String :=
  match args with
  | [hb] =>
    match bytesOfHex hb with
    | none => badReq "hex"
    | some bs =>
      if op == "pkgrt" then
        match parsePackage bs with
        | .ok p =>
          let w := writePackage p
          let (re, rw) := match parsePackage w with
            | .ok p2 => (p2 == p, writePackage p2 == w)
            | _ => (false, false)
          let m := obsOf w re rw
          -- spec: what the implementation wrote must be canon(input), and be a fixpoint
          let want := obsOf (Canon.canon bs) true true
          let v := if impl.startsWith "ok" then verdictOf (impl == want) else "dontcare"
          answer m v s!"accepted-sig{p.md.signature.entries.length}-hdr{min p.md.header.entries.length 3}-pay{min p.content.length 1}"
        | o => answer (if o.isPanic then "panic" else "err")
                 (if impl.startsWith "ok" then verdictOf (impl == obsOf (Canon.canon bs) true true) else "dontcare") (errBranch o)
      else
        match parseMetadata bs with
        | .ok (m0, _) =>
          let w := writeMetadata m0
          let (re, rw) := match parseMetadata w with
            | .ok (m2, _) => (m2 == m0, writeMetadata m2 == w)
            | _ => (false, false)
          let m := obsOf w re rw
          -- metadata only: canonical bytes truncated to the metadata length
          let want := obsOf ((Canon.canon bs).take w.length) true true
          let v := if impl.startsWith "ok" then verdictOf (impl == want) else "dontcare"
          answer m v s!"meta-accepted-sig{m0.signature.entries.length}-hdr{min m0.header.entries.length 3}"
        | o => answer (if o.isPanic then "panic" else "err") (if impl.startsWith "ok" then "fails:accepted-what-model-rejects" else "dontcare") ("meta-" ++ errBranch o)
  | [variant, hb] =>
    -- `pkgrtv`: parse, `signature.clear()` / `signature = new_empty()`, write. Model: `Header.clear` / `Header.empty`
    -- (C01.cleared_fixpoint). Spec, from the input bytes alone: lead ++ 16-byte empty intro ++ canonical bytes from the
    -- main header on (boundary recomputed with `Canon.hdrLen`), and a fixpoint.
    match (if op == "pkgrtv" then bytesOfHex hb else none) with
    | none => badReq "hex"
    | some bs =>
      match parsePackage bs with
      | .ok p0 =>
        let sig : Header := if variant == "clear" then p0.md.signature.clear else Header.empty
        let p : Package := ⟨{ p0.md with signature := sig }, p0.content⟩
        let w := writePackage p
        let (re, rw) := match parsePackage w with
          | .ok p2 => (p2 == p, writePackage p2 == w)
          | _ => (false, false)
        let r := bs.drop 96
        let hdrStart := 96 + Canon.hdrLen r + Canon.sigPadOf r
        let want := obsOf (bs.take 96 ++ writeIntro 0 0 ++ (Canon.canon bs).drop hdrStart) true true
        let v := if impl.startsWith "ok" then verdictOf (impl == want) else "fails:variant-rejected"
        answer (obsOf w re rw) v s!"variant-{variant}-sig{min p0.md.signature.entries.length 3}-hdr{min p0.md.header.entries.length 3}"
      | o => answer (if o.isPanic then "panic" else "err") (if impl.startsWith "ok" then "fails:accepted-what-model-rejects" else "dontcare") (errBranch o)
  | _ => badReq "args"

end RpmVerif.Driver.C01
