import RpmVerif.Driver.Bld
import RpmVerif.Driver.WithFile
/-! Driver for C06 (and the shared `build` op). Observation:
`ok paysha=… archsha=… lead=<fnv> sig=<fnv> hdr=<fnv> hlen=<n> same=<bool> || <accessor dump> verify=…`.
Model: byte-exact prediction of lead, signature header and main header (the two payload digests are
taken from the harness, which computes them with the codec / hash crates directly).
Spec (C06): every value supplied to the builder is returned by the matching accessor. -/
namespace RpmVerif.Driver.C06
open RpmVerif.Hdr RpmVerif.Bld RpmVerif.Driver RpmVerif.Driver.Bld

def ops : List String := ["build", "dep", "depctors", "wfile6"]

/-! ### `dep CTOR KIND NAME VERSION`: one of the public `Dependency` constructors (identified by its Rust name), the
dependency added to a small package through the builder method KIND, built, written, re-parsed and read back.
Observation `ctor=<name>,<flags>,<version> back=<name>,<flags>,<version>` (hex / decimal; `back` = first item of the
matching accessor). Model: `Bld.depCtor` over the table scraped from the source (`Gen.depCtors`); the read-back half is
`C06.dep_ctor_flags_readback`. Spec (C06): what was constructed is what is read back.
`depctors`: the constructor names the harness can call vs. the names in the scraped table (a constructor added to the
source must be added to the harness). -/
def depTriple (d : Dep) : String := s!"{C05.hx d.name},{d.flags},{C05.hx d.version}"

def depKinds : List String := ["prov", "req", "conf", "obs", "rec", "sug", "enh", "sup"]

def depHandle (op : String) (args : List String) (impl : String) : String :=
  if op == "depctors" then
    answer (",".intercalate RpmVerif.Gen.depCtorNames) (verdictOf (impl == ",".intercalate RpmVerif.Gen.depCtorNames)) "ctor-names"
  else
  match args with
  | [ctor, kind, nh, vh] =>
    match RpmVerif.Gen.depCtorNames.idxOf? ctor, bytesOfHex nh, bytesOfHex vh with
    | some k, some name, some version =>
      if !depKinds.contains kind then badReq "kind" else
      match depCtor k name version with
      | some d =>
        let t := depTriple d
        let toks := (impl.splitOn " ").filter (· ≠ "")
        let v := match toks with
          | [c, b] => if c.startsWith "ctor=" && b.startsWith "back=" then
                verdictOf ((c.drop 5).toString == (b.drop 5).toString) else "fails:malformed-observation"
          | _ => "fails:malformed-observation"
        answer s!"ctor={t} back={t}" v s!"ctor-{ctor}-{kind}"
      | none => badReq "ctor-index"
    | none, _, _ => answer "unknown-ctor" "dontcare" "ctor-not-in-table"
    | _, _, _ => badReq "hex"
  | _ => badReq "args"

def tokenMap (dump : String) : List (String × String) :=
  ((dump.splitOn " ").filter (· ≠ "")).filterMap fun t =>
    match t.splitOn "=" with
    | k :: rest => some (k, "=".intercalate rest)
    | _ => none

def look (m : List (String × String)) (k : String) : String := ((m.find? (·.1 == k)).map (·.2)).getD "<missing>"

def listItems (v : String) : Option (List String) :=
  if v.startsWith "ok:[" && v.endsWith "]" then
    let inner := ((v.drop 4).toString.dropEnd 1).toString
    some (if inner.isEmpty then [] else inner.splitOn ";")
  else none

def isSubseq : List String → List String → Bool
  | [], _ => true
  | _ :: _, [] => false
  | a :: as, b :: bs => if a == b then isSubseq as bs else isSubseq (a :: as) bs

def scriptExpect (s : RpmVerif.Bld.Scriptlet) : List String :=
  let f := match s.flags with | some f => toString f | none => "~"
  let base := s!"ok:{C05.hx s.script},{f},"
  match s.prog with
  | none => [base ++ "~"]
  | some [] => [base ++ "~", base ++ "[]"]      -- an empty interpreter list may read back as none
  | some p => [base ++ "[" ++ "/".intercalate (p.map C05.hx) ++ "]"]

/-- expected read-back path: the destination with a leading "." (cpio style) dropped and separators normalised -/
def expectPath (dest : Bytes) : Bytes := [47] ++ RpmVerif.Path.joinSep (RpmVerif.Path.nameComps dest)

def plainDest (dest : Bytes) : Bool :=
  let comps := RpmVerif.Path.nameComps dest
  !comps.isEmpty && comps.all (· ≠ [46, 46]) && (RpmVerif.Bld.sortedDedup [] == []) && (addData dest).isSome

/-- first violated demand of C06, if any -/
def firstViolation (r : Req) (m : List (String × String)) : Option String :=
  let c := r.cfg
  let okb (b : Bytes) := "ok:" ++ C05.hx b
  let exact : List (String × String) :=
    [("name", okb c.name), ("epoch", s!"ok:{c.epoch}"), ("version", okb c.version), ("release", okb c.release),
     ("arch", okb c.arch), ("license", okb c.license), ("summary", okb c.summary),
     ("description", okb (c.desc.getD c.summary))] ++
    [("vendor", c.vendor), ("packager", c.packager), ("group", c.group), ("url", c.url), ("vcs", c.vcs),
     ("cookie", c.cookie), ("buildhost", c.buildHost)].filterMap (fun (k, v) => v.map fun b => (k, okb b))
  let scripts : List (String × Option RpmVerif.Bld.Scriptlet) :=
    [("prein", c.preIn), ("postin", c.postIn), ("preun", c.preUn), ("postun", c.postUn), ("pretrans", c.preTrans),
     ("posttrans", c.postTrans), ("preuntrans", c.preUntrans), ("postuntrans", c.postUntrans), ("verify", c.verify)]
  let deps : List (String × List Dep) :=
    [("provides", c.provides), ("requires", c.requires), ("conflicts", c.conflicts), ("obsoletes", c.obsoletes),
     ("recommends", c.recommends), ("suggests", c.suggests), ("enhances", c.enhances), ("supplements", c.supplements)]
  let v1 := exact.findSome? fun (k, want) => if look m k == want then none else some k
  let v2 := scripts.findSome? fun (k, s) => match s with
    | none => none
    | some s => if (scriptExpect s).contains (look m k) then none else some k
  let v3 := deps.findSome? fun (k, ds) =>
    match listItems (look m k) with
    | some items => if isSubseq (ds.map fun d => s!"{C05.hx d.name},{d.flags},{C05.hx d.version}") items then none else some k
    | none => some k
  let v4 :=
    let want := "ok:[" ++ ";".intercalate (c.changelog.map fun (n, t, tm) => s!"{C05.hx n},{tm},{C05.hx t}") ++ "]"
    if look m "changelog" == want then none else some "changelog"
  -- files: each requested file whose destination is plain must be read back under its own path
  let entries := (listItems (look m "files")).getD []
  let seen (dest : Bytes) (earlier : List FileReq) : Bool := earlier.any fun e => (addData e.dest).map (·.1) == (addData dest).map (·.1)
  let rec files (fs : List FileReq) (earlier : List FileReq) : Option String :=
    match fs with
    | [] => none
    | f :: rest =>
      if !plainDest f.dest || seen f.dest earlier then files rest (earlier ++ [f]) else
      -- "exact destination path": the text given, the same without the cpio-style leading ".", or
      -- its separator-normalised form are all accepted (they name the same file)
      let paths := [C05.hx f.dest, C05.hx (if f.dest.head? == some 46 then f.dest.drop 1 else f.dest), C05.hx (expectPath f.dest)]
      -- … and so does any absolute text with the same name components in the same order (`/a/./b/f/` is read back as `/a/./b/f`)
      let sameFile (p : String) : Bool := match bytesOfHex p with
        | some b => b.head? == some 47 && RpmVerif.Path.nameComps b == RpmVerif.Path.nameComps f.dest
        | none => false
      -- (an exact spelling is preferred: `/x/f` and `//x/f` are two files with the same components)
      let pathOf (e : String) : String := ((e.splitOn ",").head?).getD ""
      match (entries.find? (fun e => paths.contains (pathOf e))).orElse (fun _ => entries.find? (fun e => sameFile (pathOf e))) with
      | none => some "file-missing"
      | some e =>
        match e.splitOn "," with
        | [_, mode, user, group, mtime, size, flags, digest, caps, link, _] =>
          let fm := f.mtime.toNat
          let wantM := match c.sourceDate with | some d => if d < fm then d else fm | none => fm
          let wantDigest := "8:" ++ C05.hx (sha256hex (content f.seed f.size))
          let capsOk := match f.caps with
            | some cp => caps == C05.hx cp
            | none => caps == "~" || caps == "-"
          -- an explicit `i32` outside 16 bits cannot be read back as given: the property is silent on its word
          if f.mode.isSome && some mode != f.mode.map toString then some "file-mode"
          else if user != C05.hx f.user then some "file-user"
          else if group != C05.hx f.group then some "file-group"
          else if mtime != toString wantM then some "file-mtime"
          else if size != toString f.size then some "file-size"
          else if flags != toString f.flags then some "file-flags"
          else if digest != wantDigest then some "file-digest"
          else if !capsOk then some "file-caps"
          else if link != C05.hx f.link then some "file-link"
          else files rest (earlier ++ [f])
        | _ => some "file-entry-shape"
  (v1.orElse fun _ => v2).orElse fun _ => (v3.orElse fun _ => v4).orElse fun _ => files r.files []

def handle (op : String) (args : List String) (impl : String) : String :=
  if op == "dep" || op == "depctors" then depHandle op args impl else
  if op == "wfile6" then RpmVerif.Driver.WithFile.handle true args impl else
  match parseReq args with
  | none => badReq "cfg"
  | some r =>
    if !impl.startsWith "ok " then
      -- the configurations generated for C06 are valid, the model builds every one of them: a rejected build is a
      -- disagreement (model `ok` vs `err`), not something the spec can judge (nothing was built to read back)
      -- … unless the MODEL's `with_file` sequence fails as well (a directory / missing path as source, an mtime outside
      -- 1970..2106): then `err` is the prediction
      answer (if r.buildErr.isSome then "err" else "ok") (if impl == "err" then "dontcare" else "fails:" ++ impl)
        (if r.buildErr.isSome then "with-file-err:" ++ r.buildErr.getD "" else "build-rejected")
    else
      let head := (impl.splitOn " || ").headD ""
      let dump := " || ".intercalate ((impl.splitOn " || ").drop 1)
      let hm := tokenMap head
      let (model, _) := modelBuildObs r (look hm "paysha") (look hm "archsha")
      let verdict := match firstViolation r (tokenMap dump) with
        | none => if look hm "same" == "true" then "holds" else "fails:reparse-differs"
        | some k => "fails:" ++ k
      let nf := r.cfg.files.length
      answer model verdict s!"files{min nf 3}-{match r.cfg.compression with | .none => "none" | .gzip _ => "gzip" | .zstd _ => "zstd" | .xz _ => "xz" | .bzip2 _ => "bzip2"}"

end RpmVerif.Driver.C06
