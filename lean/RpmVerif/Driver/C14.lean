import RpmVerif.Driver.Common
import RpmVerif.Model.Io
import RpmVerif.Model.BufWriter
/-! Driver for C14 (see harness/src/c14.rs for the request grammar).

* `wr PKG SINK`, `wrm PKG SINK`: the harness' scripted sink is keyed on the bytes accepted so far; it is
  translated deterministically into the response script it produces against the model's call
  sequence (`respRunK`), and the model's answer is `run (prog p) script`. The spec verdict uses the
  canonical bytes alone: `ok` ⇒ emitted = canonical, `err` ⇒ emitted is a prefix of canonical.
* `rd PKG SRC`: `parseChunked` under the harness' chunk script vs `parsePackage`; spec: chunked = unchunked.
* `tr PKG K`: spec: K before the payload offset ⇒ error.
* `wf PKG CAP SINK`, `wfile PKG LIMIT`: `write_file`. The harness' sink (for `wfile`: the kernel stopping the
  file at LIMIT bytes = sink `a:f<LIMIT>`, capacity 8192) is a state machine; `recordScript` replays the
  BufWriter call pattern against it only to RECORD the responses it gives; the model's answer is the proved
  `writeFile cap (bufs) script` on that recorded script (and must agree with the replay: self-check).
* `wfile PKG LIMIT MODE`: the argument as `&str` / `&Path` / `String` (`str`, `refpath`, `string`) and a destination that
  already holds K bytes (`pre<K>`) are predicted EXACTLY like the plain case ("same as a fresh `&PathBuf` destination":
  `File::create` truncates, `AsRef<Path>` is the same path); the spec — from the canonical bytes alone — then also says that no
  byte of the old file survives (`ok` ⇒ the file IS the canonical bytes, `err` ⇒ it is a prefix of them). `nodir` / `isdir`:
  `File::create(path)?` fails before anything is written: predicted `err 0 <fnv of nothing>`; the spec demands an error
  (class `uncreatable-accepted` otherwise; `directory-created` / `destination-directory-changed` are failures too). -/
namespace RpmVerif.Driver.C14
open RpmVerif.Hdr RpmVerif.Io RpmVerif.Driver

def ops : List String := ["wr", "wrm", "rd", "tr", "wf", "wfile"]

inductive CK where
  | all | one | fixed (k : Nat) | rand (seed : Nat)

structure Spec where
  chunk : CK
  intr : Nat := 0
  limit : Option (Nat × Nat) := none   -- (N, mode): 0 hard error, 1 Ok(0), 2 hard error once
  bufcap : Option Nat := none

def natOfChars (cs : List Char) : Option Nat := if cs.isEmpty then none else (String.ofList cs).toNat?

def parseChunkKind (t : String) : Option CK :=
  match t.toList with
  | ['a'] => some .all
  | ['1'] => some .one
  | 'k' :: r => (natOfChars r).bind fun n => if n = 0 then none else some (.fixed n)
  | 'r' :: r => (natOfChars r).map .rand
  | _ => none

def parseSpec (s : String) : Option Spec :=
  match s.splitOn ":" with
  | [] => none
  | c :: rest => do
    let ck ← parseChunkKind c
    rest.foldlM (init := ({ chunk := ck } : Spec)) fun sp t =>
      match t.toList with
      | 'i' :: r => (natOfChars r).bind fun n => if n < 2 then none else some { sp with intr := n }
      | 'f' :: r => (natOfChars r).map fun n => { sp with limit := some (n, 0) }
      | 'z' :: r => (natOfChars r).map fun n => { sp with limit := some (n, 1) }
      | 'e' :: r => (natOfChars r).map fun n => { sp with limit := some (n, 2) }
      | ['d'] => some { sp with bufcap := none }
      | 'b' :: r => (natOfChars r).bind fun n => if n = 0 then none else some { sp with bufcap := some n }
      | _ => none

/-! splitmix64, as `Rng` in harness/src/common.rs -/
def rngNew (seed : UInt64) : UInt64 := (seed * 0x9E3779B97F4A7C15) ^^^ 0xD1B54A32D192ED03
def rngNext (s : UInt64) : UInt64 × UInt64 :=
  let s := s + 0x9E3779B97F4A7C15
  let z := (s ^^^ (s >>> 30)) * 0xBF58476D1CE4E5B9
  let z := (z ^^^ (z >>> 27)) * 0x94D049BB133111EB
  (z ^^^ (z >>> 31), s)

/-- the first `count` calls of the harness' script: every `intr`-th call is Interrupted, the others draw a size -/
def mkPattern (sp : Spec) (count allSize : Nat) (clamp : Option Nat) : List Chunk := Id.run do
  let seed := match sp.chunk with | .rand s => s | _ => 0
  let mut st := rngNew seed.toUInt64
  let mut arr : Array Chunk := Array.mkEmpty count
  for c in [1:count + 1] do
    if sp.intr > 0 && c % sp.intr == 0 then
      arr := arr.push .intr
    else
      let size ← match sp.chunk with
        | .all => pure allSize
        | .one => pure 1
        | .fixed k => pure k
        | .rand _ =>
          let (v, s') := rngNext st
          st := s'
          pure (1 + (v % 17).toNat)
      arr := arr.push (.size (match clamp with | some c => min size c | none => size))
  return arr.toList

def ckName : CK → String | .all => "all" | .one => "one" | .fixed _ => "fixed" | .rand _ => "rand"

def stName : St → String | .ok => "ok" | .err => "err" | .starved => "starved"

def writeHandle (op : String) (bs : Bytes) (sp : Spec) (impl : String) : String :=
  let parsed : Out (List Act × Bytes) :=
    if op == "wr" then (parsePackage bs).map fun p => (prog p, writePackage p)
    else (parseMetadata bs).map fun m => (progMetadata m.1, writeMetadata m.1)
  match parsed with
  | .ok (acts, canon) =>
    let total := canon.length
    let (limit, atLimit, lname) := match sp.limit with
      | some (n, 1) => (n, Resp.ok 0, if n < total then "zero" else "zero-beyond")
      -- a transient error (mode 2) is the same script up to its first `fail`, and `run` ends there
      | some (n, 2) => (n, Resp.fail, if n < total then "failonce" else "failonce-beyond")
      | some (n, _) => (n, Resp.fail, if n < total then "fail" else "fail-beyond")
      | none => (total + 1, Resp.fail, "nolimit")
    let pat := match sp.chunk, sp.intr with
      | .all, 0 => []
      | .all, _ => mkPattern sp (2 * acts.length + 8) (total + 1) none
      | _, _ => mkPattern sp (2 * total + 8) (total + 1) none
    let script := respRunK atLimit limit (acts.map Act.buf) pat 0
    let r := run acts script
    let m := s!"{stName r.2.1} {r.1.length} {hex16 (fnv r.1)}"
    -- the property, judged on what the implementation did, from the canonical bytes alone
    let v := match impl.splitOn " " with
      | ["ok", l, h] => verdictOf (l == toString total && h == hex16 (fnv canon))
      | ["err", l, h] => match l.toNat? with
        | some n => if n ≤ total && h == hex16 (fnv (canon.take n)) then "holds" else "fails:not-a-prefix"
        | none => "fails"
      | _ => "fails:neither-ok-nor-err"
    answer m v s!"{op}-{ckName sp.chunk}{if sp.intr > 0 then "-intr" else ""}-{lname}-{stName r.2.1}"
  | _ => answer "noparse" "dontcare" "noparse"

def pkgObs : Out Package → String
  | .ok p => let w := writePackage p; s!"ok:{w.length}:{hex16 (fnv w)}"
  | .err _ => "err"
  | .panic _ => "panic"

def readHandle (bs : Bytes) (sp : Spec) (impl : String) : String :=
  let n := bs.length
  let pat := match sp.chunk, sp.intr, sp.bufcap with
    | .all, 0, none => []
    | .all, _, none => mkPattern sp 64 (n + 1) none
    | _, _, cap => mkPattern sp (2 * n + 16) (n + 1) cap
  let c := parseChunked bs pat
  let u := parsePackage bs
  let m := s!"c={pkgObs c} u={pkgObs u}"
  let v := match impl.splitOn " " with
    | [ci, ui] => if ci.startsWith "c=" && ui.startsWith "u=" then verdictOf ((ci.drop 2).toString == (ui.drop 2).toString) else "dontcare"
    | _ => "dontcare"
  answer m v s!"rd-{ckName sp.chunk}{if sp.intr > 0 then "-intr" else ""}-{if sp.bufcap.isSome then "bufreader" else "direct"}-{if u.isOk then "ok" else "err"}"

def truncHandle (bs : Bytes) (k : Nat) (impl : String) : String :=
  let po : Option Nat := match parsePackage bs with
    | .ok p => some (writeMetadata p.md).length
    | _ => none
  let r := parsePackage (bs.take k)
  let rs := match r with | .ok _ => "ok" | .err _ => "err" | .panic _ => "panic"
  let m := s!"{rs} po={match po with | some n => toString n | none => "-"}"
  let (v, br) := match impl.splitOn " " with
    | [res, pot] =>
      match (pot.drop 3).toString.toNat? with
      | some p => if k < p then ((if res == "err" then "holds" else "fails:truncated-accepted"), "tr-before-payload")
                  else ("dontcare", "tr-at-or-after-payload")
      | none => ("dontcare", "tr-unparseable")
    | _ => ("fails:neither-ok-nor-err", "tr-other")
  answer m v br

/-! ### write_file: the harness' sink as a state machine, and the script it produces -/

structure SinkSt where
  calls : Nat := 0
  rng : UInt64
  fired : Bool := false
  acc : Nat := 0

/-- one `Sink::write(buf)` of harness/src/c14.rs for a non-empty buffer of `offered` bytes -/
def sinkWrite (sp : Spec) (s : SinkSt) (offered : Nat) : Resp × SinkSt := Id.run do
  let mut s := s
  if let some (n, mode) := sp.limit then
    if s.acc ≥ n && !s.fired then
      if mode == 2 then s := { s with fired := true }
      return (if mode == 1 then .ok 0 else .fail, s)
  s := { s with calls := s.calls + 1 }
  if sp.intr > 0 && s.calls % sp.intr == 0 then return (.intr, s)
  let mut size := offered
  match sp.chunk with
  | .all => size := offered
  | .one => size := 1
  | .fixed k => size := k
  | .rand _ =>
    let (v, r') := rngNext s.rng
    s := { s with rng := r' }
    size := 1 + (v % 17).toNat
  let mut n := min size offered
  if let some (lim, _) := sp.limit then
    if !s.fired then n := min n (lim - s.acc)
  return (.ok n, { s with acc := s.acc + n })

/-- `write_all(data)` / `flush_buf` loop against the state machine: (accepted, ok?, state, responses) -/
partial def writeAllF (sp : Spec) (data : Bytes) (s : SinkSt) (log : Array Resp) : Bytes × Bool × SinkSt × Array Resp :=
  if data.isEmpty then ([], true, s, log) else
  let (r, s') := sinkWrite sp s data.length
  let log := log.push r
  match r with
  | .intr => writeAllF sp data s' log
  | .fail => ([], false, s', log)
  | .ok n =>
    if n = 0 then ([], false, s', log)
    else
      let (e, ok, s'', log') := writeAllF sp (data.drop n) s' log
      (data.take n ++ e, ok, s'', log')

/-- replay of `write_file`'s BufWriter call pattern, only to record the sink's responses -/
def recordScript (sp : Spec) (cap : Nat) (ds : List Bytes) : List Resp := Id.run do
  let seed := match sp.chunk with | .rand s => s | _ => 0
  let mut s : SinkSt := { rng := rngNew seed.toUInt64 }
  let mut log : Array Resp := #[]
  let mut buf : Bytes := []
  let mut ok := true
  for d in ds do
    if !ok then break
    if d.length < cap - buf.length then
      buf := buf ++ d
    else
      if d.length > cap - buf.length then
        let (e, k, s', l') := writeAllF sp buf s log
        s := s'; log := l'; buf := buf.drop e.length
        if !k then ok := false
      if ok then
        if cap ≤ d.length then
          let (_, k, s', l') := writeAllF sp d s log
          s := s'; log := l'
          if !k then ok := false
        else buf := buf ++ d
  if ok then
    -- flush()?
    let (e, _, s', l') := writeAllF sp buf s log
    s := s'; log := l'; buf := buf.drop e.length
  -- drop: one more flush_buf
  let (_, _, _, l') := writeAllF sp buf s log
  return l'.toList

def writeFileHandle (op : String) (bs : Bytes) (cap : Nat) (sp : Spec) (impl : String) : String :=
  match parsePackage bs with
  | .ok p =>
    let ds := (prog p).map Act.buf
    let canon := writePackage p
    let total := canon.length
    let script := recordScript sp cap ds
    let r := writeFile cap ds script
    let old := writeFileOld cap ds script
    -- After a TRANSIENT error (mode `e`) the sink accepts again, and what the drop of the BufWriter still delivers
    -- is whatever happened to be buffered: that depends on how the serialiser groups its writes, which the
    -- property leaves free. The model then predicts nothing (`*`); the spec below judges alone. For permanent
    -- failures the sink ends with exactly the first N canonical bytes whatever the grouping.
    let transient : Bool := match sp.limit with | some (n, 2) => decide (n < total) | _ => false
    let m := if transient then "*" else s!"{stName r.2} {r.1.length} {hex16 (fnv r.1)}"
    let v := match impl.splitOn " " with
      | ["ok", l, h] => if l == toString total && h == hex16 (fnv canon) then "holds" else "fails:ok-but-incomplete"
      | ["err", l, h] => match l.toNat? with
        | some n => if n ≤ total && h == hex16 (fnv (canon.take n)) then "holds" else "fails:not-a-prefix"
        | none => "fails"
      | _ => "fails:neither-ok-nor-err"
    let lname := match sp.limit with
      | some (n, _) => if n < total then "limited" else "limit-beyond"
      | none => "nolimit"
    let fit := if total < cap then "fits-buffer" else "exceeds-buffer"
    answer m v s!"{op}-{fit}-{lname}-{stName r.2}{if old.2 != r.2 then "-flush-decides" else ""}"
  | _ => answer "noparse" "dontcare" "noparse"

def handle (op : String) (args : List String) (impl : String) : String :=
  match args with
  | [pkg, c, a] =>
    if op == "wfile" then
      -- third argument: argument type / state of the destination
      let mode := a
      match bytesOfHex pkg, (if c == "-" then some ({ chunk := .all } : Spec) else c.toNat?.map fun n => ({ chunk := .all, limit := some (n, 0) } : Spec)) with
      | some bs, some sp =>
        if mode == "nodir" || mode == "isdir" then
          match parsePackage bs with
          | .ok _ =>
            let v := if impl.startsWith "err 0 " then "holds"
              else if impl.startsWith "err" then "fails:uncreatable-wrote-bytes"
              else if impl.startsWith "ok" then "fails:uncreatable-accepted" else "fails:" ++ ((impl.splitOn " ").getD 0 "other")
            answer s!"err 0 {hex16 (fnv [])}" v s!"wfile-{mode}"
          | _ => answer "noparse" "dontcare" "noparse"
        else if mode == "str" || mode == "refpath" || mode == "string" || (mode.startsWith "pre" && ((mode.drop 3).toString.toNat?).isSome) then
          -- same as the plain destination; the branch label records the variant
          let r := writeFileHandle op bs 8192 sp impl
          let tag := if mode.startsWith "pre" then
              (match (mode.drop 3).toString.toNat?, parsePackage bs with
               | some k, .ok p => if k > (writePackage p).length then "pre-longer" else if k == (writePackage p).length then "pre-equal" else "pre-shorter"
               | _, _ => "pre")
            else "arg-" ++ mode
          match r.splitOn " | " with
          | [m, v, b] => answer m v (b ++ "-" ++ tag)
          | _ => r
        else badReq "wfile-mode"
      | _, _ => badReq "wfile-args"
    else
    if op != "wf" then badReq "args" else
    match bytesOfHex pkg, c.toNat?, parseSpec a with
    | some bs, some cap, some sp => writeFileHandle op bs cap sp impl
    | _, _, _ => badReq "wf-args"
  | [pkg, a] =>
    if op == "wfile" then
      match bytesOfHex pkg, (if a == "-" then some ({ chunk := .all } : Spec) else a.toNat?.map fun n => ({ chunk := .all, limit := some (n, 0) } : Spec)) with
      | some bs, some sp => writeFileHandle op bs 8192 sp impl
      | _, _ => badReq "wfile-args"
    else
    match bytesOfHex pkg with
    | none => badReq "hex"
    | some bs =>
      if op == "tr" then
        match a.toNat? with
        | some k => truncHandle bs k impl
        | none => badReq "offset"
      else match parseSpec a with
        | none => badReq "spec"
        | some sp => if op == "rd" then readHandle bs sp impl else writeHandle op bs sp impl
  | _ => badReq "args"

end RpmVerif.Driver.C14
