import RpmVerif.Model.Basic
/-!
# Spec for C01: the canonical form of package bytes

Written over raw bytes, independently of the parser model: zero bytes 4..8 of each of the two header
intros and the alignment padding after the signature header; everything else verbatim.
-/
namespace RpmVerif.Canon

/-- big-endian u32 at byte position `i` (0 when out of range; only used on accepted inputs) -/
def u32At (bs : Bytes) (i : Nat) : Nat :=
  match bs.drop i with
  | a :: b :: c :: d :: _ => a.toNat * 16777216 + b.toNat * 65536 + c.toNat * 256 + d.toNat
  | _ => 0

/-- zero the four reserved bytes (positions 4..8) of a header that starts at the head of `bs` -/
def zeroReserved (bs : Bytes) : Bytes := bs.take 4 ++ [0, 0, 0, 0] ++ bs.drop 8

/-- on-disk length of the header starting at the head of `bs`: intro + 16·entries + store -/
def hdrLen (bs : Bytes) : Nat := 16 + 16 * u32At bs 8 + u32At bs 12

def sigPadOf (bs : Bytes) : Nat := (8 - u32At bs 12 % 8) % 8

/-- canonical bytes of package metadata starting at the lead, with whatever follows kept verbatim -/
def canon (bs : Bytes) : Bytes :=
  let lead := bs.take 96
  let r := bs.drop 96
  let l1 := hdrLen r
  let pad := sigPadOf r
  lead ++ zeroReserved (r.take l1) ++ List.replicate pad 0 ++ zeroReserved (r.drop (l1 + pad))

end RpmVerif.Canon
