import RpmVerif.Model.FileMode
/-!
# Spec for C18: what the property text demands of an *observation* (`Obs`)

Stated with the literal numbers of inode(7) (`S_IFMT = 0o170000`, `S_IFDIR = 0o040000`,
`S_IFREG = 0o100000`, `S_IFLNK = 0o120000`, permission bits `0o7777`) — none of the model's functions
and none of the generated constants occur here; only the record type `Obs` / `Kind` is shared.
The driver evaluates these predicates on the implementation's observation; `Props/C18.lean` proves
them of the model's observation for every input.

Where the text is silent nothing is demanded: the `file_type()` / `permissions()` split of a word
only has to recombine to the word; for an out-of-range integer only "reported invalid" is demanded
(not what `raw_mode()` of such a value returns).
-/
namespace RpmVerif.FileMode.Spec
open RpmVerif.FileMode

/-- the type bits of a mode word -/
def typeBits (w : Nat) : Nat := w &&& 0o170000

/-- `Hash` agrees with `==` (the contract of `std::hash::Hash`): when the value and its re-conversion compare equal they
hash alike -/
def eqHashOk (o : Obs) : Bool := !o.rtEq || o.hashEq

/-- a 16-bit word `w` converted to a file mode and observed:
round trip (`raw_mode`, `u16::from`, `u32::from` give `w` back), type part ||| permission part = `w`,
and each of the three classifications holds exactly when the type bits say so.
The round trip read the other way: converting the word the value reports yields an EQUAL value again (`w ↦ m ↦ w ↦ m'`,
`m' == m` — a consequence of `w ↦ m ↦ w`, of `From` being a function and of `==` being reflexive: a `==` / variant-field
representation that breaks it contradicts one of the three), and the two hash alike. -/
def specWord (w : Nat) (o : Obs) : Bool :=
  o.raw == w && o.back16 == w && o.back32 == w
  && (o.ftype ||| o.perm) == w
  && ((o.kind == .dir) == (typeBits w == 0o040000))
  && ((o.kind == .regular) == (typeBits w == 0o100000))
  && ((o.kind == .symlink) == (typeBits w == 0o120000))
  && o.rtEq && o.hashEq

/-- the 16-bit range of the integer conversion: what fits `u16` or `i16` -/
def inRange16 (n : Int) : Bool := decide (-32768 ≤ n) && decide (n ≤ 65535)

/-- an integer `n` converted and observed: outside the 16-bit range it is reported invalid
(`Invalid` variant and `try_from_raw` is an error); inside, it behaves as the conversion of the
16-bit word with the same bit pattern (`n mod 2^16`) -/
def specInt (n : Int) (o : Obs) : Bool :=
  if inRange16 n then specWord (n % 65536).toNat o
  else o.kind == .invalid && o.err && eqHashOk o

/-- the inode(7) type bits of the three kinds a constructor can name -/
def typeWord : Kind → Nat
  | .dir => 0o040000 | .regular => 0o100000 | .symlink => 0o120000 | _ => 0

/-- a named constructor applied to `p`: the value is of the named kind, its permissions are `p` masked to 12 bits, and its
mode word (`raw_mode`, `u16::from`, `u32::from`) is exactly the kind's type bits with those permissions — no bit of `p`
above the twelve permission bits reaches the word (seed C18-8: masking moved from the constructors to `permissions()`
left `regular(0o20644).raw_mode() = 0o120644`, a symbolic link's word). "Mask permissions" is about the VALUE that is built,
not only about what the getters answer: the public `permissions` field of the variant holds the masked number too (AUDIT2
a19: a constructor that stores `p` unmasked while every getter masks passes all the clauses above, yet `regular(0o10644)`
and `regular(0o644)` would then be two different values with the same mode word). -/
def specCtor (k : Kind) (p : Nat) (o : Obs) : Bool :=
  o.kind == k && o.perm == (p &&& 0o7777) && decide (o.perm < 4096)
  && o.raw == (typeWord k ||| (p &&& 0o7777)) && o.back16 == o.raw && o.back32 == o.raw
  && o.field == some (p &&& 0o7777) && eqHashOk o

end RpmVerif.FileMode.Spec
