import RpmVerif.Model.Vercmp
/-!
# Spec for C13: rpm's `rpmvercmp` (transcribed from rpm's `rpmio/rpmvercmp.c`, DESIGN App. C)
and the token-key view used to get the order laws.

`cLoop` follows the C `while (*one || *two)` loop over bytes; `key` maps a string to its token
list (`tilde < end < caret < alpha _ < num _`), every list ending in `end`.
-/
set_option linter.unusedVariables false
namespace RpmVerif.Vercmp
open Std

theorem dw_sep_head {a : List Nat} {x r} (h : a.dropWhile isSep = x :: r) : isSep x = false := by
  have := List.head?_dropWhile_not isSep a
  rw [h] at this
  simpa using this

/-- result of C `strcmp` on two runs, as a sign -/
def strcmp (a b : List Nat) : Ordering := compare a b

/-- rpmvercmp's main loop. `one`/`two` are the remaining bytes. -/
def cLoop (one two : List Nat) : Ordering :=
  -- while (*one && !risalnum(*one) && *one != '~' && *one != '^') one++;   (same for two)
  match h5 : one.dropWhile isSep, h6 : two.dropWhile isSep with
  | [], [] => .eq                         -- loop ends; both exhausted
  | [], y :: rb =>
      if y = 126 then .gt                 -- *two == '~', *one != '~' → 1
      else if y = 94 then .lt             -- caret: !*one → -1
      else .lt                            -- break; return *one ? 1 : -1
  | x :: ra, [] =>
      if x = 126 then .lt
      else if x = 94 then .gt             -- !*two → 1
      else .gt
  | x :: ra, y :: rb =>
    if x = 126 ∨ y = 126 then
      if x ≠ 126 then .gt
      else if y ≠ 126 then .lt
      else cLoop ra rb
    else if x = 94 ∨ y = 94 then
      if x ≠ 94 then .gt
      else if y ≠ 94 then .lt
      else cLoop ra rb
    else if hd : isDigit x then
      -- seg1 is the digit run of one (non-empty), seg2 the digit run of two
      if hy : isDigit y then
        let n1 := ((x :: ra).takeWhile isDigit).dropWhile (· == 48)
        let n2 := ((y :: rb).takeWhile isDigit).dropWhile (· == 48)
        if n1.length > n2.length then .gt
        else if n2.length > n1.length then .lt
        else match strcmp n1 n2 with
          | .eq => cLoop ((x :: ra).dropWhile isDigit) ((y :: rb).dropWhile isDigit)
          | o => o
      else .gt                            -- seg2 empty, isnum → 1
    else
      if hy : isAlpha y then
        match strcmp ((x :: ra).takeWhile isAlpha) ((y :: rb).takeWhile isAlpha) with
        | .eq => cLoop ((x :: ra).dropWhile isAlpha) ((y :: rb).dropWhile isAlpha)
        | o => o
      else .lt                            -- seg2 empty, !isnum → -1
termination_by one.length + two.length
decreasing_by
  · have h := dw_le isSep one; have h' := dw_le isSep two; rw [h5] at h; rw [h6] at h'
    simp at h h'; omega
  · have h := dw_le isSep one; have h' := dw_le isSep two; rw [h5] at h; rw [h6] at h'
    simp at h h'; omega
  · have := dw_lt (r := ra) hd; have := dw_le isDigit (y :: rb)
    have h := dw_le isSep one; have h' := dw_le isSep two; rw [h5] at h; rw [h6] at h'; omega
  · have := dw_lt (r := rb) hy; have := dw_le isAlpha (x :: ra)
    have h := dw_le isSep one; have h' := dw_le isSep two; rw [h5] at h; rw [h6] at h'; omega

/-- `rpmvercmp(a, b)` : `if (rstreq(a, b)) return 0;` then the loop. -/
def cVercmp (a b : List Nat) : Ordering := if a = b then .eq else cLoop a b

/-! ## token keys -/
abbrev K := Nat × Nat × List Nat
def cmpK : K → K → Ordering :=
  compareLex (compareOn (·.1)) (compareLex (compareOn (·.2.1)) (compareOn (·.2.2)))

instance : TransCmp cmpK := by unfold cmpK; infer_instance
instance : OrientedCmp cmpK := by unfold cmpK; infer_instance

/-- rank 0 tilde, 1 end, 2 caret, 3 alpha run, 4 numeric run (length first, then digits) -/
def key (a : List Nat) : List K :=
  match h : a.dropWhile isSep with
  | [] => [(1, 0, [])]
  | x :: r =>
    if x = 126 then (0, 0, []) :: key r
    else if x = 94 then (2, 0, []) :: key r
    else if hd : isDigit x then
      (4, (((x :: r).takeWhile isDigit).dropWhile (· == 48)).length,
          ((x :: r).takeWhile isDigit).dropWhile (· == 48)) :: key ((x :: r).dropWhile isDigit)
    else
      (3, 0, (x :: r).takeWhile isAlpha) :: key ((x :: r).dropWhile isAlpha)
termination_by a.length
decreasing_by
  · have h' := dw_le isSep a; rw [h] at h'; simp at h'; omega
  · have h' := dw_le isSep a; rw [h] at h'; simp at h'; omega
  · have := dw_lt (r := r) hd; have h' := dw_le isSep a; rw [h] at h'; omega
  · have hs := dw_sep_head h
    have ha : isAlpha x = true := by
      simp only [isSep] at hs
      simp_all
    have := dw_lt (r := r) ha; have h' := dw_le isSep a; rw [h] at h'; omega

/-- lexicographic comparison of token lists: the reference order -/
def keyCmp (a b : List Nat) : Ordering := List.compareLex cmpK (key a) (key b)

end RpmVerif.Vercmp
