/-!
# Spec for C09: rpm's tag table — the data type rpm expects under each known tag

A transcription of the type annotations of rpm's `lib/rpmtag.h` (`/* s */`, `/* s[] */`, `/* s{} */`, `/* i */`, `/* i[] */`, `/* h[] */`,
`/* l */`, `/* c[] */`, `/* x */`, from which rpm generates `tagtbl.C`), as far as the transcriber is certain of them; every tag that is not
listed is treated as rpm treats a tag it does not know (`hdrchkTagType`: "permit unknown tags for forward compatibility").
Type codes (`rpmTagType`): 1 CHAR, 2 INT8, 3 INT16, 4 INT32, 5 INT64, 6 STRING, 7 BIN, 8 STRING_ARRAY, 9 I18NSTRING.

The numbers are rpm's, written out here; they are NOT taken from rpm-rs' `constants.rs` (a wrong tag number or data type in rpm-rs must be a
failure, not an agreement). There is no rpm source in the sandbox; the external checks are (1) every (tag, type) pair that occurs in the main
header of an rpm-built package under /repo/test_assets agrees with this table — exactly, but for a single-interpreter `*PROG` entry,
which rpm writes as STRING (`Props/C09.lean`: `asset_tag_types_agree`; the pairs are scraped from the package files on every run by
tools/gen/rpm_asset_tagtypes.py into `Gen/AssetTagTypes.lean`), (2) `validfile` judges every one of those packages with the rule `tag-type`.

rpm applies the check to the main header only (`hdrblobVerifyInfo`: "Can't typecheck signature header tags, sigh": the signature header
re-uses the numbers 1000.. for other things, e.g. 1000 = RPMSIGTAG_SIZE, INT32).
-/
namespace RpmVerif.RpmValid

/-- (tag, expected type code) -/
def tagTypeTable : List (Nat × Nat) := [
  (100, 8),    -- HEADERI18NTABLE s[]
  (1000, 6),   -- NAME s
  (1001, 6),   -- VERSION s
  (1002, 6),   -- RELEASE s
  (1003, 4),   -- EPOCH i
  (1004, 9),   -- SUMMARY s{}
  (1005, 9),   -- DESCRIPTION s{}
  (1006, 4),   -- BUILDTIME i
  (1007, 6),   -- BUILDHOST s
  (1008, 4),   -- INSTALLTIME i
  (1009, 4),   -- SIZE i
  (1010, 6),   -- DISTRIBUTION s
  (1011, 6),   -- VENDOR s
  (1012, 7),   -- GIF x
  (1013, 7),   -- XPM x
  (1014, 6),   -- LICENSE s
  (1015, 6),   -- PACKAGER s
  (1016, 9),   -- GROUP s{}
  (1018, 8),   -- SOURCE s[]
  (1019, 8),   -- PATCH s[]
  (1020, 6),   -- URL s
  (1021, 6),   -- OS s
  (1022, 6),   -- ARCH s
  (1023, 6),   -- PREIN s
  (1024, 6),   -- POSTIN s
  (1025, 6),   -- PREUN s
  (1026, 6),   -- POSTUN s
  (1027, 8),   -- OLDFILENAMES s[]
  (1028, 4),   -- FILESIZES i[]
  (1029, 1),   -- FILESTATES c[]
  (1030, 3),   -- FILEMODES h[]
  (1033, 3),   -- FILERDEVS h[]
  (1034, 4),   -- FILEMTIMES i[]
  (1035, 8),   -- FILEDIGESTS s[]
  (1036, 8),   -- FILELINKTOS s[]
  (1037, 4),   -- FILEFLAGS i[]
  (1039, 8),   -- FILEUSERNAME s[]
  (1040, 8),   -- FILEGROUPNAME s[]
  (1043, 7),   -- ICON x
  (1044, 6),   -- SOURCERPM s
  (1045, 4),   -- FILEVERIFYFLAGS i[]
  (1046, 4),   -- ARCHIVESIZE i
  (1047, 8),   -- PROVIDENAME s[]
  (1048, 4),   -- REQUIREFLAGS i[]
  (1049, 8),   -- REQUIRENAME s[]
  (1050, 8),   -- REQUIREVERSION s[]
  (1051, 4),   -- NOSOURCE i[]
  (1052, 4),   -- NOPATCH i[]
  (1053, 4),   -- CONFLICTFLAGS i[]
  (1054, 8),   -- CONFLICTNAME s[]
  (1055, 8),   -- CONFLICTVERSION s[]
  (1059, 8),   -- EXCLUDEARCH s[]
  (1060, 8),   -- EXCLUDEOS s[]
  (1061, 8),   -- EXCLUSIVEARCH s[]
  (1062, 8),   -- EXCLUSIVEOS s[]
  (1064, 6),   -- RPMVERSION s
  (1065, 8),   -- TRIGGERSCRIPTS s[]
  (1066, 8),   -- TRIGGERNAME s[]
  (1067, 8),   -- TRIGGERVERSION s[]
  (1068, 4),   -- TRIGGERFLAGS i[]
  (1069, 4),   -- TRIGGERINDEX i[]
  (1079, 6),   -- VERIFYSCRIPT s
  (1080, 4),   -- CHANGELOGTIME i[]
  (1081, 8),   -- CHANGELOGNAME s[]
  (1082, 8),   -- CHANGELOGTEXT s[]
  (1085, 8),   -- PREINPROG s[]
  (1086, 8),   -- POSTINPROG s[]
  (1087, 8),   -- PREUNPROG s[]
  (1088, 8),   -- POSTUNPROG s[]
  (1089, 8),   -- BUILDARCHS s[]
  (1090, 8),   -- OBSOLETENAME s[]
  (1091, 8),   -- VERIFYSCRIPTPROG s[]
  (1092, 8),   -- TRIGGERSCRIPTPROG s[]
  (1094, 6),   -- COOKIE s
  (1095, 4),   -- FILEDEVICES i[]
  (1096, 4),   -- FILEINODES i[]
  (1097, 8),   -- FILELANGS s[]
  (1098, 8),   -- PREFIXES s[]
  (1099, 8),   -- INSTPREFIXES s[]
  (1106, 4),   -- SOURCEPACKAGE i
  (1112, 4),   -- PROVIDEFLAGS i[]
  (1113, 8),   -- PROVIDEVERSION s[]
  (1114, 4),   -- OBSOLETEFLAGS i[]
  (1115, 8),   -- OBSOLETEVERSION s[]
  (1116, 4),   -- DIRINDEXES i[]
  (1117, 8),   -- BASENAMES s[]
  (1118, 8),   -- DIRNAMES s[]
  (1119, 4),   -- ORIGDIRINDEXES i[]
  (1120, 8),   -- ORIGBASENAMES s[]
  (1121, 8),   -- ORIGDIRNAMES s[]
  (1122, 6),   -- OPTFLAGS s
  (1123, 6),   -- DISTURL s
  (1124, 6),   -- PAYLOADFORMAT s
  (1125, 6),   -- PAYLOADCOMPRESSOR s
  (1126, 6),   -- PAYLOADFLAGS s
  (1127, 4),   -- INSTALLCOLOR i
  (1128, 4),   -- INSTALLTID i
  (1129, 4),   -- REMOVETID i
  (1132, 6),   -- PLATFORM s
  (1140, 4),   -- FILECOLORS i[]
  (1141, 4),   -- FILECLASS i[]
  (1142, 8),   -- CLASSDICT s[]
  (1143, 4),   -- FILEDEPENDSX i[]
  (1144, 4),   -- FILEDEPENDSN i[]
  (1145, 4),   -- DEPENDSDICT i[]
  (1146, 7),   -- SOURCEPKGID x
  (1150, 8),   -- POLICIES s[]
  (1151, 6),   -- PRETRANS s
  (1152, 6),   -- POSTTRANS s
  (1153, 8),   -- PRETRANSPROG s[]
  (1154, 8),   -- POSTTRANSPROG s[]
  (1155, 6),   -- DISTTAG s
  (5008, 5),   -- LONGFILESIZES l[]
  (5009, 5),   -- LONGSIZE l
  (5010, 8),   -- FILECAPS s[]
  (5011, 4),   -- FILEDIGESTALGO i
  (5012, 6),   -- BUGURL s
  (5020, 4),   -- PREINFLAGS i
  (5021, 4),   -- POSTINFLAGS i
  (5022, 4),   -- PREUNFLAGS i
  (5023, 4),   -- POSTUNFLAGS i
  (5024, 4),   -- PRETRANSFLAGS i
  (5025, 4),   -- POSTTRANSFLAGS i
  (5026, 4),   -- VERIFYSCRIPTFLAGS i
  (5027, 4),   -- TRIGGERSCRIPTFLAGS i[]
  (5034, 6),   -- VCS s
  (5035, 8),   -- ORDERNAME s[]
  (5036, 8),   -- ORDERVERSION s[]
  (5037, 4),   -- ORDERFLAGS i[]
  (5046, 8),   -- RECOMMENDNAME s[]
  (5047, 8),   -- RECOMMENDVERSION s[]
  (5048, 4),   -- RECOMMENDFLAGS i[]
  (5049, 8),   -- SUGGESTNAME s[]
  (5050, 8),   -- SUGGESTVERSION s[]
  (5051, 4),   -- SUGGESTFLAGS i[]
  (5052, 8),   -- SUPPLEMENTNAME s[]
  (5053, 8),   -- SUPPLEMENTVERSION s[]
  (5054, 4),   -- SUPPLEMENTFLAGS i[]
  (5055, 8),   -- ENHANCENAME s[]
  (5056, 8),   -- ENHANCEVERSION s[]
  (5057, 4),   -- ENHANCEFLAGS i[]
  (5062, 6),   -- ENCODING s
  (5066, 8),   -- FILETRIGGERSCRIPTS s[]
  (5067, 8),   -- FILETRIGGERSCRIPTPROG s[]
  (5068, 4),   -- FILETRIGGERSCRIPTFLAGS i[]
  (5069, 8),   -- FILETRIGGERNAME s[]
  (5070, 4),   -- FILETRIGGERINDEX i[]
  (5071, 8),   -- FILETRIGGERVERSION s[]
  (5072, 4),   -- FILETRIGGERFLAGS i[]
  (5076, 8),   -- TRANSFILETRIGGERSCRIPTS s[]
  (5077, 8),   -- TRANSFILETRIGGERSCRIPTPROG s[]
  (5078, 4),   -- TRANSFILETRIGGERSCRIPTFLAGS i[]
  (5079, 8),   -- TRANSFILETRIGGERNAME s[]
  (5080, 4),   -- TRANSFILETRIGGERINDEX i[]
  (5081, 8),   -- TRANSFILETRIGGERVERSION s[]
  (5082, 4),   -- TRANSFILETRIGGERFLAGS i[]
  (5084, 4),   -- FILETRIGGERPRIORITIES i[]
  (5085, 4),   -- TRANSFILETRIGGERPRIORITIES i[]
  (5090, 8),   -- FILESIGNATURES s[]
  (5091, 4),   -- FILESIGNATURELENGTH i
  (5092, 8),   -- PAYLOADDIGEST s[]
  (5093, 4),   -- PAYLOADDIGESTALGO i
  (5096, 6),   -- MODULARITYLABEL s
  (5097, 8),   -- PAYLOADDIGESTALT s[]
  (5099, 6),   -- SPEC s
  (5100, 6),   -- TRANSLATIONURL s
  (5101, 6),   -- UPSTREAMRELEASES s
  (5103, 6),   -- PREUNTRANS s
  (5104, 6),   -- POSTUNTRANS s
  (5105, 8),   -- PREUNTRANSPROG s[]
  (5106, 8),   -- POSTUNTRANSPROG s[]
  (5107, 4),   -- PREUNTRANSFLAGS i
  (5108, 4)    -- POSTUNTRANSFLAGS i
]

/-- `rpmTagGetTagType(tag)`; `none` = `RPM_NULL_TYPE` (a tag rpm's table does not know) -/
def tagType? (tag : Nat) : Option Nat := tagTypeTable.lookup tag

/-- `RPM_STRING_CLASS`: STRING, STRING_ARRAY, I18NSTRING -/
def isStringType (t : Nat) : Bool := t == 6 || t == 8 || t == 9

/-- `hdrchkTagType(tag, type) == 0` (lib/header.c): the types agree, or the tag is unknown ("permit unknown tags for forward
compatibility"), or both are string types ("some string tags harmlessly disagree on the exact type") -/
def tagTypeOk (tag ty : Nat) : Bool :=
  match tagType? tag with
  | none => true
  | some t => t == ty || (isStringType t && isStringType ty)

end RpmVerif.RpmValid
