/-!
# What the `%files` directives mean — independent of the model and of the scraped table

rpm's file attributes (`rpmfileAttrs`, lib/rpmfiles.h) and the directive each `FileOptionsBuilder::is_*` setter stands for
(documented in src/rpm/headers/types.rs: `%doc`, `%config`, `%config(noreplace)`, `%ghost`, `%license`, `%readme`), plus the
documented defaults of `FileOptions::new` ("owned by the "root" user and group, and inherit their permissions from the on-disk
file"; "By default, every aspect of the file will be checked").
-/
namespace RpmVerif.FileOptionsSpec

def RPMFILE_CONFIG : Nat := 1 <<< 0
def RPMFILE_DOC : Nat := 1 <<< 1
def RPMFILE_NOREPLACE : Nat := 1 <<< 4
def RPMFILE_GHOST : Nat := 1 <<< 6
def RPMFILE_LICENSE : Nat := 1 <<< 7
def RPMFILE_README : Nat := 1 <<< 8

/-- the setters with the attribute bits their directive sets -/
def settersStd : List (String × Nat) :=
  [("is_doc", RPMFILE_DOC), ("is_config", RPMFILE_CONFIG), ("is_config_noreplace", RPMFILE_CONFIG ||| RPMFILE_NOREPLACE),
   ("is_ghost", RPMFILE_GHOST), ("is_license", RPMFILE_LICENSE), ("is_readme", RPMFILE_README)]

/-- "root" -/
def root : List UInt8 := [114, 111, 111, 116]

end RpmVerif.FileOptionsSpec
