import RpmVerif.Model.Basic
/-!
# Spec for C17 — which destinations "can be split into a directory and a file name"

Stated on the destination text alone, without the path functions of the model.

A destination is *splittable* (in the builder's sense) when it starts with `/` or `./` and reads
`d ++ "/" ++ name ++ trail` where `name` is a real file name (not empty, no `/`, not `.`, not `..`)
and `trail` is nothing but trailing separators and `/.` pieces. The model rejects every other
destination (proved). What the *property text* demands is weaker (`HasFileName` below): a destination
without a final file name must be reported as an error, and none may panic.

`splittableB` is the decision procedure the driver uses (it scans the text from its end);
`Props/C17.lean` proves that the *model* accepts exactly the `Splittable` destinations, and the
correspondence run compares `splittableB` with the model and the code on every enumerated string.
-/
namespace RpmVerif.AddDataSpec

/-- trailing text that names nothing: `("/" | "/.")*` -/
inductive Trail : Bytes → Prop where
  | nil : Trail []
  | slash {t : Bytes} : Trail t → Trail (47 :: t)
  | slashDot {t : Bytes} : Trail t → Trail (47 :: 46 :: t)

/-- starts with `/` or with `./` -/
def ValidStart (dest : Bytes) : Prop := (∃ r, dest = 47 :: r) ∨ (∃ r, dest = 46 :: 47 :: r)

/-- `dest = d / name trail` with a real file name -/
structure Split (dest d name trail : Bytes) : Prop where
  eq : dest = d ++ 47 :: (name ++ trail)
  nonempty : name ≠ []
  noSep : (47 : UInt8) ∉ name
  notDot : name ≠ [46]
  notDotDot : name ≠ [46, 46]
  trail : Trail trail

def Splittable (dest : Bytes) : Prop := ValidStart dest ∧ ∃ d name trail, Split dest d name trail

/-- the weakest reading of "can be split into a directory and a file name", silent about how a
destination has to start: read from the root, the text ends in a real file name (`"a"`, `"a/b/."`
and `"/a"` do; `""`, `"/"`, `"./"`, `".."`, `"/usr/.."` do not). The builder additionally insists on
a leading `/` or `./`; the property text does not, so only `¬ HasFileName` *must* be an error. -/
def HasFileName (dest : Bytes) : Prop := Splittable (47 :: dest)

/-! ## executable form (driver) -/

def validStartB : Bytes → Bool
  | 47 :: _ => true
  | 46 :: 47 :: _ => true
  | _ => false

/-- remove a `Trail` from the end; the argument and the result are *reversed* texts -/
def dropTrailRev : Bytes → Bytes
  | 47 :: r => dropTrailRev r
  | 46 :: 47 :: r => dropTrailRev r
  | r => r

def splittableB (dest : Bytes) : Bool :=
  validStartB dest &&
    (match dropTrailRev dest.reverse with
     | r =>
       let name := r.takeWhile (fun b => b != 47)
       let rest := r.dropWhile (fun b => b != 47)
       !name.isEmpty && name != [46] && name != [46, 46] && !rest.isEmpty)

def hasFileNameB (dest : Bytes) : Bool := splittableB (47 :: dest)

/-! ## verdict classes -/

/-- a panic / abort observed anywhere but in a timestamp setter -/
def clsBuilderPanic : String := "builder-panic"
/-- `source_date` / `add_changelog_entry` unwrapping a failed conversion -/
def clsTimestampPanic : String := "timestamp-setter-panic"
def clsUnsplittableAccepted : String := "unsplittable-accepted"

end RpmVerif.AddDataSpec
