import RpmVerif.Gen.CapsTable
/-!
# Spec for C19: the grammar of file-capability text, as a decidable recogniser

Property text: *"File-capability text is accepted exactly when it is a whitespace-separated list of
clauses, each a comma-separated list of known capability names (or 'all', case-insensitively) followed
by one or more operator/flag groups with operators from '=', '+', '-' never adjacent and flags from
'e', 'i', 'p'; only a clause that starts with '=' may omit the name list."*

Written from the sentence, not from the code: a clause is well formed when **some** cut of it gives a
name list followed by one or more groups `op flag…`; nothing here looks for "the first operator", keeps
a "last character", trims, or upper-cases.  Strings are lists of Unicode code points (any Rust `String`;
nothing is restricted to ASCII).

What the sentence fixes about non-ASCII text: the operators `=`, `+`, `-`, the flags `e`, `i`, `p`, the
comma and the letters of `all` are the ASCII characters the sentence prints; the "known capability names"
are the 41 ASCII names of the table, known up to **ASCII** case (the kernel's / libcap's names are ASCII
and libcap compares them with `strcasecmp`); hence a name that contains a non-ASCII code point — dotless
`ı`, long `ſ`, Kelvin `K`, a full-width letter, … — is not a known name, whatever a Unicode case mapping
would turn it into, and a clause containing one must be rejected.  Likewise a full-width `＝` is not an
operator.  (`sameName`, `isAll`, `isOp`, `isFlag` below compare code points with ASCII codes, so this needs
no extra clause.)

```
text    ::= ws* clause (ws+ clause)* ws*          (at least one clause)
clause  ::= namelist groups  |  groups            (the second form only if the clause starts with '=')
namelist::= "all" | name ("," name)*              (any ASCII case; name ∈ the CAPS table of the source)
groups  ::= (op flag+)* op flag+                  (op ∈ {=,+,-}, flag ∈ {e,i,p})
```

## Where the sentence is silent or ambiguous (the don't-care region)

The recogniser takes a `Reading` that resolves the two ambiguous points of the grammar; `strict` is the
reading that accepts least, `lenient` the one that accepts most.  A text is

* `mustAccept`  when it is well formed under the strict reading (and has no doubtful whitespace, see 3.),
* `mustReject`  when it is not well formed even under the lenient reading,
* `dontcare`    in between — exactly the texts whose status depends on how one reads the sentence.

1. **An operator followed by no flags** (`cap_chown+`, `=`, `cap_kill=e-`).  "operator/flag groups" does
   not say whether a group needs a flag (libcap accepts `=`).  Because operators must never be
   adjacent, only the *last* group of a clause can be flagless, so the lenient grammar is
   `groups ::= (op flag+)* op flag*`.  `Reading.flaglessLast`.
2. **`all` as an item of a comma list** (`all,cap_chown=e`, `cap_kill,ALL+p`).  "a comma-separated list
   of known capability names (or 'all')" parses both as "(list of names) or 'all'" and as "list of
   (name or 'all')".  `Reading.allInList`.  A lone `all` is a name list under both readings.
3. **Doubtful whitespace: U+000B (vertical tab) and the non-ASCII `White_Space` code points** (U+0085,
   U+00A0, U+1680, U+2000–U+200A, U+2028, U+2029, U+202F, U+205F, U+3000).  "whitespace" is not defined
   by the sentence; the two ASCII notions in Rust's own standard library differ exactly on U+000B
   (`char::is_whitespace` has it, `u8::is_ascii_whitespace` has not), and whether "whitespace" means
   ASCII whitespace (libcap's `isspace` in the C locale) or Unicode `White_Space` is equally open.  If
   such a code point is not whitespace it is an illegal character of a clause, so a text containing one
   is never `mustAccept`; it is `mustReject` when it is ill formed even with all of them read as
   separators.  Space, TAB, LF, FF, CR are whitespace under every reading.  Code points that merely look
   like blanks but do not have the `White_Space` property (U+200B zero width space, U+180E, U+FEFF, …) are
   ordinary illegal characters.

Deliberately **not** don't-care (the sentence decides them):
* an empty item in the comma list (`,=e`, `cap_chown,=e`, `cap_chown,,cap_kill=e`): the empty string is
  not a known capability name → reject;
* empty or all-whitespace text: a list of clauses needs a clause → reject;
* `+e`, `-e` without names → reject; `=e +p` → reject (the second clause starts with `+`);
* adjacent operators (`cap_chown+-p`, `cap_chown=+e`), unknown flags (`x`, `E`), unknown names → reject;
* a capability name is "known" up to ASCII case (the table is upper case, the customary spelling is
  lower case; "case-insensitively" in the sentence) → `Cap_Chown=e` accept.

In every region, including don't-care: no panic, and accepted text is stored verbatim
(the driver checks both on the implementation's observation).
-/
namespace RpmVerif.FileCaps.Spec

abbrev Str := List Nat

structure Reading where
  /-- the last group of a clause may consist of an operator alone -/
  flaglessLast : Bool
  /-- `all` may be an item of a comma list with more than one item -/
  allInList : Bool
  deriving Repr, DecidableEq

def strict : Reading := ⟨false, false⟩
def lenient : Reading := ⟨true, true⟩

/-- whitespace under every reading: space, TAB, LF, FF, CR -/
def isSureSpace (c : Nat) : Bool := c == 32 || c == 9 || c == 10 || c == 12 || c == 13
/-- the non-ASCII code points with the Unicode `White_Space` property (Unicode 16, PropList.txt):
NEL, NBSP, OGHAM SPACE MARK, EN QUAD … HAIR SPACE, LINE / PARAGRAPH SEPARATOR, NARROW NBSP, MMSP,
IDEOGRAPHIC SPACE -/
def isUniSpace (c : Nat) : Bool :=
  [0x85, 0xA0, 0x1680, 0x2000, 0x2001, 0x2002, 0x2003, 0x2004, 0x2005, 0x2006, 0x2007, 0x2008, 0x2009, 0x200A,
   0x2028, 0x2029, 0x202F, 0x205F, 0x3000].contains c
/-- whitespace under some reading only (point 3 above): VT and the non-ASCII `White_Space` code points -/
def isDoubtfulSpace (c : Nat) : Bool := c == 11 || isUniSpace c
/-- whitespace under the most generous reading -/
def isSpace (c : Nat) : Bool := isSureSpace c || isDoubtfulSpace c
/-- `=`, `+`, `-` -/
def isOp (c : Nat) : Bool := c == 61 || c == 43 || c == 45
/-- `e`, `i`, `p` -/
def isFlag (c : Nat) : Bool := c == 101 || c == 105 || c == 112

/-- `groups`: one or more groups exhausting the input.  The state is `none` before the first
operator, `some n` inside a group that has `n` flags so far. -/
def groups (r : Reading) : Option Nat → Str → Bool
  | none, [] => false                                  -- "one or more"
  | some n, [] => r.flaglessLast || n > 0                -- the last group
  | none, c :: s => isOp c && groups r (some 0) s
  | some n, c :: s =>
    if isFlag c then groups r (some (n + 1)) s
    else isOp c && n > 0 && groups r (some 0) s        -- operators never adjacent

/-- `t` is an entry of the (upper-case) table, `n` spells it in any ASCII case -/
def sameName : Str → Str → Bool
  | [], [] => true
  | a :: t, b :: n => (b == a || (65 ≤ a && a ≤ 90 && b == a + 32)) && sameName t n
  | _, _ => false

def known (n : Str) : Bool := Gen.capsTable.any (fun t => sameName t n)

/-- `all` in any ASCII case -/
def isAll : Str → Bool
  | [a, b, c] => (a == 97 || a == 65) && (b == 108 || b == 76) && (c == 108 || c == 76)
  | _ => false

/-- put `a` in front of the first field -/
def consHead (a : Str) : List Str → List Str
  | f :: fs => (a ++ f) :: fs
  | [] => [a]

/-- the fields between single separator characters (empty fields are kept; never `[]`) -/
def fields (sep : Nat → Bool) : Str → List Str
  | [] => [[]]
  | c :: s => if sep c then [] :: fields sep s else consHead [c] (fields sep s)

def nameList (r : Reading) (n : Str) : Bool :=
  isAll n || (fields (· == 44) n).all (fun x => known x || (r.allInList && isAll x))

/-- the clause cut after `k` characters: name list (omitted iff `k = 0`, then the clause must start
with `=`) followed by groups -/
def clauseAt (r : Reading) (c : Str) (k : Nat) : Bool :=
  groups r none (c.drop k) && (if k = 0 then c.head? == some 61 else nameList r (c.take k))

def clause (r : Reading) (c : Str) : Bool := (List.range (c.length + 1)).any (clauseAt r c)

/-- the maximal whitespace-free runs -/
def words (s : Str) : List Str := (fields isSpace s).filter (fun w => !w.isEmpty)

def wf (r : Reading) (s : Str) : Bool := !(words s).isEmpty && (words s).all (clause r)

/-- well formed under every reading of the sentence: must be accepted -/
def WellFormed (s : Str) : Prop := wf strict s = true ∧ s.all (fun c => !isDoubtfulSpace c) = true
/-- well formed under some reading: may be accepted; `¬ Admissible` must be rejected -/
def Admissible (s : Str) : Prop := wf lenient s = true
/-- the region where the sentence does not decide -/
def DontCare (s : Str) : Prop := Admissible s ∧ ¬ WellFormed s

instance (s : Str) : Decidable (WellFormed s) := by unfold WellFormed; infer_instance
instance (s : Str) : Decidable (Admissible s) := by unfold Admissible; infer_instance
instance (s : Str) : Decidable (DontCare s) := by unfold DontCare; infer_instance

inductive Demand where
  | mustAccept | mustReject | dontcare
  deriving Repr, DecidableEq

def demand (s : Str) : Demand :=
  if WellFormed s then .mustAccept else if Admissible s then .dontcare else .mustReject

/-- why a text is in the don't-care region (label for the driver's histogram) -/
def dontcareWhy (s : Str) : String :=
  if s.any isUniSpace && wf strict s then "unicode-ws"
  else if s.contains 11 && wf strict s then "vt"
  else if wf ⟨true, false⟩ s then "flagless-group"
  else if wf ⟨false, true⟩ s then "all-in-list"
  else "flagless+all-in-list"

end RpmVerif.FileCaps.Spec
