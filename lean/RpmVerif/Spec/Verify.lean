import RpmVerif.Model.Basic
/-!
# Spec for C02: when may `verify_signature` report success?

Written over what an OBSERVER of the call sees — the result class and, for every call made to the supplied
verifier, an identity of the data it could read, an identity of the signature bytes and the verdict it gave —
and independently of the model (`Model/Verify.lean` is not imported).

Property text: success only if (1) the verifier accepted at least one signature, (2) every signature it was
consulted about was accepted, (3) each was presented together with exactly the bytes it has to cover — the
serialised main header, or header followed by payload for the legacy header+payload signature (the binary stored
under `RPMSIGTAG_PGP`) — and (4) every digest recorded in the package matches.

The text restricts SUCCESS only; an error is always acceptable here (that tampered packages must give an error
is the corollary, judged separately by comparing parsed values). `ident` abstracts how byte strings are
identified (the driver uses length + FNV-1a, the theorem `model_satisfies_spec` uses the bytes themselves).
-/
namespace RpmVerif.VerifySpec

/-- one observed call of the verifier -/
structure Seen (I : Type) where
  dataId : I
  sigId : I
  accepted : Bool

/-- is the data of an observed call what that signature has to cover?
* a signature other than the binary under RPMSIGTAG_PGP: the serialised main header;
* the RPMSIGTAG_PGP binary: header ++ payload — and only that when `pgpExclusive` says the bytes cannot ALSO be a
  header-only signature (they differ from the RSA and DSA binaries and there is no readable OPENPGP array whose
  entries might decode to the same bytes); otherwise the observer cannot tell which of the two a call was, and
  both are accepted. -/
def dataRight {I} [DecidableEq I] (ident : Bytes → I) (hdr content : Bytes) (pgpSig : Option Bytes) (pgpExclusive : Bool)
    (c : Seen I) : Bool :=
  match pgpSig with
  | some s =>
    if c.sigId = ident s then
      decide (c.dataId = ident (hdr ++ content)) || (!pgpExclusive && decide (c.dataId = ident hdr))
    else decide (c.dataId = ident hdr)
  | none => decide (c.dataId = ident hdr)

/-- may the call report success, given what was observed? -/
def successAllowed {I} [DecidableEq I] (ident : Bytes → I) (hdr content : Bytes) (pgpSig : Option Bytes) (pgpExclusive : Bool)
    (digestsMatch : Bool) (log : List (Seen I)) : Bool :=
  digestsMatch && !log.isEmpty && log.all (·.accepted) && log.all (dataRight ident hdr content pgpSig pgpExclusive)

/-- the class of failure, for the verdict text -/
def whyNot {I} [DecidableEq I] (ident : Bytes → I) (hdr content : Bytes) (pgpSig : Option Bytes) (pgpExclusive : Bool)
    (digestsMatch : Bool) (log : List (Seen I)) : String :=
  if log.isEmpty then "ok-without-consult"
  else if !log.all (·.accepted) then "ok-despite-rejection"
  else if !log.all (dataRight ident hdr content pgpSig pgpExclusive) then "ok-with-wrong-data"
  else if !digestsMatch then "ok-despite-digest-mismatch"
  else "-"

end RpmVerif.VerifySpec
