import RpmVerif.Model.Fs
/-!
# C12 — what the property demands of one extraction (decidable, independent of the FS model's run)

* `Contained`   : nothing outside the destination differs between two file systems;
* `noDotDot`, `noBelowLink`, `threeKinds` : syntactic classes of hostile input (used by the driver to name
  the class of a regression: `dotdot-escape`, `symlink-follow-escape`, `special-type-panic`);
* `benign`      : "built package" — additionally no duplicates, parents listed in DIRNAMES, files
  and links not used as directories, no name longer than `NAME_MAX`;
* `Faithful`    : every entry is at destination+path with its content, permission bits, link target.
-/
namespace RpmVerif.Extract
open RpmVerif.Fs

/-- components of an entry / directory name below the destination; `none` when `strip_prefix("/")` fails
(the code then uses the destination itself) -/
abbrev comps (s : Bytes) : Option (List Name) := relComps s

/-- components with the fallback applied: where below the destination the text points -/
def compsD (s : Bytes) : List Name := (relComps s).getD []

def hasDotDot (s : Bytes) : Bool := (compsD s).contains dotdot

/-- all texts the package supplies as paths -/
def allTexts (inp : Input) : List Bytes := (inp.dirnames.getD []) ++ inp.items.map (·.path)

/-- no `..` component in any directory name or entry path -/
def noDotDot (inp : Input) : Bool := (allTexts inp).all (fun s => !hasDotDot s)

/-- the part of an entry's path through which the code follows symbolic links:
the whole path for directories and regular files (`create_dir_all`, `File::create`, `set_permissions`),
the parent for a link (`remove_file` and `symlink` do not follow the last component) -/
def followed (it : Item) : List Name :=
  match it.kind with
  | .symlink => (compsD it.path).dropLast
  | _ => compsD it.path

/-- no entry's followed path is at or below the path of an EARLIER symbolic-link entry -/
def noBelowLinkAux : List (List Name) → List Item → Bool
  | _, [] => true
  | links, it :: r =>
    links.all (fun l => !l.isPrefixOf (followed it)) &&
      noBelowLinkAux (if it.kind = .symlink then compsD it.path :: links else links) r

def noBelowLink (inp : Input) : Bool := noBelowLinkAux [] inp.items

/-- only directories, regular files and symbolic links -/
def threeKinds (inp : Input) : Bool := inp.items.all (fun it => it.kind ≠ .other)

/-- all prefixes of the directory names' components (the directories pre-created by `extract`) -/
def inDirnames (ds : List Bytes) (p : List Name) : Bool := ds.any (fun d => p.isPrefixOf (compsD d))

/-- every component of every directory name and entry path is a name a file system takes (≤ `NAME_MAX` = 255 bytes):
with a longer one `mkdir` / `open` / `symlink` answer `ENAMETOOLONG` and the entry cannot be created by anybody -/
def shortNames (inp : Input) : Bool := (allTexts inp).all (fun s => (compsD s).all (fun c => decide (c.length ≤ nameMax)))

/-- a well-behaved ("built") package -/
def benign (inp : Input) : Bool :=
  match inp.dirnames with
  | none => false
  | some ds =>
    inp.tailOk && threeKinds inp && noDotDot inp &&
    ds.all (fun d => (relComps d).isSome) &&
    inp.items.all (fun it => (relComps it.path).isSome && compsD it.path ≠ []) &&
    -- no duplicate paths
    decide (inp.items.map (fun it => compsD it.path)).Nodup &&
    inp.items.all (fun it =>
      it.kind = .dir ||
        -- parent listed in DIRNAMES; the path itself is nobody's directory
        (inDirnames ds (compsD it.path).dropLast && !inDirnames ds (compsD it.path) &&
          inp.items.all (fun d => !(d.kind = .dir && (compsD it.path).isPrefixOf (compsD d.path))) &&
          (it.kind ≠ .symlink || !it.linkto.isEmpty))) &&
    shortNames inp

/-- nothing that is not the destination or below it differs -/
def Contained (T : Path) (fs fs' : Fs) : Prop := ∀ q, ¬ T <+: q → fs'.get q = fs.get q

/-- the node an entry must end up as -/
def wantNode (it : Item) : Option Node :=
  match it.kind with
  | .dir => some (.dir it.perm)
  | .regular => some (.file it.content it.perm)
  | .symlink => some (.symlink it.linkto)
  | .other => none

/-- every entry is present at destination + path with its content / permission bits / link target -/
def Faithful (T : Path) (inp : Input) (fs' : Fs) : Prop :=
  ∀ it ∈ inp.items, fs'.get (T ++ compsD it.path) = wantNode it

end RpmVerif.Extract
