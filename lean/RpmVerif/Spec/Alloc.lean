/-!
# C04, "allocates memory out of proportion to the input length": the limits the correspondence judges by

The property text gives no number. The reading used here: a constant floor (what an empty parse costs: logger, error
values, the harness' own strings) plus a constant number of bytes per input byte, chosen ABOVE what the data structures of
the crate cost for well-formed input — a `String` is 24 bytes and can stand for a single input byte (an empty string and its
NUL), a vector that grows by doubling may hold twice its length, an accessor clones what it returns — and far below what
a count or size field taken at face value costs (2^32 elements). Anything linear with such a constant is "in proportion";
memory that grows with the SQUARE of the input length, or with a field's value, is not.
-/
namespace RpmVerif.AllocSpec

/-- largest single request: 64 KiB + 64 bytes per input byte -/
def singleLimit (len : Nat) : Nat := 65536 + 64 * len
/-- bytes alive at the same time (peak over the whole read side): 64 KiB + 128 bytes per input byte -/
def liveLimit (len : Nat) : Nat := 65536 + 128 * len
/-- bytes obtained from the allocator in total over the whole read side (work, not residency): 1 MiB + 1024 per input byte -/
def totalLimit (len : Nat) : Nat := 1048576 + 1024 * len

end RpmVerif.AllocSpec
