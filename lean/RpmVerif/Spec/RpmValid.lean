import RpmVerif.Model.Header
import RpmVerif.Model.Cpio
/-!
# Spec for C09: rpm's structural rules as decidable propositions

A transcription of what rpm enforces when it loads a package (`lib/header.c`: `hdrblobInit`,
`hdrblobVerifyRegion`, `hdrblobVerifyInfo`; `lib/rpmlead.c`; `lib/cpio.c`; `lib/rpmds.c` rpmlib() table),
restricted to the rules the property lists.  Everything is a decidable `Prop` over the parsed structures of
`Model/Header.lean` (the parser itself checks the magics, the header version, `type ≤ 9` and that index
and store have the announced sizes), so that the same definitions are the subject of the theorems in
`Props/C09.lean` and, through `decide`, the validator the driver runs on the bytes of every emitted package.

Every rule has a stable short name (`firstViolation`): `lead`, `intro-sizes`, `region`, `tags-ascending`,
`type`, `count-zero`, `alignment`, `string-term`, `range`, `overlap`, `sig-padding`, `compressor-magic`,
`rpmlib`, `cpio-entry`, `cpio-order`, `cpio-trailer`.

Numbers (tag values, limits, magics) are written out here as rpm defines them — they are NOT taken from the
tables generated from rpm-rs, so that a wrong constant in rpm-rs is a failure, not an agreement.

Transcription choices (stated precisely because there is no rpm binary here to cross-check; the only
external check is that all rpm-built packages in /repo/test_assets are judged valid):
* every non-region entry: `tag ≥ 100` (`hdrchkTag`: `tag < HEADER_I18NTABLE` is rejected — this holds for
  signature headers too, whose tags are 256.. and 1000..) and `tag ≠ regionTag`;
* `type ∈ 1..9` (`RPM_MIN_TYPE = 1`; type 0 has data length 0, which `len <= 0` rejects anyway);
* `count ≥ 1`; STRING entries have `count = 1` (`dataLength` returns -1 otherwise);
* data must end at or before the region trailer (rpm checks `end ≤ rdl`, `rdl` being the END of the trailer;
  "non-overlapping" in the property text includes the trailer, so the stricter bound is used);
* tags strictly ascending is a property-level rule (rpm sorts the index on load).
-/
namespace RpmVerif.RpmValid
open RpmVerif RpmVerif.Hdr

/-! ## lead -/

/-- `rpmLeadRead`: major 3 (rpm accepts 3 and 4; packages are written with 3), type binary (0) or
source (1), signature type `RPMSIGTYPE_HEADERSIG` = 5. (The magic is checked by the parser.) -/
def LeadValid (l : Lead) : Prop := l.major = 3 ∧ (l.ptype = 0 ∨ l.ptype = 1) ∧ l.sigtype = 5

instance (l : Lead) : Decidable (LeadValid l) := by unfold LeadValid; exact inferInstance

/-! ## header -/

/-- `typeAlign[]` of `header.c`, indexed by type -/
def typeAlign : Nat → Nat
  | 3 => 2 | 4 => 4 | 5 => 8 | _ => 1

/-- length, including the terminator, of the NUL-terminated string at the start of `bs`;
`none` when the bytes end before a NUL (`strtaglen` returning -1) -/
def strLen : Bytes → Option Nat
  | [] => none
  | b :: r => if b = 0 then some 1 else (strLen r).map (· + 1)

/-- total length of `k` consecutive NUL-terminated strings -/
def stringsLen : Nat → Bytes → Option Nat
  | 0, _ => some 0
  | k + 1, bs =>
    match strLen bs with
    | none => none
    | some n => (stringsLen k (bs.drop n)).map (n + ·)

/-- `dataLength(type, store + off, count, …, store + dl)`: `none` = -1 (illegal type, unterminated string) -/
def dataLen (store : Bytes) (off ty cnt : Nat) : Option Nat :=
  match ty with
  | 1 => some cnt | 2 => some cnt | 7 => some cnt
  | 3 => some (2 * cnt) | 4 => some (4 * cnt) | 5 => some (8 * cnt)
  | 6 => strLen (store.drop off)
  | 8 => stringsLen cnt (store.drop off)
  | 9 => stringsLen cnt (store.drop off)
  | _ => none

/-- data length of an entry inside `store` -/
def entryLen (store : Bytes) (e : Entry) : Option Nat := dataLen store e.off e.data.typeCode e.cnt

/-- the entries after the leading region entry -/
def body (h : Header) : List Entry := h.entries.drop 1

/-- offset of the region trailer = upper bound for all other data -/
def limit (h : Header) : Nat := h.dataSize - 16

/-- `intro-sizes`: `il` is the number of index entries, `1 ≤ il ≤ 65535`; `dl` is the size of the store,
`dl < 256 MiB` (`hdrchkTags`, `hdrchkData`) -/
def IntroSizes (h : Header) : Prop :=
  h.nEntries = h.entries.length ∧ 1 ≤ h.nEntries ∧ h.nEntries ≤ 65535 ∧
  h.dataSize = h.store.length ∧ h.dataSize < 268435456

/-- the 16 bytes of a region trailer: an index entry (tag, BIN, −16·il, 16), offset in two's complement -/
def trailerBytes (rt il : Nat) : Bytes := be32 rt ++ be32 7 ++ be32 (4294967296 - 16 * il) ++ be32 16

/-- `region`: the first entry is (regionTag, BIN, count 16) whose data are the last 16 bytes of the store
(`offset + 16 = dl`: in package files the region covers the whole header) and these bytes are the trailer
pointing back over exactly `il` entries -/
def RegionOk (rt : Nat) (h : Header) : Prop :=
  match h.entries with
  | [] => False
  | e :: _ => e.tag = rt ∧ e.data.typeCode = 7 ∧ e.cnt = 16 ∧ e.off + 16 = h.dataSize ∧
      (h.store.drop e.off).take 16 = trailerBytes rt h.nEntries

/-- `tags-ascending`: legal tags, strictly ascending in index order -/
def TagsAscending (rt : Nat) (h : Header) : Prop :=
  (∀ e ∈ body h, 100 ≤ e.tag ∧ e.tag ≠ rt) ∧ (body h).Pairwise (fun a b => a.tag < b.tag)

/-- `type` -/
def TypesLegal (h : Header) : Prop := ∀ e ∈ body h, 1 ≤ e.data.typeCode ∧ e.data.typeCode ≤ 9

/-- `count-zero`: no empty entry; a STRING entry holds exactly one string -/
def CountsOk (h : Header) : Prop := ∀ e ∈ body h, 1 ≤ e.cnt ∧ (e.data.typeCode = 6 → e.cnt = 1)

/-- `alignment` -/
def Aligned (h : Header) : Prop := ∀ e ∈ body h, e.off % typeAlign e.data.typeCode = 0

/-- `string-term`: the data length is defined, i.e. every string of the entry is terminated inside the store -/
def StringsTerminated (h : Header) : Prop := ∀ e ∈ body h, (entryLen h.store e).isSome = true

/-- `range`: the offset is inside the data area, the data are non-empty and end before the region trailer -/
def InRange (h : Header) : Prop :=
  ∀ e ∈ body h, e.off ≤ limit h ∧ ∀ len ∈ entryLen h.store e, 0 < len ∧ e.off + len ≤ limit h

/-- each entry starts at or after the end of the previous entry's data -/
def SeqFrom (store : Bytes) : Nat → List Entry → Prop
  | _, [] => True
  | start, e :: es => start ≤ e.off ∧ SeqFrom store (e.off + (entryLen store e).getD 0) es

/-- `overlap`: data laid out in index order without overlap -/
def NoOverlap (h : Header) : Prop := SeqFrom h.store 0 (body h)

/-- **a header as rpm accepts it** -/
structure HeaderValid (rt : Nat) (h : Header) : Prop where
  intro : IntroSizes h
  region : RegionOk rt h
  tags : TagsAscending rt h
  types : TypesLegal h
  counts : CountsOk h
  aligned : Aligned h
  strings : StringsTerminated h
  range : InRange h
  seq : NoOverlap h

instance (h : Header) : Decidable (IntroSizes h) := by unfold IntroSizes; exact inferInstance
instance (rt : Nat) (h : Header) : Decidable (RegionOk rt h) := by
  unfold RegionOk; split <;> exact inferInstance
instance (rt : Nat) (h : Header) : Decidable (TagsAscending rt h) := by unfold TagsAscending; exact inferInstance
instance (h : Header) : Decidable (TypesLegal h) := by unfold TypesLegal; exact inferInstance
instance (h : Header) : Decidable (CountsOk h) := by unfold CountsOk; exact inferInstance
instance (h : Header) : Decidable (Aligned h) := by unfold Aligned; exact inferInstance
instance (h : Header) : Decidable (StringsTerminated h) := by unfold StringsTerminated; exact inferInstance
instance (o : Option Nat) (p : Nat → Prop) [DecidablePred p] : Decidable (∀ x ∈ o, p x) :=
  match o with
  | none => isTrue (fun _ h => by cases h)
  | some x => if hx : p x then isTrue (fun y hy => by cases hy; exact hx) else isFalse (fun h => hx (h x rfl))
instance (h : Header) : Decidable (InRange h) := by unfold InRange; exact inferInstance
def decSeqFrom (store : Bytes) : (start : Nat) → (es : List Entry) → Decidable (SeqFrom store start es)
  | _, [] => isTrue trivial
  | start, e :: es =>
    match Nat.decLe start e.off, decSeqFrom store (e.off + (entryLen store e).getD 0) es with
    | isTrue a, isTrue b => isTrue ⟨a, b⟩
    | isFalse a, _ => isFalse (fun h => a h.1)
    | _, isFalse b => isFalse (fun h => b h.2)
instance (store : Bytes) (start : Nat) (es : List Entry) : Decidable (SeqFrom store start es) := decSeqFrom store start es
instance (h : Header) : Decidable (NoOverlap h) := by unfold NoOverlap; exact inferInstance

theorem headerValid_iff (rt : Nat) (h : Header) : HeaderValid rt h ↔
    (IntroSizes h ∧ RegionOk rt h ∧ TagsAscending rt h ∧ TypesLegal h ∧ CountsOk h ∧ Aligned h ∧
      StringsTerminated h ∧ InRange h ∧ NoOverlap h) :=
  ⟨fun v => ⟨v.intro, v.region, v.tags, v.types, v.counts, v.aligned, v.strings, v.range, v.seq⟩,
   fun ⟨a, b, c, d, e, f, g, i, j⟩ => ⟨a, b, c, d, e, f, g, i, j⟩⟩

instance (rt : Nat) (h : Header) : Decidable (HeaderValid rt h) := decidable_of_iff _ (headerValid_iff rt h).symm

/-- name of the first violated header rule (diagnostics for the driver; `none` ⇔ `HeaderValid`) -/
def headerViolation (rt : Nat) (h : Header) : Option String :=
  if ¬ IntroSizes h then some "intro-sizes"
  else if ¬ RegionOk rt h then some "region"
  else if ¬ TagsAscending rt h then some "tags-ascending"
  else if ¬ TypesLegal h then some "type"
  else if ¬ CountsOk h then some "count-zero"
  else if ¬ Aligned h then some "alignment"
  else if ¬ StringsTerminated h then some "string-term"
  else if ¬ InRange h then some "range"
  else if ¬ NoOverlap h then some "overlap"
  else none

theorem headerViolation_none (rt : Nat) (h : Header) : headerViolation rt h = none ↔ HeaderValid rt h := by
  rw [headerValid_iff]
  unfold headerViolation
  constructor
  · intro hv
    repeat' (split at hv; · cases hv)
    rename_i a b c d e f g i j
    exact ⟨Decidable.not_not.mp a, Decidable.not_not.mp b, Decidable.not_not.mp c, Decidable.not_not.mp d,
      Decidable.not_not.mp e, Decidable.not_not.mp f, Decidable.not_not.mp g, Decidable.not_not.mp i,
      Decidable.not_not.mp j⟩
  · rintro ⟨a, b, c, d, e, f, g, i, j⟩
    simp only [a, b, c, d, e, f, g, i, j, not_true_eq_false, if_false]

/-! ## signature header padding -/

/-- `sig-padding`: the signature header (intro 16 bytes + 16·il + dl, starting after the 96-byte lead) is
followed by `(8 − dl mod 8) mod 8` zero bytes, so that the main header starts at a multiple of 8 -/
def SigPadding (bytes : Bytes) (sig : Header) : Prop :=
  let stop := 96 + (16 + 16 * sig.nEntries + sig.dataSize)
  let pad := (8 - sig.dataSize % 8) % 8
  (bytes.drop stop).take pad = List.replicate pad 0 ∧ (stop + pad) % 8 = 0 ∧ stop + pad ≤ bytes.length

instance (bytes : Bytes) (sig : Header) : Decidable (SigPadding bytes sig) := by
  unfold SigPadding; exact inferInstance

/-! ## payload -/

/-- data of the first entry carrying `tag` -/
def find (h : Header) (tag : Nat) : Option IndexData := (h.entries.find? (·.tag == tag)).map (·.data)

def strsOf (h : Header) (tag : Nat) : Option (List Bytes) :=
  match find h tag with | some (.strArray l) => some l | _ => none
def strOf (h : Header) (tag : Nat) : Option Bytes :=
  match find h tag with | some (.str s) => some s | _ => none
def u16sOf (h : Header) (tag : Nat) : Option (List Nat) :=
  match find h tag with | some (.int16 l) => some l | _ => none
def u32sOf (h : Header) (tag : Nat) : Option (List Nat) :=
  match find h tag with | some (.int32 l) => some l | _ => none
def u64sOf (h : Header) (tag : Nat) : Option (List Nat) :=
  match find h tag with | some (.int64 l) => some l | _ => none

-- rpm's tag numbers (rpmtag.h)
def tBASENAMES : Nat := 1117
def tDIRNAMES : Nat := 1118
def tDIRINDEXES : Nat := 1116
def tFILESIZES : Nat := 1028
def tLONGFILESIZES : Nat := 5008
def tFILEMODES : Nat := 1030
def tREQUIRENAME : Nat := 1049
def tPAYLOADCOMPRESSOR : Nat := 1125
def tFILECAPS : Nat := 5010
def tFILEDIGESTALGO : Nat := 5011

/-- what the archive must say about one file -/
structure FileExp where
  name : Bytes     -- cpio name: "." ++ dirname ++ basename
  size : Nat
  mode : Nat
  deriving DecidableEq, Repr

/-- zip the per-file arrays; `none` when lengths differ or a directory index is out of range -/
def mkFiles (dirs : List Bytes) : List Bytes → List Nat → List Nat → List Nat → Option (List FileExp)
  | [], [], [], [] => some []
  | b :: bs, i :: is, s :: ss, m :: ms =>
    match dirs[i]?, mkFiles dirs bs is ss ms with
    | some d, some r => some (⟨[46] ++ (d ++ b), s, m⟩ :: r)
    | _, _ => none
  | _, _, _, _ => none

/-- the file list of a header: BASENAMES / DIRNAMES / DIRINDEXES (rpm's compressed file names), sizes from
LONGFILESIZES when present, else FILESIZES, modes from FILEMODES. No BASENAMES = no files. -/
def headerFiles (h : Header) : Option (List FileExp) :=
  match strsOf h tBASENAMES with
  | none => some []
  | some bases =>
    match strsOf h tDIRNAMES, u32sOf h tDIRINDEXES, u16sOf h tFILEMODES,
          (match u64sOf h tLONGFILESIZES with | some l => some l | none => u32sOf h tFILESIZES) with
    | some dirs, some idx, some modes, some sizes => mkFiles dirs bases idx sizes modes
    | _, _, _, _ => none

inductive CpioErr where
  | entry | order | trailer
  deriving DecidableEq, Repr

def CpioErr.name : CpioErr → String
  | .entry => "cpio-entry" | .order => "cpio-order" | .trailer => "cpio-trailer"

/-- "TRAILER!!!" -/
def trailerName : Bytes := [84, 82, 65, 73, 76, 69, 82, 33, 33, 33]

/-- walk the archive with the newc reader: entry `i` must be a newc entry named like header file `i` with
its size and mode (or, in the stripped form rpm uses for files > 4 GiB, carry the index `i`), header + name
and data each padded to a multiple of 4 (the reader consumes the padding; a missing pad derails the next
magic), and after the last file comes the `TRAILER!!!` entry. `sizes` = the header's file sizes. -/
def cpioCheck (sizes : List Nat) : Nat → List FileExp → Bytes → Option CpioErr
  | _, [], bs =>
    match Cpio.readerNew sizes bs with
    | .ok (.cpio e, _, _) => if e.name = trailerName then none else some .trailer
    | _ => some .trailer
  | i, f :: fs, bs =>
    match Cpio.readerNew sizes bs with
    | .ok (.cpio e, fileSize, r) =>
      if e.name ≠ f.name then some .order
      else if fileSize ≠ f.size ∨ e.mode ≠ f.mode then some .entry
      else match Cpio.readData fileSize r with
        | .ok (_, r') => cpioCheck sizes (i + 1) fs r'
        | _ => some .entry
    | .ok (.stripped idx, fileSize, r) =>
      if idx ≠ i then some .order
      else if fileSize ≠ f.size then some .entry
      else match Cpio.readData fileSize r with
        | .ok (_, r') => cpioCheck sizes (i + 1) fs r'
        | _ => some .entry
    | _ => some .entry

/-- result of the cpio rules for a header and the decompressed archive -/
def cpioViolation (h : Header) (arch : Bytes) : Option CpioErr :=
  match headerFiles h with
  | none => some .entry
  | some fs => cpioCheck (fs.map (·.size)) 0 fs arch

/-- `cpio-entry` / `cpio-order` / `cpio-trailer`: the decompressed payload is a well-formed cpio archive
listing exactly the header's files, in header order, with matching names, sizes and modes -/
def CpioValid (h : Header) (arch : Bytes) : Prop := cpioViolation h arch = none

instance (h : Header) (arch : Bytes) : Decidable (CpioValid h arch) := by unfold CpioValid; exact inferInstance

-- compressor names
def sGzip : Bytes := [103, 122, 105, 112]
def sZstd : Bytes := [122, 115, 116, 100]
def sXz : Bytes := [120, 122]
def sBzip2 : Bytes := [98, 122, 105, 112, 50]
def sLzma : Bytes := [108, 122, 109, 97]

/-- leading bytes of a stream of the named compressor -/
def compMagic (name : Bytes) : Option Bytes :=
  if name = sGzip then some [0x1f, 0x8b]
  else if name = sZstd then some [0x28, 0xb5, 0x2f, 0xfd]
  else if name = sXz then some [0xfd, 0x37, 0x7a, 0x58, 0x5a, 0x00]
  else if name = sBzip2 then some [66, 90, 104]
  else if name = sLzma then some [0x5d, 0x00, 0x00]
  else none

/-- `compressor-magic`: the payload starts with the magic of the compressor PAYLOADCOMPRESSOR names.
Without the tag rpm opens the payload with its gzip reader, which also passes plain data through:
the payload then is a gzip stream or a bare cpio archive ("0707"). -/
def CompressorMagic (h : Header) (payload : Bytes) : Prop :=
  match find h tPAYLOADCOMPRESSOR with
  | none => [0x1f, 0x8b] <+: payload ∨ [48, 55, 48, 55] <+: payload
  | some (.str name) =>
    match compMagic name with
    | some m => m <+: payload
    | none => False
  | some _ => False

instance (h : Header) (payload : Bytes) : Decidable (CompressorMagic h payload) := by
  unfold CompressorMagic; split <;> (try split) <;> exact inferInstance

/-- "rpmlib(" ++ feature ++ ")" -/
def rpmlibName (feature : Bytes) : Bytes := [114, 112, 109, 108, 105, 98, 40] ++ feature ++ [41]

def fPayloadIsZstd : Bytes := [80, 97, 121, 108, 111, 97, 100, 73, 115, 90, 115, 116, 100]
def fPayloadIsXz : Bytes := [80, 97, 121, 108, 111, 97, 100, 73, 115, 88, 122]
def fPayloadIsBzip2 : Bytes := [80, 97, 121, 108, 111, 97, 100, 73, 115, 66, 122, 105, 112, 50]
def fPayloadIsLzma : Bytes := [80, 97, 121, 108, 111, 97, 100, 73, 115, 76, 122, 109, 97]
def fFileCaps : Bytes := [70, 105, 108, 101, 67, 97, 112, 115]
def fLargeFiles : Bytes := [76, 97, 114, 103, 101, 70, 105, 108, 101, 115]
def fCompressedFileNames : Bytes :=
  [67, 111, 109, 112, 114, 101, 115, 115, 101, 100, 70, 105, 108, 101, 78, 97, 109, 101, 115]
def fFileDigests : Bytes := [70, 105, 108, 101, 68, 105, 103, 101, 115, 116, 115]
def fPayloadFilesHavePrefix : Bytes :=
  [80, 97, 121, 108, 111, 97, 100, 70, 105, 108, 101, 115, 72, 97, 118, 101, 80, 114, 101, 102, 105, 120]

/-- the rpmlib() features a header *uses*: the payload compressor (zstd / xz / bzip2 / lzma), file
capabilities (FILECAPS present), large files (LONGFILESIZES present), compressed file names (BASENAMES
present), non-MD5 file digests (FILEDIGESTALGO present). `prefixed` = the archive names its files with the
"./" prefix (always the case for archives accepted by `CpioValid` that contain a file). -/
def featuresUsed (h : Header) (prefixed : Bool) : List Bytes :=
  (match strOf h tPAYLOADCOMPRESSOR with
   | some c => if c = sZstd then [fPayloadIsZstd] else if c = sXz then [fPayloadIsXz]
               else if c = sBzip2 then [fPayloadIsBzip2] else if c = sLzma then [fPayloadIsLzma] else []
   | none => []) ++
  (if (find h tFILECAPS).isSome then [fFileCaps] else []) ++
  (if (find h tLONGFILESIZES).isSome then [fLargeFiles] else []) ++
  (if (find h tBASENAMES).isSome then [fCompressedFileNames] else []) ++
  (if (find h tFILEDIGESTALGO).isSome then [fFileDigests] else []) ++
  (if prefixed then [fPayloadFilesHavePrefix] else [])

/-- `rpmlib`: every feature the package uses is declared as a `rpmlib(…)` requirement -/
def RpmlibDeclared (h : Header) (prefixed : Bool) : Prop :=
  ∀ f ∈ featuresUsed h prefixed, rpmlibName f ∈ (strsOf h tREQUIRENAME).getD []

instance (h : Header) (prefixed : Bool) : Decidable (RpmlibDeclared h prefixed) := by
  unfold RpmlibDeclared; exact inferInstance

/-- files present in a header's file list -/
def hasFiles (h : Header) : Bool := (find h tBASENAMES).isSome

/-! ## whole package -/

/-- **a package as rpm accepts it**: `bytes` are the written package, `p` what they parse to
(`parsePackage bytes = .ok p`), `arch` the decompressed payload -/
structure PackageValid (bytes : Bytes) (p : Package) (arch : Bytes) : Prop where
  lead : LeadValid p.md.lead
  sig : HeaderValid 62 p.md.signature
  hdr : HeaderValid 63 p.md.header
  pad : SigPadding bytes p.md.signature
  magic : CompressorMagic p.md.header p.content
  rpmlib : RpmlibDeclared p.md.header (hasFiles p.md.header)
  cpio : CpioValid p.md.header arch

theorem packageValid_iff (bytes : Bytes) (p : Package) (arch : Bytes) : PackageValid bytes p arch ↔
    (LeadValid p.md.lead ∧ HeaderValid 62 p.md.signature ∧ HeaderValid 63 p.md.header ∧
     SigPadding bytes p.md.signature ∧ CompressorMagic p.md.header p.content ∧
     RpmlibDeclared p.md.header (hasFiles p.md.header) ∧ CpioValid p.md.header arch) :=
  ⟨fun v => ⟨v.lead, v.sig, v.hdr, v.pad, v.magic, v.rpmlib, v.cpio⟩,
   fun ⟨a, b, c, d, e, f, g⟩ => ⟨a, b, c, d, e, f, g⟩⟩

instance (bytes : Bytes) (p : Package) (arch : Bytes) : Decidable (PackageValid bytes p arch) :=
  decidable_of_iff _ (packageValid_iff bytes p arch).symm

/-- name of the first violated rule (diagnostics; the verdict is `decide (PackageValid …)`) -/
def firstViolation (bytes : Bytes) (p : Package) (arch : Bytes) : Option String :=
  if ¬ LeadValid p.md.lead then some "lead"
  else match headerViolation 62 p.md.signature with
  | some r => some r
  | none => match headerViolation 63 p.md.header with
    | some r => some r
    | none =>
      if ¬ SigPadding bytes p.md.signature then some "sig-padding"
      else if ¬ CompressorMagic p.md.header p.content then some "compressor-magic"
      else if ¬ RpmlibDeclared p.md.header (hasFiles p.md.header) then some "rpmlib"
      else (cpioViolation p.md.header arch).map CpioErr.name

/-! ## foreign packages (rpm-built): what rpm guarantees about archive vs header

A package rpm built may omit `%ghost` files from the archive, store hard-link sets with the content on the
last member only, name files without the "./" prefix (source packages), and old ones carry MD5 digests.
For such packages the header rules, the padding, the compressor magic and the rpmlib rule are checked as
above (`prefixed` = what the archive actually does); of the cpio rules only this is demanded: the archive is a
well-formed sequence of newc entries up to `TRAILER!!!`, every entry names a file of the header (with or
without the prefix), the files appear in header order, modes agree, and sizes agree except on members of a
hard-link set that carry no data. -/

def stripPrefix (name : Bytes) : Bytes :=
  match name with
  | 46 :: 47 :: r => 47 :: r
  | _ => name

/-- index ≥ `from` of the header file an archive name denotes: "." ++ path, or the path itself
(source packages: the base name) -/
def findFile (fs : List FileExp) (start : Nat) (name : Bytes) : Option Nat :=
  let cands := [name, [46] ++ name, [46, 47] ++ name]
  ((fs.zipIdx).find? fun x => x.2 ≥ start && cands.contains x.1.name).map (·.2)

def cpioCheckForeign (sizes : List Nat) (fs : List FileExp) : Nat → Nat → Bytes → Option CpioErr
  | 0, _, _ => some .trailer
  | fuel + 1, start, bs =>
    match Cpio.readerNew sizes bs with
    | .ok (.cpio e, fileSize, r) =>
      if e.name = trailerName then none else
      match findFile fs start e.name with
      | none => some .order
      | some i =>
        match fs[i]? with
        | none => some .order
        | some f =>
          if e.mode % 65536 ≠ f.mode then some .entry
          else if fileSize ≠ f.size ∧ ¬ (e.nlink > 1 ∧ fileSize = 0) then some .entry
          else match Cpio.readData fileSize r with
            | .ok (_, r') => cpioCheckForeign sizes fs fuel (i + 1) r'
            | _ => some .entry
    | .ok (.stripped idx, fileSize, r) =>
      if idx < start ∨ idx ≥ fs.length then some .order
      else match Cpio.readData fileSize r with
        | .ok (_, r') => cpioCheckForeign sizes fs fuel (idx + 1) r'
        | _ => some .entry
    | _ => some .entry

def cpioViolationForeign (h : Header) (arch : Bytes) : Option CpioErr :=
  match headerFiles h with
  | none => some .entry
  | some fs => cpioCheckForeign (fs.map (·.size)) fs (fs.length + 1) 0 arch

/-- does the archive name its first file with the "./" prefix? -/
def archivePrefixed (arch : Bytes) : Bool :=
  match Cpio.readerNew [] arch with
  | .ok (.cpio e, _, _) => e.name ≠ trailerName && (e.name.take 2 == [46, 47])
  | _ => false

structure ForeignValid (bytes : Bytes) (p : Package) (arch : Bytes) : Prop where
  lead : LeadValid p.md.lead
  sig : HeaderValid 62 p.md.signature
  hdr : HeaderValid 63 p.md.header
  pad : SigPadding bytes p.md.signature
  magic : CompressorMagic p.md.header p.content
  rpmlib : RpmlibDeclared p.md.header (archivePrefixed arch)
  cpio : cpioViolationForeign p.md.header arch = none

instance (bytes : Bytes) (p : Package) (arch : Bytes) : Decidable (ForeignValid bytes p arch) :=
  decidable_of_iff (LeadValid p.md.lead ∧ HeaderValid 62 p.md.signature ∧ HeaderValid 63 p.md.header ∧
     SigPadding bytes p.md.signature ∧ CompressorMagic p.md.header p.content ∧
     RpmlibDeclared p.md.header (archivePrefixed arch) ∧ cpioViolationForeign p.md.header arch = none)
  ⟨fun ⟨a, b, c, d, e, f, g⟩ => ⟨a, b, c, d, e, f, g⟩, fun v => ⟨v.lead, v.sig, v.hdr, v.pad, v.magic, v.rpmlib, v.cpio⟩⟩

def firstViolationForeign (bytes : Bytes) (p : Package) (arch : Bytes) : Option String :=
  if ¬ LeadValid p.md.lead then some "lead"
  else match headerViolation 62 p.md.signature with
  | some r => some r
  | none => match headerViolation 63 p.md.header with
    | some r => some r
    | none =>
      if ¬ SigPadding bytes p.md.signature then some "sig-padding"
      else if ¬ CompressorMagic p.md.header p.content then some "compressor-magic"
      else if ¬ RpmlibDeclared p.md.header (archivePrefixed arch) then some "rpmlib"
      else (cpioViolationForeign p.md.header arch).map CpioErr.name

end RpmVerif.RpmValid
