import RpmVerif.Model.Header
import RpmVerif.Spec.RpmTagTypes
/-!
# Spec for C09: rpm's structural rules as decidable propositions

A transcription of what rpm enforces when it loads a package (`lib/header.c`: `hdrblobInit`,
`hdrblobVerifyRegion`, `hdrblobVerifyInfo`; `lib/rpmlead.c`; `lib/cpio.c`; `lib/rpmds.c` rpmlib() table),
restricted to the rules the property lists.  Everything is a decidable `Prop` over the parsed structures of
`Model/Header.lean` (the parser itself checks the magics, the header version, `type ≤ 9` and that index
and store have the announced sizes), so that the same definitions are the subject of the theorems in
`Props/C09.lean` and, through `decide`, the validator the driver runs on the bytes of every emitted package.

Every rule has a stable short name (`firstViolation`): `lead`, `intro-sizes`, `region`, `tags-ascending`,
`type`, `count-zero`, `alignment`, `string-term`, `range`, `overlap`, `sig-limits`, `tag-type`, `sig-padding`, `compressor-magic`,
`payload-flags`, `rpmlib`, `cpio-entry`, `cpio-order`, `cpio-trailer`, and — judged last, so that they never hide another rule —
`rpmlib-tilde`, `rpmlib-caret`, `rpmlib-rich`, `rpmlib-interp-args`.

Numbers (tag values, limits, magics) are written out here as rpm defines them — they are NOT taken from the
tables generated from rpm-rs, so that a wrong constant in rpm-rs is a failure, not an agreement.

Transcription choices (stated precisely because there is no rpm binary here to cross-check; the only
external check is that all rpm-built packages in /repo/test_assets are judged valid):
* every non-region entry: `tag ≥ 100` (`hdrchkTag`: `tag < HEADER_I18NTABLE` is rejected — this holds for
  signature headers too, whose tags are 256.. and 1000..) and `tag ≠ regionTag`;
* `type ∈ 1..9` (`RPM_MIN_TYPE = 1`; type 0 has data length 0, which `len <= 0` rejects anyway);
* `count ≥ 1`; STRING entries have `count = 1` (`dataLength` returns -1 otherwise);
* data must end at or before the region trailer (rpm checks `end ≤ rdl`, `rdl` being the END of the trailer;
  "non-overlapping" in the property text includes the trailer, so the stricter bound is used);
* tags strictly ascending is a property-level rule (rpm sorts the index on load);
* the signature header obeys the tighter limits of `hdrblobRead` (`il_max = 32`, `dl_max = 64 MiB` for `RPMTAG_HEADERSIGNATURES`);
* the main header's known tags carry the data type of rpm's tag table (`hdrchkTagType`, Spec/RpmTagTypes.lean); rpm does not
  type-check signature headers;
* the cpio archive is read by an INDEPENDENT transcription of the newc format as rpm reads it (`rpmcpioHeaderRead`), not by the model
  of rpm-rs' own reader: numeric fields are exactly eight hexadecimal digits (rpm-rs' `u32::from_str_radix` would also take `+1234567`);
* rpmlib() features: the nine of the first version plus the four rpmbuild adds from the CONTENT of dependencies and scriptlets
  (build/pack.c `haveCharInDep('~')` / `('^')`, `haveRichDep`; build/parseScript.c: an interpreter with arguments).
-/
namespace RpmVerif.RpmValid
open RpmVerif RpmVerif.Hdr

/-! ## lead -/

/-- `rpmLeadRead`: major 3 (rpm accepts 3 and 4; packages are written with 3), type binary (0) or
source (1), signature type `RPMSIGTYPE_HEADERSIG` = 5. (The magic is checked by the parser.) -/
def LeadValid (l : Lead) : Prop := l.major = 3 ∧ (l.ptype = 0 ∨ l.ptype = 1) ∧ l.sigtype = 5

instance (l : Lead) : Decidable (LeadValid l) := by unfold LeadValid; exact inferInstance

/-! ## header -/

/-- `typeAlign[]` of `header.c`, indexed by type -/
def typeAlign : Nat → Nat
  | 3 => 2 | 4 => 4 | 5 => 8 | _ => 1

/-- length, including the terminator, of the NUL-terminated string at the start of `bs`;
`none` when the bytes end before a NUL (`strtaglen` returning -1) -/
def strLen : Bytes → Option Nat
  | [] => none
  | b :: r => if b = 0 then some 1 else (strLen r).map (· + 1)

/-- total length of `k` consecutive NUL-terminated strings -/
def stringsLen : Nat → Bytes → Option Nat
  | 0, _ => some 0
  | k + 1, bs =>
    match strLen bs with
    | none => none
    | some n => (stringsLen k (bs.drop n)).map (n + ·)

/-- `dataLength(type, store + off, count, …, store + dl)`: `none` = -1 (illegal type, unterminated string) -/
def dataLen (store : Bytes) (off ty cnt : Nat) : Option Nat :=
  match ty with
  | 1 => some cnt | 2 => some cnt | 7 => some cnt
  | 3 => some (2 * cnt) | 4 => some (4 * cnt) | 5 => some (8 * cnt)
  | 6 => strLen (store.drop off)
  | 8 => stringsLen cnt (store.drop off)
  | 9 => stringsLen cnt (store.drop off)
  | _ => none

/-- data length of an entry inside `store` -/
def entryLen (store : Bytes) (e : Entry) : Option Nat := dataLen store e.off e.data.typeCode e.cnt

/-- the entries after the leading region entry -/
def body (h : Header) : List Entry := h.entries.drop 1

/-- offset of the region trailer = upper bound for all other data -/
def limit (h : Header) : Nat := h.dataSize - 16

/-- `intro-sizes`: `il` is the number of index entries, `1 ≤ il ≤ 65535`; `dl` is the size of the store,
`dl < 256 MiB` (`hdrchkTags`, `hdrchkData`) -/
def IntroSizes (h : Header) : Prop :=
  h.nEntries = h.entries.length ∧ 1 ≤ h.nEntries ∧ h.nEntries ≤ 65535 ∧
  h.dataSize = h.store.length ∧ h.dataSize < 268435456

/-- the 16 bytes of a region trailer: an index entry (tag, BIN, −16·il, 16), offset in two's complement -/
def trailerBytes (rt il : Nat) : Bytes := be32 rt ++ be32 7 ++ be32 (4294967296 - 16 * il) ++ be32 16

/-- `region`: the first entry is (regionTag, BIN, count 16) whose data are the last 16 bytes of the store
(`offset + 16 = dl`: in package files the region covers the whole header) and these bytes are the trailer
pointing back over exactly `il` entries -/
def RegionOk (rt : Nat) (h : Header) : Prop :=
  match h.entries with
  | [] => False
  | e :: _ => e.tag = rt ∧ e.data.typeCode = 7 ∧ e.cnt = 16 ∧ e.off + 16 = h.dataSize ∧
      (h.store.drop e.off).take 16 = trailerBytes rt h.nEntries

/-- `tags-ascending`: legal tags, strictly ascending in index order -/
def TagsAscending (rt : Nat) (h : Header) : Prop :=
  (∀ e ∈ body h, 100 ≤ e.tag ∧ e.tag ≠ rt) ∧ (body h).Pairwise (fun a b => a.tag < b.tag)

/-- `type` -/
def TypesLegal (h : Header) : Prop := ∀ e ∈ body h, 1 ≤ e.data.typeCode ∧ e.data.typeCode ≤ 9

/-- `count-zero`: no empty entry; a STRING entry holds exactly one string -/
def CountsOk (h : Header) : Prop := ∀ e ∈ body h, 1 ≤ e.cnt ∧ (e.data.typeCode = 6 → e.cnt = 1)

/-- `alignment` -/
def Aligned (h : Header) : Prop := ∀ e ∈ body h, e.off % typeAlign e.data.typeCode = 0

/-- `string-term`: the data length is defined, i.e. every string of the entry is terminated inside the store -/
def StringsTerminated (h : Header) : Prop := ∀ e ∈ body h, (entryLen h.store e).isSome = true

/-- `range`: the offset is inside the data area, the data are non-empty and end before the region trailer -/
def InRange (h : Header) : Prop :=
  ∀ e ∈ body h, e.off ≤ limit h ∧ ∀ len ∈ entryLen h.store e, 0 < len ∧ e.off + len ≤ limit h

/-- each entry starts at or after the end of the previous entry's data -/
def SeqFrom (store : Bytes) : Nat → List Entry → Prop
  | _, [] => True
  | start, e :: es => start ≤ e.off ∧ SeqFrom store (e.off + (entryLen store e).getD 0) es

/-- `overlap`: data laid out in index order without overlap -/
def NoOverlap (h : Header) : Prop := SeqFrom h.store 0 (body h)

/-- **a header as rpm accepts it** -/
structure HeaderValid (rt : Nat) (h : Header) : Prop where
  intro : IntroSizes h
  region : RegionOk rt h
  tags : TagsAscending rt h
  types : TypesLegal h
  counts : CountsOk h
  aligned : Aligned h
  strings : StringsTerminated h
  range : InRange h
  seq : NoOverlap h

instance (h : Header) : Decidable (IntroSizes h) := by unfold IntroSizes; exact inferInstance
instance (rt : Nat) (h : Header) : Decidable (RegionOk rt h) := by
  unfold RegionOk; split <;> exact inferInstance
instance (rt : Nat) (h : Header) : Decidable (TagsAscending rt h) := by unfold TagsAscending; exact inferInstance
instance (h : Header) : Decidable (TypesLegal h) := by unfold TypesLegal; exact inferInstance
instance (h : Header) : Decidable (CountsOk h) := by unfold CountsOk; exact inferInstance
instance (h : Header) : Decidable (Aligned h) := by unfold Aligned; exact inferInstance
instance (h : Header) : Decidable (StringsTerminated h) := by unfold StringsTerminated; exact inferInstance
instance (o : Option Nat) (p : Nat → Prop) [DecidablePred p] : Decidable (∀ x ∈ o, p x) :=
  match o with
  | none => isTrue (fun _ h => by cases h)
  | some x => if hx : p x then isTrue (fun y hy => by cases hy; exact hx) else isFalse (fun h => hx (h x rfl))
instance (h : Header) : Decidable (InRange h) := by unfold InRange; exact inferInstance
def decSeqFrom (store : Bytes) : (start : Nat) → (es : List Entry) → Decidable (SeqFrom store start es)
  | _, [] => isTrue trivial
  | start, e :: es =>
    match Nat.decLe start e.off, decSeqFrom store (e.off + (entryLen store e).getD 0) es with
    | isTrue a, isTrue b => isTrue ⟨a, b⟩
    | isFalse a, _ => isFalse (fun h => a h.1)
    | _, isFalse b => isFalse (fun h => b h.2)
instance (store : Bytes) (start : Nat) (es : List Entry) : Decidable (SeqFrom store start es) := decSeqFrom store start es
instance (h : Header) : Decidable (NoOverlap h) := by unfold NoOverlap; exact inferInstance

theorem headerValid_iff (rt : Nat) (h : Header) : HeaderValid rt h ↔
    (IntroSizes h ∧ RegionOk rt h ∧ TagsAscending rt h ∧ TypesLegal h ∧ CountsOk h ∧ Aligned h ∧
      StringsTerminated h ∧ InRange h ∧ NoOverlap h) :=
  ⟨fun v => ⟨v.intro, v.region, v.tags, v.types, v.counts, v.aligned, v.strings, v.range, v.seq⟩,
   fun ⟨a, b, c, d, e, f, g, i, j⟩ => ⟨a, b, c, d, e, f, g, i, j⟩⟩

instance (rt : Nat) (h : Header) : Decidable (HeaderValid rt h) := decidable_of_iff _ (headerValid_iff rt h).symm

/-- name of the first violated header rule (diagnostics for the driver; `none` ⇔ `HeaderValid`) -/
def headerViolation (rt : Nat) (h : Header) : Option String :=
  if ¬ IntroSizes h then some "intro-sizes"
  else if ¬ RegionOk rt h then some "region"
  else if ¬ TagsAscending rt h then some "tags-ascending"
  else if ¬ TypesLegal h then some "type"
  else if ¬ CountsOk h then some "count-zero"
  else if ¬ Aligned h then some "alignment"
  else if ¬ StringsTerminated h then some "string-term"
  else if ¬ InRange h then some "range"
  else if ¬ NoOverlap h then some "overlap"
  else none

theorem headerViolation_none (rt : Nat) (h : Header) : headerViolation rt h = none ↔ HeaderValid rt h := by
  rw [headerValid_iff]
  unfold headerViolation
  constructor
  · intro hv
    repeat' (split at hv; · cases hv)
    rename_i a b c d e f g i j
    exact ⟨Decidable.not_not.mp a, Decidable.not_not.mp b, Decidable.not_not.mp c, Decidable.not_not.mp d,
      Decidable.not_not.mp e, Decidable.not_not.mp f, Decidable.not_not.mp g, Decidable.not_not.mp i,
      Decidable.not_not.mp j⟩
  · rintro ⟨a, b, c, d, e, f, g, i, j⟩
    simp only [a, b, c, d, e, f, g, i, j, not_true_eq_false, if_false]

/-! ## signature header limits, tag types (main header) -/

/-- `sig-limits`: `hdrblobRead` with `regionTag == RPMTAG_HEADERSIGNATURES`: `il_max = 32`, `dl_max = 64 * 1024 * 1024`
(`hdrchkRange(max, x)` rejects `x > max`) -/
def SigLimits (sig : Header) : Prop := sig.nEntries ≤ 32 ∧ sig.dataSize ≤ 67108864

instance (sig : Header) : Decidable (SigLimits sig) := by unfold SigLimits; exact inferInstance

/-- `tag-type`: every entry of the MAIN header whose tag rpm's tag table knows carries the table's data type
(`hdrblobVerifyInfo`: `typechk && hdrchkTagType(info.tag, info.type)`; `typechk` is off for signature headers) -/
def TagTypesOk (h : Header) : Prop := ∀ e ∈ body h, tagTypeOk e.tag e.data.typeCode = true

instance (h : Header) : Decidable (TagTypesOk h) := by unfold TagTypesOk; exact inferInstance

/-! ## signature header padding -/

/-- `sig-padding`: the signature header (intro 16 bytes + 16·il + dl, starting after the 96-byte lead) is
followed by `(8 − dl mod 8) mod 8` zero bytes, so that the main header starts at a multiple of 8 -/
def SigPadding (bytes : Bytes) (sig : Header) : Prop :=
  let stop := 96 + (16 + 16 * sig.nEntries + sig.dataSize)
  let pad := (8 - sig.dataSize % 8) % 8
  (bytes.drop stop).take pad = List.replicate pad 0 ∧ (stop + pad) % 8 = 0 ∧ stop + pad ≤ bytes.length

instance (bytes : Bytes) (sig : Header) : Decidable (SigPadding bytes sig) := by
  unfold SigPadding; exact inferInstance

/-! ## payload -/

/-- data of the first entry carrying `tag` -/
def find (h : Header) (tag : Nat) : Option IndexData := (h.entries.find? (·.tag == tag)).map (·.data)

def strsOf (h : Header) (tag : Nat) : Option (List Bytes) :=
  match find h tag with | some (.strArray l) => some l | _ => none
def strOf (h : Header) (tag : Nat) : Option Bytes :=
  match find h tag with | some (.str s) => some s | _ => none
def u16sOf (h : Header) (tag : Nat) : Option (List Nat) :=
  match find h tag with | some (.int16 l) => some l | _ => none
def u32sOf (h : Header) (tag : Nat) : Option (List Nat) :=
  match find h tag with | some (.int32 l) => some l | _ => none
def u64sOf (h : Header) (tag : Nat) : Option (List Nat) :=
  match find h tag with | some (.int64 l) => some l | _ => none

-- rpm's tag numbers (rpmtag.h)
def tBASENAMES : Nat := 1117
def tDIRNAMES : Nat := 1118
def tDIRINDEXES : Nat := 1116
def tFILESIZES : Nat := 1028
def tLONGFILESIZES : Nat := 5008
def tFILEMODES : Nat := 1030
def tREQUIRENAME : Nat := 1049
def tPAYLOADCOMPRESSOR : Nat := 1125
def tPAYLOADFLAGS : Nat := 1126
def tFILECAPS : Nat := 5010
def tFILEDIGESTALGO : Nat := 5011

/-- what the archive must say about one file -/
structure FileExp where
  name : Bytes     -- cpio name: "." ++ dirname ++ basename
  size : Nat
  mode : Nat
  deriving DecidableEq, Repr

/-- zip the per-file arrays; `none` when lengths differ or a directory index is out of range -/
def mkFiles (dirs : List Bytes) : List Bytes → List Nat → List Nat → List Nat → Option (List FileExp)
  | [], [], [], [] => some []
  | b :: bs, i :: is, s :: ss, m :: ms =>
    match dirs[i]?, mkFiles dirs bs is ss ms with
    | some d, some r => some (⟨[46] ++ (d ++ b), s, m⟩ :: r)
    | _, _ => none
  | _, _, _, _ => none

/-- the file list of a header: BASENAMES / DIRNAMES / DIRINDEXES (rpm's compressed file names), sizes from
LONGFILESIZES when present, else FILESIZES, modes from FILEMODES. No BASENAMES = no files. -/
def headerFiles (h : Header) : Option (List FileExp) :=
  match strsOf h tBASENAMES with
  | none => some []
  | some bases =>
    match strsOf h tDIRNAMES, u32sOf h tDIRINDEXES, u16sOf h tFILEMODES,
          (match u64sOf h tLONGFILESIZES with | some l => some l | none => u32sOf h tFILESIZES) with
    | some dirs, some idx, some modes, some sizes => mkFiles dirs bases idx sizes modes
    | _, _, _, _ => none

inductive CpioErr where
  | entry | order | trailer
  deriving DecidableEq, Repr

def CpioErr.name : CpioErr → String
  | .entry => "cpio-entry" | .order => "cpio-order" | .trailer => "cpio-trailer"

/-- "TRAILER!!!" -/
def trailerName : Bytes := [84, 82, 65, 73, 76, 69, 82, 33, 33, 33]

/-! ### the newc format as rpm reads it (`lib/cpio.c`: `rpmcpioHeaderRead`, `GET_NUM_FIELD`, `rpmcpioReadPad`)

An independent transcription — nothing below refers to `Model/Cpio.lean`, the model of rpm-rs' own reader and writer, so that a change
made symmetrically in rpm-rs' writer and reader still fails here. An entry is the 6-byte magic `070701` (newc) or `070702` (crc), thirteen
numeric fields of EXACTLY eight hexadecimal digits (ino, mode, uid, gid, nlink, mtime, filesize, devmajor, devminor, rdevmajor, rdevminor,
namesize, check), `namesize` bytes of name ending in NUL (`1 ≤ namesize ≤ 4096`: rpm rejects `nameSize <= 0 || nameSize > 4096`), padding
to a multiple of 4 counted from the start of the entry, `filesize` bytes of data, padding to a multiple of 4.  rpm's own large-file form is
the magic `07070X`, one eight-digit field (the index of the file in the header) and padding to 16 bytes. -/

/-- value of one hexadecimal digit, either case -/
def hexDigit? (b : UInt8) : Option Nat :=
  if 48 ≤ b.toNat ∧ b.toNat ≤ 57 then some (b.toNat - 48)
  else if 97 ≤ b.toNat ∧ b.toNat ≤ 102 then some (b.toNat - 87)
  else if 65 ≤ b.toNat ∧ b.toNat ≤ 70 then some (b.toNat - 55)
  else none

/-- a numeric field: exactly eight hexadecimal digits — no sign, no blank, no `0x` -/
def hexField : Bytes → Option Nat
  | [a, b, c, d, e, f, g, h] => do
    let a ← hexDigit? a; let b ← hexDigit? b; let c ← hexDigit? c; let d ← hexDigit? d
    let e ← hexDigit? e; let f ← hexDigit? f; let g ← hexDigit? g; let h ← hexDigit? h
    pure (a * 268435456 + b * 16777216 + c * 1048576 + d * 65536 + e * 4096 + f * 256 + g * 16 + h)
  | _ => none

/-- read one numeric field off the stream -/
def rdField (bs : Bytes) : Option (Nat × Bytes) := (hexField (bs.take 8)).map fun n => (n, bs.drop 8)

/-- skip `n` bytes that must be there -/
def skipN (n : Nat) (bs : Bytes) : Option Bytes := if n ≤ bs.length then some (bs.drop n) else none

/-- bytes needed to reach the next multiple of 4 -/
def pad4 (n : Nat) : Nat := (4 - n % 4) % 4

/-- what an archive entry header says -/
inductive ArchEntry where
  | newc (name : Bytes) (mode nlink size : Nat)
  | stripped (idx : Nat)
  deriving DecidableEq, Repr

/-- one entry header: the entry and the stream after the header and its padding -/
def readEntry (bs : Bytes) : Option (ArchEntry × Bytes) :=
  if bs.take 6 = [48, 55, 48, 55, 48, 49] ∨ bs.take 6 = [48, 55, 48, 55, 48, 50] then do
    let (_, r) ← rdField (bs.drop 6)        -- ino
    let (mode, r) ← rdField r
    let (_, r) ← rdField r                  -- uid
    let (_, r) ← rdField r                  -- gid
    let (nlink, r) ← rdField r
    let (_, r) ← rdField r                  -- mtime
    let (size, r) ← rdField r
    let (_, r) ← rdField r                  -- devmajor
    let (_, r) ← rdField r                  -- devminor
    let (_, r) ← rdField r                  -- rdevmajor
    let (_, r) ← rdField r                  -- rdevminor
    let (namesize, r) ← rdField r
    let (_, r) ← rdField r                  -- check
    if namesize = 0 ∨ 4096 < namesize ∨ r.length < namesize then none
    else if (r.take namesize).getLast? ≠ some 0 then none
    else do
      let r' ← skipN (pad4 (110 + namesize)) (r.drop namesize)
      pure (.newc ((r.take namesize).takeWhile (· != 0)) mode nlink size, r')
  else if bs.take 6 = [48, 55, 48, 55, 48, 88] then do
    let (idx, r) ← rdField (bs.drop 6)
    let r' ← skipN 2 r
    pure (.stripped idx, r')
  else none

/-- skip the data of an entry and its padding -/
def skipData (size : Nat) (bs : Bytes) : Option Bytes := skipN (size + pad4 size) bs

/-- walk the archive: entry `i` must be a newc entry named like header file `i` with its size and mode (or, in the
stripped form rpm uses for files > 4 GiB, carry the index `i`; its data then have the header's size), header + name
and data each padded to a multiple of 4 (a missing pad derails the next magic), and after the last file comes the
`TRAILER!!!` entry (or rpm's stripped end marker, index ffffffff). -/
def cpioCheck : Nat → List FileExp → Bytes → Option CpioErr
  | _, [], bs =>
    match readEntry bs with
    | some (.newc name _ _ _, _) => if name = trailerName then none else some .trailer
    | some (.stripped idx, _) => if idx = 4294967295 then none else some .trailer
    | none => some .trailer
  | i, f :: fs, bs =>
    match readEntry bs with
    | some (.newc name mode _ size, r) =>
      if name ≠ f.name then some .order
      else if size ≠ f.size ∨ mode ≠ f.mode then some .entry
      else match skipData size r with
        | some r' => cpioCheck (i + 1) fs r'
        | none => some .entry
    | some (.stripped idx, r) =>
      if idx ≠ i then some .order
      else match skipData f.size r with
        | some r' => cpioCheck (i + 1) fs r'
        | none => some .entry
    | none => some .entry

/-- result of the cpio rules for a header and the decompressed archive -/
def cpioViolation (h : Header) (arch : Bytes) : Option CpioErr :=
  match headerFiles h with
  | none => some .entry
  | some fs => cpioCheck 0 fs arch

/-- `cpio-entry` / `cpio-order` / `cpio-trailer`: the decompressed payload is a well-formed cpio archive
listing exactly the header's files, in header order, with matching names, sizes and modes -/
def CpioValid (h : Header) (arch : Bytes) : Prop := cpioViolation h arch = none

instance (h : Header) (arch : Bytes) : Decidable (CpioValid h arch) := by unfold CpioValid; exact inferInstance

-- compressor names
def sGzip : Bytes := [103, 122, 105, 112]
def sZstd : Bytes := [122, 115, 116, 100]
def sXz : Bytes := [120, 122]
def sBzip2 : Bytes := [98, 122, 105, 112, 50]
def sLzma : Bytes := [108, 122, 109, 97]

/-- leading bytes of a stream of the named compressor -/
def compMagic (name : Bytes) : Option Bytes :=
  if name = sGzip then some [0x1f, 0x8b]
  else if name = sZstd then some [0x28, 0xb5, 0x2f, 0xfd]
  else if name = sXz then some [0xfd, 0x37, 0x7a, 0x58, 0x5a, 0x00]
  else if name = sBzip2 then some [66, 90, 104]
  else if name = sLzma then some [0x5d, 0x00, 0x00]
  else none

/-- `compressor-magic`: the payload starts with the magic of the compressor PAYLOADCOMPRESSOR names.
Without the tag rpm opens the payload with its gzip reader, which also passes plain data through:
the payload then is a gzip stream or a bare cpio archive ("0707"). -/
def CompressorMagic (h : Header) (payload : Bytes) : Prop :=
  match find h tPAYLOADCOMPRESSOR with
  | none => [0x1f, 0x8b] <+: payload ∨ [48, 55, 48, 55] <+: payload
  | some (.str name) =>
    match compMagic name with
    | some m => m <+: payload
    | none => False
  | some _ => False

instance (h : Header) (payload : Bytes) : Decidable (CompressorMagic h payload) := by
  unfold CompressorMagic; split <;> (try split) <;> exact inferInstance

/-- `payload-flags`: PAYLOADFLAGS, when present, is a plain STRING entry. rpm reads PAYLOADCOMPRESSOR / PAYLOADFLAGS with
`headerGetString`, which answers NULL for any other type (a STRING_ARRAY compressor name would silently mean "gzip"; that case is
already rejected by `CompressorMagic`). rpm never interprets the text when it reads a package (it opens the payload with
`"r." + compressor`), and its own packages carry `""`, `"2"`, `"19"`, `"19T0"`: nothing is demanded of the text. -/
def PayloadFlagsOk (h : Header) : Prop :=
  match find h tPAYLOADFLAGS with
  | none => True
  | some (.str _) => True
  | some _ => False

instance (h : Header) : Decidable (PayloadFlagsOk h) := by
  unfold PayloadFlagsOk; split <;> exact inferInstance

/-- "rpmlib(" ++ feature ++ ")" -/
def rpmlibName (feature : Bytes) : Bytes := [114, 112, 109, 108, 105, 98, 40] ++ feature ++ [41]

def fPayloadIsZstd : Bytes := [80, 97, 121, 108, 111, 97, 100, 73, 115, 90, 115, 116, 100]
def fPayloadIsXz : Bytes := [80, 97, 121, 108, 111, 97, 100, 73, 115, 88, 122]
def fPayloadIsBzip2 : Bytes := [80, 97, 121, 108, 111, 97, 100, 73, 115, 66, 122, 105, 112, 50]
def fPayloadIsLzma : Bytes := [80, 97, 121, 108, 111, 97, 100, 73, 115, 76, 122, 109, 97]
def fFileCaps : Bytes := [70, 105, 108, 101, 67, 97, 112, 115]
def fLargeFiles : Bytes := [76, 97, 114, 103, 101, 70, 105, 108, 101, 115]
def fCompressedFileNames : Bytes :=
  [67, 111, 109, 112, 114, 101, 115, 115, 101, 100, 70, 105, 108, 101, 78, 97, 109, 101, 115]
def fFileDigests : Bytes := [70, 105, 108, 101, 68, 105, 103, 101, 115, 116, 115]
def fPayloadFilesHavePrefix : Bytes :=
  [80, 97, 121, 108, 111, 97, 100, 70, 105, 108, 101, 115, 72, 97, 118, 101, 80, 114, 101, 102, 105, 120]
/-- "TildeInVersions", "CaretInVersions", "RichDependencies", "ScriptletInterpreterArgs" -/
def fTildeInVersions : Bytes := [84, 105, 108, 100, 101, 73, 110, 86, 101, 114, 115, 105, 111, 110, 115]
def fCaretInVersions : Bytes := [67, 97, 114, 101, 116, 73, 110, 86, 101, 114, 115, 105, 111, 110, 115]
def fRichDependencies : Bytes := [82, 105, 99, 104, 68, 101, 112, 101, 110, 100, 101, 110, 99, 105, 101, 115]
def fScriptletInterpreterArgs : Bytes :=
  [83, 99, 114, 105, 112, 116, 108, 101, 116, 73, 110, 116, 101, 114, 112, 114, 101, 116, 101, 114, 65, 114, 103, 115]

/-- the strings of a STRING_ARRAY entry, `[]` when the tag is absent (or of another type) -/
def strsAt (h : Header) (tag : Nat) : List Bytes := (strsOf h tag).getD []

/-- `depevrtags[]` of build/pack.c: PROVIDEVERSION, REQUIREVERSION, OBSOLETEVERSION, CONFLICTVERSION, ORDERVERSION, TRIGGERVERSION,
SUGGESTVERSION, ENHANCEVERSION, RECOMMENDVERSION, SUPPLEMENTVERSION -/
def depEvrTags : List Nat := [1113, 1050, 1115, 1055, 5036, 1067, 5050, 5056, 5047, 5053]

/-- `haveCharInDep(pkg, c)`: some dependency version contains the character (every package provides itself, so a `~` / `^` in its
own version or release is seen here too) -/
def evrHasChar (h : Header) (c : UInt8) : Bool := depEvrTags.any fun t => (strsAt h t).any fun v => v.contains c

/-- the dependency kinds `haveRichDep` looks at: REQUIRENAME, RECOMMENDNAME, SUGGESTNAME, SUPPLEMENTNAME, ENHANCENAME, CONFLICTNAME -/
def richNameTags : List Nat := [1049, 5046, 5049, 5052, 5055, 1054]

/-- `haveRichDep(pkg)`: a dependency whose name starts with "(" (`rpmdsIsRich`) -/
def hasRichDep (h : Header) : Bool := richNameTags.any fun t => (strsAt h t).any fun n => n.head? == some 40

/-- the interpreter tags of the package scriptlets: PREINPROG, POSTINPROG, PREUNPROG, POSTUNPROG, VERIFYSCRIPTPROG, PRETRANSPROG,
POSTTRANSPROG, PREUNTRANSPROG, POSTUNTRANSPROG -/
def progTags : List Nat := [1085, 1086, 1087, 1088, 1091, 1153, 1154, 5105, 5106]

/-- build/parseScript.c: `progArgc > 1` — an interpreter entry that holds more than the program (rpm writes a lone interpreter as a
STRING, one with arguments as a STRING_ARRAY, and then adds the feature) -/
def hasInterpArgs (h : Header) : Bool := progTags.any fun t => decide (1 < (strsAt h t).length)

/-- the rpmlib() features rpmbuild derives from the CONTENT of dependencies and scriptlets -/
def contentFeatures (h : Header) : List Bytes :=
  (if evrHasChar h 126 then [fTildeInVersions] else []) ++
  (if evrHasChar h 94 then [fCaretInVersions] else []) ++
  (if hasRichDep h then [fRichDependencies] else []) ++
  (if hasInterpArgs h then [fScriptletInterpreterArgs] else [])

/-- the rpmlib() features a header uses because of its STRUCTURE: the payload compressor (zstd / xz / bzip2 / lzma), file
capabilities (FILECAPS present), large files (LONGFILESIZES present), compressed file names (BASENAMES
present), non-MD5 file digests (FILEDIGESTALGO present). `prefixed` = the archive names its files with the
"./" prefix (always the case for archives accepted by `CpioValid` that contain a file). -/
def structFeatures (h : Header) (prefixed : Bool) : List Bytes :=
  (match strOf h tPAYLOADCOMPRESSOR with
   | some c => if c = sZstd then [fPayloadIsZstd] else if c = sXz then [fPayloadIsXz]
               else if c = sBzip2 then [fPayloadIsBzip2] else if c = sLzma then [fPayloadIsLzma] else []
   | none => []) ++
  (if (find h tFILECAPS).isSome then [fFileCaps] else []) ++
  (if (find h tLONGFILESIZES).isSome then [fLargeFiles] else []) ++
  (if (find h tBASENAMES).isSome then [fCompressedFileNames] else []) ++
  (if (find h tFILEDIGESTALGO).isSome then [fFileDigests] else []) ++
  (if prefixed then [fPayloadFilesHavePrefix] else [])

/-- **the rpmlib() features a header uses** (what rpmbuild would declare for it): structure, then content -/
def featuresUsed (h : Header) (prefixed : Bool) : List Bytes := structFeatures h prefixed ++ contentFeatures h

/-- is the feature among the header's `rpmlib(…)` requirements -/
def declared (h : Header) (f : Bytes) : Bool := (strsAt h tREQUIRENAME).contains (rpmlibName f)

/-- `rpmlib`: every feature the package uses is declared as a `rpmlib(…)` requirement -/
def RpmlibDeclared (h : Header) (prefixed : Bool) : Prop :=
  ∀ f ∈ featuresUsed h prefixed, rpmlibName f ∈ strsAt h tREQUIRENAME

instance (h : Header) (prefixed : Bool) : Decidable (RpmlibDeclared h prefixed) := by
  unfold RpmlibDeclared; exact inferInstance

/-- the same for a sub-list of the features (diagnostics: which kind is missing) -/
def allDeclared (h : Header) (fs : List Bytes) : Bool := fs.all (declared h)

/-- name of the rule a missing content feature is reported under -/
def contentRuleName (f : Bytes) : String :=
  if f = fTildeInVersions then "rpmlib-tilde" else if f = fCaretInVersions then "rpmlib-caret"
  else if f = fRichDependencies then "rpmlib-rich" else "rpmlib-interp-args"

/-- first content feature that is used but not declared -/
def contentViolation (h : Header) : Option String :=
  ((contentFeatures h).find? fun f => !declared h f).map contentRuleName

/-- files present in a header's file list -/
def hasFiles (h : Header) : Bool := (find h tBASENAMES).isSome

/-! ## whole package -/

/-- **a package as rpm accepts it**: `bytes` are the written package, `p` what they parse to
(`parsePackage bytes = .ok p`), `arch` the decompressed payload -/
structure PackageValid (bytes : Bytes) (p : Package) (arch : Bytes) : Prop where
  lead : LeadValid p.md.lead
  sig : HeaderValid 62 p.md.signature
  siglim : SigLimits p.md.signature
  hdr : HeaderValid 63 p.md.header
  tagtypes : TagTypesOk p.md.header
  pad : SigPadding bytes p.md.signature
  magic : CompressorMagic p.md.header p.content
  flags : PayloadFlagsOk p.md.header
  rpmlib : RpmlibDeclared p.md.header (hasFiles p.md.header)
  cpio : CpioValid p.md.header arch

theorem packageValid_iff (bytes : Bytes) (p : Package) (arch : Bytes) : PackageValid bytes p arch ↔
    (LeadValid p.md.lead ∧ HeaderValid 62 p.md.signature ∧ SigLimits p.md.signature ∧ HeaderValid 63 p.md.header ∧
     TagTypesOk p.md.header ∧ SigPadding bytes p.md.signature ∧ CompressorMagic p.md.header p.content ∧
     PayloadFlagsOk p.md.header ∧ RpmlibDeclared p.md.header (hasFiles p.md.header) ∧ CpioValid p.md.header arch) :=
  ⟨fun v => ⟨v.lead, v.sig, v.siglim, v.hdr, v.tagtypes, v.pad, v.magic, v.flags, v.rpmlib, v.cpio⟩,
   fun ⟨a, b, c, d, e, f, g, h, i, j⟩ => ⟨a, b, c, d, e, f, g, h, i, j⟩⟩

instance (bytes : Bytes) (p : Package) (arch : Bytes) : Decidable (PackageValid bytes p arch) :=
  decidable_of_iff _ (packageValid_iff bytes p arch).symm

/-- the rules about header bytes and payload start that built and foreign packages share, in the order they are reported -/
def commonViolation (bytes : Bytes) (p : Package) : Option String :=
  if ¬ LeadValid p.md.lead then some "lead"
  else match headerViolation 62 p.md.signature with
  | some r => some r
  | none =>
    if ¬ SigLimits p.md.signature then some "sig-limits"
    else match headerViolation 63 p.md.header with
    | some r => some r
    | none =>
      if ¬ TagTypesOk p.md.header then some "tag-type"
      else if ¬ SigPadding bytes p.md.signature then some "sig-padding"
      else if ¬ CompressorMagic p.md.header p.content then some "compressor-magic"
      else if ¬ PayloadFlagsOk p.md.header then some "payload-flags"
      else none

/-- name of the first violated rule (diagnostics; the verdict is `decide (PackageValid …)`). The four content features come LAST:
a package that breaks another rule as well is reported under that rule. -/
def firstViolation (bytes : Bytes) (p : Package) (arch : Bytes) : Option String :=
  match commonViolation bytes p with
  | some r => some r
  | none =>
    if !allDeclared p.md.header (structFeatures p.md.header (hasFiles p.md.header)) then some "rpmlib"
    else match cpioViolation p.md.header arch with
    | some e => some e.name
    | none => contentViolation p.md.header

/-! ## foreign packages (rpm-built): what rpm guarantees about archive vs header

A package rpm built may omit `%ghost` files from the archive, store hard-link sets with the content on the
last member only, name files without the "./" prefix (source packages), and old ones carry MD5 digests.
For such packages the header rules, the limits, the tag types, the padding, the compressor magic, the flags and the rpmlib rule are
checked as above (`prefixed` = what the archive actually does); of the cpio rules only this is demanded: the archive is a
well-formed sequence of newc entries up to `TRAILER!!!`, every entry names a file of the header (with or
without the prefix), the files appear in header order, modes agree, and sizes agree except on members of a
hard-link set that carry no data. -/

/-- index ≥ `from` of the header file an archive name denotes: "." ++ path, or the path itself
(source packages: the base name) -/
def findFile (fs : List FileExp) (start : Nat) (name : Bytes) : Option Nat :=
  let cands := [name, [46] ++ name, [46, 47] ++ name]
  ((fs.zipIdx).find? fun x => x.2 ≥ start && cands.contains x.1.name).map (·.2)

def cpioCheckForeign (fs : List FileExp) : Nat → Nat → Bytes → Option CpioErr
  | 0, _, _ => some .trailer
  | fuel + 1, start, bs =>
    match readEntry bs with
    | some (.newc name mode nlink size, r) =>
      if name = trailerName then none else
      match findFile fs start name with
      | none => some .order
      | some i =>
        match fs[i]? with
        | none => some .order
        | some f =>
          if mode % 65536 ≠ f.mode then some .entry
          else if size ≠ f.size ∧ ¬ (nlink > 1 ∧ size = 0) then some .entry
          else match skipData size r with
            | some r' => cpioCheckForeign fs fuel (i + 1) r'
            | none => some .entry
    | some (.stripped idx, r) =>
      if idx = 4294967295 then none
      else if idx < start then some .order
      else match fs[idx]? with
        | none => some .order
        | some f => match skipData f.size r with
          | some r' => cpioCheckForeign fs fuel (idx + 1) r'
          | none => some .entry
    | none => some .entry

def cpioViolationForeign (h : Header) (arch : Bytes) : Option CpioErr :=
  match headerFiles h with
  | none => some .entry
  | some fs => cpioCheckForeign fs (fs.length + 1) 0 arch

/-- does the archive name its first file with the "./" prefix? -/
def archivePrefixed (arch : Bytes) : Bool :=
  match readEntry arch with
  | some (.newc name _ _ _, _) => name ≠ trailerName && (name.take 2 == [46, 47])
  | _ => false

structure ForeignValid (bytes : Bytes) (p : Package) (arch : Bytes) : Prop where
  lead : LeadValid p.md.lead
  sig : HeaderValid 62 p.md.signature
  siglim : SigLimits p.md.signature
  hdr : HeaderValid 63 p.md.header
  tagtypes : TagTypesOk p.md.header
  pad : SigPadding bytes p.md.signature
  magic : CompressorMagic p.md.header p.content
  flags : PayloadFlagsOk p.md.header
  rpmlib : RpmlibDeclared p.md.header (archivePrefixed arch)
  cpio : cpioViolationForeign p.md.header arch = none

instance (bytes : Bytes) (p : Package) (arch : Bytes) : Decidable (ForeignValid bytes p arch) :=
  decidable_of_iff (LeadValid p.md.lead ∧ HeaderValid 62 p.md.signature ∧ SigLimits p.md.signature ∧ HeaderValid 63 p.md.header ∧
     TagTypesOk p.md.header ∧ SigPadding bytes p.md.signature ∧ CompressorMagic p.md.header p.content ∧
     PayloadFlagsOk p.md.header ∧ RpmlibDeclared p.md.header (archivePrefixed arch) ∧ cpioViolationForeign p.md.header arch = none)
  ⟨fun ⟨a, b, c, d, e, f, g, h, i, j⟩ => ⟨a, b, c, d, e, f, g, h, i, j⟩,
   fun v => ⟨v.lead, v.sig, v.siglim, v.hdr, v.tagtypes, v.pad, v.magic, v.flags, v.rpmlib, v.cpio⟩⟩

def firstViolationForeign (bytes : Bytes) (p : Package) (arch : Bytes) : Option String :=
  match commonViolation bytes p with
  | some r => some r
  | none =>
    if !allDeclared p.md.header (structFeatures p.md.header (archivePrefixed arch)) then some "rpmlib"
    else match cpioViolationForeign p.md.header arch with
    | some e => some e.name
    | none => contentViolation p.md.header

end RpmVerif.RpmValid
