import RpmVerif.Model.Header
import RpmVerif.Spec.Canon
/-!
# Spec for C03: which digests a package records, what they must equal, what the verdict must be

Written independently of the getter / `verify_digests` models (it imports only the data types of the
header model and the raw-byte helpers of `Spec/Canon.lean`).

**Reading of "every digest the package records in its standard tags".** A digest is *recorded* when
the FIRST index entry carrying the tag holds data of the tag's type:

* `RPMSIGTAG_MD5` (signature header, BIN): MD5 over header ++ payload, compared as raw bytes;
* `RPMSIGTAG_SHA1`, `RPMSIGTAG_SHA256` (signature header, STRING): over the header; the recorded TEXT is
  compared with the lower-case hex text of the recomputed digest. An upper-case, truncated, padded or
  otherwise re-formatted text is *not* in the don't-care region: the property says "equals the digest
  recomputed", the tag holds text, and text that is not the canonical rendering is not equal to it —
  verification must fail with a mismatch (rpm itself writes and compares lower-case hex);
* `RPMTAG_PAYLOADDIGEST` (main header, STRING_ARRAY; its first string) together with
  `RPMTAG_PAYLOADDIGESTALGO` (main header, INT32; its first number): over the payload, with the algorithm
  the number names. Only SHA-256 is supported; the number is taken from the generated `DigestAlgorithm` table.

**Don't-care region** (`dontcare`; the property text is silent, any outcome is accepted):
1. one of the five tags is present but its first entry has another data type than the standard one
   (this includes an I18NSTRING payload digest — which the code happens to read — and an INT32 algorithm
   entry with zero elements);
2. `RPMTAG_PAYLOADDIGEST` without `RPMTAG_PAYLOADDIGESTALGO` or vice versa;
3. a `RPMTAG_PAYLOADDIGEST` array with zero strings (a digest tag that records no digest: "matches
   vacuously" and "cannot match" are both defensible; the code says mismatch);
4. one of the five tags occurs more than once in its header (rpm rejects such headers; "the digest the
   package records" presupposes one).
`Recorded` is nevertheless defined on the whole space (first entry wins, I18N accepted, an empty array is
a record without value) so that the theorems of `Props/C03.lean` describe the model everywhere.
-/
namespace RpmVerif.DigestSpec
open RpmVerif.Hdr RpmVerif.Gen RpmVerif.Canon

/-- the three hash functions (raw digest bytes) — parameters of everything below -/
structure Hashes where
  md5 : Bytes → Bytes
  sha1 : Bytes → Bytes
  sha256 : Bytes → Bytes

/-! ## lower-case hexadecimal text -/
def hexDigits : List UInt8 := [48, 49, 50, 51, 52, 53, 54, 55, 56, 57, 97, 98, 99, 100, 101, 102]  -- "0123456789abcdef"

def hexText : Bytes → Bytes
  | [] => []
  | b :: r => hexDigits.getD (b.toNat / 16) 0 :: hexDigits.getD (b.toNat % 16) 0 :: hexText r

/-! ## what is recorded -/

/-- data of the first index entry carrying `tag` -/
def firstData : List Entry → Nat → Option IndexData
  | [], _ => none
  | e :: r, tag => if e.tag = tag then some e.data else firstData r tag

inductive Which where
  | md5 | sha1 | sha256
  | payload (algo : Nat)
  deriving DecidableEq, Repr

/-- a recorded digest: which one, and the declared value (raw bytes for MD5, text bytes otherwise);
`none` = the payload digest tag is there (with its algorithm) but holds no string -/
structure Rec where
  which : Which
  declared : Option Bytes
  deriving DecidableEq, Repr

def recMd5 (sig : Header) : List Rec :=
  match firstData sig.entries SigTag.RPMSIGTAG_MD5 with
  | some (.bin d) => [⟨.md5, some d⟩]
  | _ => []

def recSha1 (sig : Header) : List Rec :=
  match firstData sig.entries SigTag.RPMSIGTAG_SHA1 with
  | some (.str s) => [⟨.sha1, some s⟩]
  | _ => []

def recSha256 (sig : Header) : List Rec :=
  match firstData sig.entries SigTag.RPMSIGTAG_SHA256 with
  | some (.str s) => [⟨.sha256, some s⟩]
  | _ => []

def recPayload (hdr : Header) : List Rec :=
  match firstData hdr.entries IndexTag.RPMTAG_PAYLOADDIGEST, firstData hdr.entries IndexTag.RPMTAG_PAYLOADDIGESTALGO with
  | some (.strArray l), some (.int32 (a :: _)) => [⟨.payload a, l.head?⟩]
  | some (.i18n l), some (.int32 (a :: _)) => [⟨.payload a, l.head?⟩]
  | _, _ => []

/-- the recorded digests, in the order md5, sha1, sha256, payload -/
def Recorded (p : Package) : List Rec :=
  recMd5 p.md.signature ++ recSha1 p.md.signature ++ recSha256 p.md.signature ++ recPayload p.md.header

/-- the algorithm can be recomputed by `verify_digests`: only SHA-256 (number from the generated table) -/
def Supported : Which → Prop
  | .payload a => ("Sha2_256", a) ∈ digestAlgoTable
  | _ => True

instance : DecidablePred Supported := fun w => by
  cases w <;> simp only [Supported] <;> infer_instance

/-- the digest recomputed from the package: the serialised main header and the payload bytes -/
def recompute (H : Hashes) (p : Package) : Which → Bytes
  | .md5 => H.md5 (writeHeader p.md.header ++ p.content)
  | .sha1 => hexText (H.sha1 (writeHeader p.md.header))
  | .sha256 => hexText (H.sha256 (writeHeader p.md.header))
  | .payload _ => hexText (H.sha256 p.content)

/-- a record is fine: supported algorithm and the declared value equals the recomputed one -/
def Rec.good (H : Hashes) (p : Package) (r : Rec) : Prop :=
  Supported r.which ∧ r.declared = some (recompute H p r.which)

/-- a record of a supported algorithm whose declared value differs -/
def Rec.differs (H : Hashes) (p : Package) (r : Rec) : Prop :=
  Supported r.which ∧ r.declared ≠ some (recompute H p r.which)

instance (H : Hashes) (p : Package) : DecidablePred (Rec.good H p) := fun r => by
  unfold Rec.good; infer_instance
instance (H : Hashes) (p : Package) : DecidablePred (Rec.differs H p) := fun r => by
  unfold Rec.differs; infer_instance

/-! ## the same byte ranges, located in the RAW package bytes (independent of any parser model) -/

/-- start of the main header: lead, signature header, its padding -/
def rawHdrStart (bs : Bytes) : Nat := 96 + hdrLen (bs.drop 96) + sigPadOf (bs.drop 96)
/-- the main header's bytes in canonical form (reserved intro bytes zero, as rpm hashes them) -/
def rawHeader (bs : Bytes) : Bytes :=
  let h := bs.drop (rawHdrStart bs)
  zeroReserved (h.take (hdrLen h))
/-- everything after the main header -/
def rawContent (bs : Bytes) : Bytes :=
  let h := bs.drop (rawHdrStart bs)
  h.drop (hdrLen h)

def recomputeRaw (H : Hashes) (bs : Bytes) : Which → Bytes
  | .md5 => H.md5 (rawHeader bs ++ rawContent bs)
  | .sha1 => hexText (H.sha1 (rawHeader bs))
  | .sha256 => hexText (H.sha256 (rawHeader bs))
  | .payload _ => hexText (H.sha256 (rawContent bs))

/-! ## the verdict the property demands -/

/-- observable outcome classes of `verify_digests` -/
inductive Obs where
  | ok | mismatch | otherErr | panic
  deriving DecidableEq, Repr

/-- `judgeWith rc recs o`: is outcome `o` what the property demands, given the records and their recomputed values?
* nothing unsupported, nothing differs → success, and only success;
* something differs, nothing unsupported → the digest-mismatch error, and only that;
* an unsupported payload algorithm → an error of any class (mismatch included: another digest may differ
  as well and the text does not order the checks), never success;
* a panic is never acceptable. -/
def judgeWith (rc : Which → Bytes) (recs : List Rec) (o : Obs) : Bool :=
  let unsup := recs.any fun r => !decide (Supported r.which)
  let differs := recs.any fun r => decide (Supported r.which) && decide (r.declared ≠ some (rc r.which))
  match o with
  | .panic => false
  | .ok => !unsup && !differs
  | .mismatch => differs || unsup
  | .otherErr => unsup

def judge (H : Hashes) (p : Package) (o : Obs) : Bool := judgeWith (recompute H p) (Recorded p) o

/-! ## don't-care region -/
def countTag (es : List Entry) (tag : Nat) : Nat := (es.filter fun e => e.tag = tag).length

def dontcare (p : Package) : Bool :=
  let sig := p.md.signature.entries
  let hdr := p.md.header.entries
  let md5 := firstData sig SigTag.RPMSIGTAG_MD5
  let s1 := firstData sig SigTag.RPMSIGTAG_SHA1
  let s256 := firstData sig SigTag.RPMSIGTAG_SHA256
  let pd := firstData hdr IndexTag.RPMTAG_PAYLOADDIGEST
  let pa := firstData hdr IndexTag.RPMTAG_PAYLOADDIGESTALGO
  -- 1. wrong data type
  (match md5 with | some (.bin _) => false | none => false | _ => true)
  || (match s1 with | some (.str _) => false | none => false | _ => true)
  || (match s256 with | some (.str _) => false | none => false | _ => true)
  || (match pd with | some (.strArray _) => false | none => false | _ => true)
  || (match pa with | some (.int32 (_ :: _)) => false | none => false | _ => true)
  -- 2. one of the pair without the other
  || (pd.isSome != pa.isSome)
  -- 3. digest array without strings
  || (match pd with | some (.strArray []) => true | _ => false)
  -- 4. duplicated digest tags
  || countTag sig SigTag.RPMSIGTAG_MD5 > 1 || countTag sig SigTag.RPMSIGTAG_SHA1 > 1
  || countTag sig SigTag.RPMSIGTAG_SHA256 > 1
  || countTag hdr IndexTag.RPMTAG_PAYLOADDIGEST > 1 || countTag hdr IndexTag.RPMTAG_PAYLOADDIGESTALGO > 1

end RpmVerif.DigestSpec
