/-!
# Spec for C20 — what the property text demands of a timestamp conversion

Stated on the *floor* `f` (whole seconds since 1970-01-01T00:00:00Z) of the instant alone, and on
plain integers: it does not mention the model's functions or types.

* `0 ≤ f < 2³²`  → the conversion yields exactly `f`
* `f < 0`        → underflow            (the instant lies before the epoch)
* `f ≥ 2³²`      → overflow
* never a panic; and for two converted instants `t₁ ≤ t₂` the results are ordered `a ≤ b`.

The judging functions below work on the canonical wire observations
`ok <n> | underflow | overflow | panic | unrepresentable`.
-/
namespace RpmVerif.TimestampSpec

/-- what the property demands for an instant whose floor is `f` -/
inductive Expect where
  | value (n : Nat)
  | underflow
  | overflow
  deriving Repr, DecidableEq

def expect (f : Int) : Expect :=
  if f < 0 then .underflow else if f < 4294967296 then .value f.toNat else .overflow

def Expect.wire : Expect → String
  | .value n => "ok " ++ toString n | .underflow => "underflow" | .overflow => "overflow"

/-- class of a mismatch, for the verdict (`fails:<class>`) -/
def Expect.cls : Expect → String
  | .value _ => "inexact" | .underflow => "underflow-missed" | .overflow => "overflow-missed"

/-- verdict on one observation for an instant with floor `f` -/
def judge (f : Int) (obs : String) : String :=
  if obs == "unrepresentable" then "dontcare"
  else if obs == "panic" then "fails:panic"
  else if obs == (expect f).wire then "holds"
  else "fails:" ++ (expect f).cls

/-- verdict on a reading INSIDE the leap second that follows second `f` (23:59:60.x when `f` is a 23:59:59): the text asks
for "whole seconds since 1970-01-01T00:00:00Z", the type's documentation adds "not counting leap seconds". Well inside the
range two answers are defensible — the second the reading hangs on (`f`: chrono's `timestamp()`, the usual "repeat :59"
convention) and the next one (`f + 1`: the POSIX normalisation of `:60`) — nothing else is (not `f + 2`, not `f − 1`, not an
error). At the two ends of the range the text decides: the reading is an instant EARLIER than second `f + 1`, so when
`f + 1` is the epoch it is "an earlier instant" (underflow, not 0), and when `f` is the last second of the range the
number "lies in 0..2^32" (the value, not overflow). Never a panic. -/
def judgeLeap (f : Int) (obs : String) : String :=
  if obs == "unrepresentable" then "dontcare"
  else if obs == "panic" then "fails:panic"
  else if obs == (expect f).wire then "holds"
  else if 0 ≤ f && f + 1 < 4294967296 && obs == (expect (f + 1)).wire then "holds"
  else "fails:leap"

/-- `ok <n>` → `n` -/
def okValue (obs : String) : Option Nat :=
  match obs.splitOn " " with
  | ["ok", n] => n.toNat?
  | _ => none

/-- verdict on a pair of observations for instants compared as `(secs, nanos)` pairs:
    whenever both converted, the results must be ordered like the instants -/
def judgePair (s1 : Int) (n1 : Nat) (s2 : Int) (n2 : Nat) (o1 o2 : String) : String :=
  if o1 == "unrepresentable" || o2 == "unrepresentable" then "dontcare"
  else if o1 == "panic" || o2 == "panic" then "fails:panic"
  else match okValue o1, okValue o2 with
    | some a, some b =>
      let le12 := s1 < s2 || (s1 == s2 && n1 ≤ n2)
      let le21 := s2 < s1 || (s2 == s1 && n2 ≤ n1)
      if (le12 && !(a ≤ b)) || (le21 && !(b ≤ a)) then "fails:order" else "holds"
    | _, _ => "holds"   -- the ordering clause only speaks about instants that both convert

end RpmVerif.TimestampSpec
