/-!
# Spec: the (script, flags, program) tag triples of rpm's scriptlets

Transcribed from rpm's `include/rpm/rpmtag.h` (not from /repo): `%pre` … `%postuntrans` and `%verifyscript`.
The code's own constants (`PREIN_TAGS` … `POSTUNTRANS_TAGS` of src/constants.rs) are scraped into
`Gen.scriptletTags`; `C05.scriptlet_tags_standard` proves the two tables equal, and the C05 driver predicts the
scriptlet accessors from THIS table, so a triple that drifts in the code shows as a failing input
(seed C05-13: `POSTUNTRANS_TAGS` with `RPMTAG_PREUNTRANSFLAGS` as its flags tag).
-/
namespace RpmVerif.Spec

def stdScriptletTags : List (String × Nat × Nat × Nat) :=
  [("PREIN_TAGS", 1023, 5020, 1085),        -- RPMTAG_PREIN, RPMTAG_PREINFLAGS, RPMTAG_PREINPROG
   ("POSTIN_TAGS", 1024, 5021, 1086),
   ("PREUN_TAGS", 1025, 5022, 1087),
   ("POSTUN_TAGS", 1026, 5023, 1088),
   ("PRETRANS_TAGS", 1151, 5024, 1153),
   ("POSTTRANS_TAGS", 1152, 5025, 1154),
   ("VERIFYSCRIPT_TAGS", 1079, 5026, 1091),
   ("PREUNTRANS_TAGS", 5103, 5107, 5105),
   ("POSTUNTRANS_TAGS", 5104, 5108, 5106)]

end RpmVerif.Spec
