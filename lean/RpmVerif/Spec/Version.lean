import RpmVerif.Model.Vercmp
/-!
# Spec side of C15: for which component values must the textual forms round-trip?

The property text: "for all component values that a real package can carry (names may contain '-'
and '.', releases may contain '.', the epoch may be empty)". The guards below exclude only values
whose text is *inherently ambiguous* in the N-[E:]V-R.A format (the excluded shapes print the same
text as another component tuple, or need the ':' of a release to be told from the epoch separator;
see the counterexamples in `Props/C15.lean`), and all
of them are values rpm itself refuses in a spec file (':' and '-' are illegal in Version / Release,
the epoch is a number, architectures come from a fixed table of identifiers without '.', '-', ':').
They are the weakest possible ones: `Props/C15.lean` proves `round trip ↔ guard` for each of the five forms
(`evr_roundtrip_iff`, `evr_normalized_roundtrip_iff`, `nevra_roundtrip_iff`, `nevra_normalized_roundtrip_iff`,
`nevra_nvra_roundtrip_iff`), so nothing that round-trips is excluded.
The name is unconstrained (it may contain '-', '.', ':' and may even be empty).

':' = 58, '-' = 45, '.' = 46.  Independent of the model in `Model/Version.lean` (imports only the
`Evr` / `Nevra` structures).
-/
namespace RpmVerif.VersionSpec
open RpmVerif.Vercmp

/-- `Evr::to_string` round-trips exactly for these values:
* ':' ∉ epoch   — the epoch is read up to the FIRST ':'   (`("1:2","3","4")` prints like `("1","2:3","4")`)
* '-' ∉ version — the version is read up to the FIRST '-' (`("","1-2","3")` prints like `("","1","2-3")`)
* with an empty epoch nothing is printed for it, so a ':' anywhere in version or release would be
  read as the epoch separator (`("","1:2","3")` prints like `("1","2","3")`; `("","1","2:3")` prints "1-2:3", read
  back as `("1-2","3","")`).
  With a non-empty epoch a ':' in version / release is harmless (only the first ':' splits).
The release is otherwise arbitrary ('-', '.' allowed), the epoch may contain '-'. -/
def EvrGuard (e : Evr) : Prop :=
  58 ∉ e.epoch ∧ 45 ∉ e.version ∧ (e.epoch = [] → 58 ∉ e.version ∧ 58 ∉ e.release)

/-- the normalized form always prints an epoch, so the ':' caveat on version / release disappears -/
def EvrNormGuard (e : Evr) : Prop := 58 ∉ e.epoch ∧ 45 ∉ e.version

/-- `Nevra::to_string` round-trips for these values; the NAME is unconstrained.
* '-' ∉ epoch, version, release, arch — the name ends at the second-to-last '-' of the whole text, so
  after the name exactly one '-' may follow (`("a","","1","2-3","x")` prints like `("a-1","","2","3","x")`)
* ':' ∉ epoch — as for `Evr`
* '.' ∉ arch — the arch is read from the LAST '.' (`("a","","1","2","x.y")` prints like `("a","","1","2.x","y")`);
  the arch may be empty, the release may contain '.'
* with an empty epoch: ':' ∉ version, release, arch — as for `Evr` (`("a","","1","2","x:y")` prints "a-1-2.x:y",
  read back as `("a","1-2.x","y","","")`) -/
def NevraGuard (n : Nevra) : Prop :=
  45 ∉ n.evr.epoch ∧ 58 ∉ n.evr.epoch ∧ 45 ∉ n.evr.version ∧ 45 ∉ n.evr.release ∧ 45 ∉ n.arch ∧ 46 ∉ n.arch ∧
  (n.evr.epoch = [] → 58 ∉ n.evr.version ∧ 58 ∉ n.evr.release ∧ 58 ∉ n.arch)

/-- for `Nevra::as_normalized_form` (an epoch is always printed) -/
def NevraNormGuard (n : Nevra) : Prop :=
  45 ∉ n.evr.epoch ∧ 58 ∉ n.evr.epoch ∧ 45 ∉ n.evr.version ∧ 45 ∉ n.evr.release ∧ 45 ∉ n.arch ∧ 46 ∉ n.arch

/-- for `Nevra::nvra` (no epoch is ever printed, whatever the epoch is) -/
def NvraGuard (n : Nevra) : Prop :=
  45 ∉ n.evr.version ∧ 45 ∉ n.evr.release ∧ 45 ∉ n.arch ∧ 46 ∉ n.arch ∧
  58 ∉ n.evr.version ∧ 58 ∉ n.evr.release ∧ 58 ∉ n.arch

instance (e : Evr) : Decidable (EvrGuard e) := by unfold EvrGuard; infer_instance
instance (e : Evr) : Decidable (EvrNormGuard e) := by unfold EvrNormGuard; infer_instance
instance (n : Nevra) : Decidable (NevraGuard n) := by unfold NevraGuard; infer_instance
instance (n : Nevra) : Decidable (NevraNormGuard n) := by unfold NevraNormGuard; infer_instance
instance (n : Nevra) : Decidable (NvraGuard n) := by unfold NvraGuard; infer_instance

theorem EvrGuard.norm {e : Evr} (h : EvrGuard e) : EvrNormGuard e := ⟨h.1, h.2.1⟩
theorem NevraGuard.norm {n : Nevra} (h : NevraGuard n) : NevraNormGuard n :=
  ⟨h.1, h.2.1, h.2.2.1, h.2.2.2.1, h.2.2.2.2.1, h.2.2.2.2.2.1⟩

end RpmVerif.VersionSpec
