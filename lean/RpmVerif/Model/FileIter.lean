import RpmVerif.Model.Cpio
/-!
# `FileIterator::next` (src/rpm/package.rs) as a state machine — also AFTER an error item

```rust
fn next(&mut self) -> Option<Self::Item> {
    if self.count >= self.file_entries.len() { return None; }
    self.count += 1;
    let reader = payload::Reader::new(&mut self.archive, &self.file_entries);
    match reader {
        Ok(mut entry_reader) => {
            if entry_reader.is_trailer() { return None; }
            let Some(index) = entry_reader.file_index(&self.file_entries) else { return Some(Err(..)) };
            ..
            if let Err(e) = entry_reader.read_to_end(&mut content) { return Some(Err(Error::Io(e))); }
            if let Err(e) = entry_reader.finish() { return Some(Err(Error::Io(e))); }
            Some(Ok(RpmFile { metadata: file_entry, content }))
        }
        Err(e) => Some(Err(Error::Io(e))),
    }
}
```

The iterator is neither fused nor stopped by an error: after `Some(Err(_))` — and after the `None` of a
trailer — the next call reads on from wherever the failed step left the stream, until `count` reaches
`file_entries.len()`.  `count += 1` precedes the read, so *whatever the stream does* at most
`file_entries.len()` calls get past the guard.

Two layers:

* `next step n` — the guard and the counter over an ARBITRARY stream behaviour `step : σ → Step σ`
  (σ = any state of the `Box<dyn Read>`: a decompressor in the middle of a damaged frame, …).  The
  termination / no-runaway theorems are about this layer, for every `step`.
* `stepMem paths sizes : Bytes → Step Bytes` — the body of `next()` on an in-memory stream (the
  `io::Cursor` of an uncompressed payload), *with the position the stream is left at by every error
  path*: a `read_exact` that comes up short drains the stream (`Cursor::read_exact` puts the cursor at the
  end; so does the default `read_exact` loop), every other error leaves the stream just behind the bytes
  read so far (bad magic: 6 bytes consumed; bad hex field: up to and including that field; entry naming
  no header file: header consumed, data not; data cut short: everything consumed).
  `stepAfter after …` post-composes an arbitrary transformer on the stream left by an error item: the
  existing `iterateE` is the prefix of the items up to the first error for EVERY such transformer
  (Props/C07 `iterateE_is_prefix`).
-/
namespace RpmVerif.FileIter
open RpmVerif.Cpio RpmVerif.Gen

/-! ## reading with the stream position kept on errors -/

/-- a reading step on an in-memory stream: the outcome AND the unread stream it leaves (also on `err`) -/
def Rd (α : Type) : Type := Bytes → Out α × Bytes

namespace Rd
def run {α} (m : Rd α) (bs : Bytes) : Out α × Bytes := m bs
def ret {α} (a : α) : Rd α := fun bs => (.ok a, bs)
def fail {α} (c : String) : Rd α := fun bs => (.err c, bs)
def bind {α β} (m : Rd α) (f : α → Rd β) : Rd β := fun bs =>
  match m bs with
  | (.ok a, r) => f a r
  | (.err c, r) => (.err c, r)
  | (.panic s, r) => (.panic s, r)
instance : Monad Rd where
  pure := ret
  bind := bind

/-- the outcome alone, in the shape of the `Out`-valued readers of Model/Cpio.lean -/
def out {α} (m : Rd α) (bs : Bytes) : Out (α × Bytes) :=
  match m bs with
  | (.ok a, r) => .ok (a, r)
  | (.err c, _) => .err c
  | (.panic s, _) => .panic s
end Rd

/-- `read_exact` of `n` bytes: a short stream is drained and the call fails -/
def exact (n : Nat) : Rd Bytes := fun bs =>
  if n ≤ bs.length then (.ok (bs.take n), bs.drop n) else (.err "eof", [])

/-- `read_hex_u32`: the 8 bytes are consumed also when they are not a hex number -/
def hex8 : Rd Nat := do
  let f ← exact 8
  match parseHex8 f with
  | some n => pure n
  | none => Rd.fail "hex"

/-- `Reader::new(inner, file_entries)` (same branches, same order as `Cpio.readerNew`), keeping the stream -/
def readerNewS (sizes : List Nat) : Rd (PayloadEntry × Nat) := do
  let magic ← exact 6
  if magic = cpioMagicNewc ∨ magic = cpioMagicCrc then
    let ino ← hex8
    let mode ← hex8
    let uid ← hex8
    let gid ← hex8
    let nlink ← hex8
    let mtime ← hex8
    let fileSize ← hex8
    let devMajor ← hex8
    let devMinor ← hex8
    let rdevMajor ← hex8
    let rdevMinor ← hex8
    let nameLen ← hex8
    let checksum ← hex8
    if nameLen > cpioNameLenMax then Rd.fail "name-too-long" else
    let nameBytes ← exact nameLen
    if nameBytes.getLast? ≠ some 0 then Rd.fail "name-not-terminated" else
    let name := stripTrailingNuls nameBytes.dropLast
    if !Utf8.isValid name then Rd.fail "name-utf8" else
    let _ ← exact (padLen (cpioHeaderLen + nameLen))
    pure (.cpio ⟨magic = cpioMagicCrc, name, ino, mode, uid, gid, nlink, mtime, fileSize,
                 devMajor, devMinor, rdevMajor, rdevMinor, checksum⟩, fileSize)
  else if magic = cpioMagicStripped then
    let idx ← hex8
    let _ ← exact (padLen cpioStrippedHeaderLen)
    if idx = 4294967295 then pure (.stripped idx, 0)
    else match sizes[idx]? with
      | some s => pure (.stripped idx, s)
      | none => Rd.fail "stripped-index"
  else Rd.fail "magic"

/-- `read_to_end` through `Reader::read`, then `finish()`: when the stream ends inside the data everything
has been consumed (`io::copy` then skips nothing: `UnexpectedEof`); otherwise the padding is `read_exact` -/
def readDataS (fileSize : Nat) : Rd Bytes := fun r =>
  if (r.take fileSize).length < fileSize then (.err "eof", [])
  else match exact (padLen fileSize) (r.drop fileSize) with
    | (.ok _, r') => (.ok (r.take fileSize), r')
    | (.err c, r') => (.err c, r')
    | (.panic s, r') => (.panic s, r')

/-! ## one call of `next()` past the guard -/

/-- what `next()` hands out: index of the header file whose metadata is attached, the entry, the content -/
abbrev Item := Nat × PayloadEntry × Bytes

/-- the body of `next()` after `count += 1`, over a stream state `σ` -/
inductive Step (σ : Type) where
  /-- `Reader::new` succeeded on a trailer: `return None` (the trailer's data / padding are NOT consumed) -/
  | trailer (s : σ)
  /-- `Some(Ok(_))` / `Some(Err(_))` -/
  | item (o : Out Item) (s : σ)

/-- the body of `next()` on an in-memory stream -/
def stepMem (paths : List Bytes) (sizes : List Nat) (bs : Bytes) : Step Bytes :=
  match readerNewS sizes bs with
  | (.ok (e, fileSize), r) =>
    if isTrailer e then .trailer r else
    match fileIndex paths e with
    | none => .item (.err "no-such-file") r
    | some i =>
      match readDataS fileSize r with
      | (.ok content, r') => .item (.ok (i, e, content)) r'
      | (.err c, r') => .item (.err c) r'
      | (.panic s, r') => .item (.panic s) r'
  | (.err c, r) => .item (.err c) r
  | (.panic s, r) => .item (.panic s) r

/-- `stepMem`, but after an error item the stream is whatever `after` makes of it (position undefined) -/
def stepAfter (after : Bytes → Bytes) (paths : List Bytes) (sizes : List Nat) (bs : Bytes) : Step Bytes :=
  match stepMem paths sizes bs with
  | .item (.ok x) s => .item (.ok x) s
  | .item o s => .item o (after s)
  | .trailer s => .trailer s

/-! ## the iterator -/

/-- `FileIterator`: `count` and the state of `archive` (`file_entries.len()` = `n` is fixed) -/
structure St (σ : Type) where
  count : Nat
  stream : σ

/-- `FileIterator::next` -/
def next {σ} (step : σ → Step σ) (n : Nat) (st : St σ) : Option (Out Item) × St σ :=
  if st.count ≥ n then (none, st)
  else match step st.stream with
    | .trailer s => (none, ⟨st.count + 1, s⟩)
    | .item o s => (some o, ⟨st.count + 1, s⟩)

/-- the answers of `k` successive `next()` calls (the iterator is not fused: calls after a `None` count too) -/
def answers {σ} (step : σ → Step σ) (n : Nat) : Nat → St σ → List (Option (Out Item))
  | 0, _ => []
  | k + 1, st => (next step n st).1 :: answers step n k (next step n st).2

/-- the state after `k` calls -/
def stateAfter {σ} (step : σ → Step σ) (n : Nat) : Nat → St σ → St σ
  | 0, st => st
  | k + 1, st => stateAfter step n k (next step n st).2

/-- what a `for` loop / `collect()` / `count()` sees: the items up to the first `None`, pulling at most
`fuel` times -/
def drain {σ} (step : σ → Step σ) (n : Nat) : Nat → St σ → List (Out Item)
  | 0, _ => []
  | fuel + 1, st =>
    match next step n st with
    | (none, _) => []
    | (some o, st') => o :: drain step n fuel st'

/-- `iter.collect::<Vec<_>>()` on a fresh `files()` iterator: `n + 1` pulls are always enough
(Props/C07 `iterate_terminates`) -/
def collect {σ} (step : σ → Step σ) (n : Nat) (s : σ) : List (Out Item) := drain step n (n + 1) ⟨0, s⟩

/-- the items up to and including the first one that is not `Ok` (where `?` / the harness' `break` stops) -/
def uptoErr {α} : List (Out α) → List (Out α)
  | [] => []
  | .ok a :: r => .ok a :: uptoErr r
  | o :: _ => [o]

/-- `Package::files()` drained by `collect()` on the decompressed, in-memory archive -/
def collectMem (archive : Bytes) (paths : List Bytes) (sizes : List Nat) : List (Out Item) :=
  collect (stepMem paths sizes) sizes.length archive

end RpmVerif.FileIter
