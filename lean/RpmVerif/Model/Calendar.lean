/-!
# The proleptic Gregorian calendar: civil date → day number (core Lean only)

chrono builds a `DateTime` from calendar fields (`NaiveDate::from_ymd_opt`, RFC 3339 text, `with_ymd_and_hms`); what the
property calls "seconds since 1970-01-01T00:00:00Z" of such a value is fixed by the calendar. `daysFromCivil` is the usual
closed form (H. Hinnant, `days_from_civil`); `Props/C20.lean` proves that it is 0 on 1970-01-01 and grows by exactly one from
every valid date to the next (`civil_epoch`, `civil_next_day`), which characterises it.
-/
namespace RpmVerif.Calendar

/-- Gregorian leap year -/
def isLeapYear (y : Int) : Prop := y % 4 = 0 ∧ (y % 100 ≠ 0 ∨ y % 400 = 0)
instance (y : Int) : Decidable (isLeapYear y) := by unfold isLeapYear; exact inferInstance

def daysInMonth (y : Int) (m : Nat) : Nat :=
  if m = 2 then (if isLeapYear y then 29 else 28)
  else if m = 4 ∨ m = 6 ∨ m = 9 ∨ m = 11 then 30 else 31

/-- the year counted from March (so that the leap day is the last day of its year) -/
def shiftedYear (y : Int) (m : Nat) : Int := if m ≤ 2 then y - 1 else y
/-- month counted from March: March = 0 … February = 11 -/
def shiftedMonth (m : Nat) : Int := if m > 2 then (m : Int) - 3 else (m : Int) + 9

/-- days from 0000-03-01 to March 1st of the (shifted) year `Y`: 400-year eras of 146097 days, then 365 days per year plus
one per 4 years minus one per 100 within the era. `/` on `Int` is floor division here (positive divisors), so the formula
holds for negative years too. -/
def yearPart (Y : Int) : Int :=
  (Y / 400) * 146097 + (Y - (Y / 400) * 400) * 365 + (Y - (Y / 400) * 400) / 4 - (Y - (Y / 400) * 400) / 100

/-- days from March 1st to the first of the month `mp` months later (March = 0): 0 31 61 92 122 153 184 214 245 275 306 337 -/
def monthPart (mp : Int) : Int := (153 * mp + 2) / 5

/-- days from 1970-01-01 to the civil date `y-m-d` (negative before it); 719468 = days from 0000-03-01 to 1970-01-01 -/
def daysFromCivil (y : Int) (m d : Nat) : Int :=
  yearPart (shiftedYear y m) + monthPart (shiftedMonth m) + (d : Int) - 1 - 719468

/-- the date after `y-m-d` -/
def nextDay (y : Int) (m d : Nat) : Int × Nat × Nat :=
  if d < daysInMonth y m then (y, m, d + 1) else if m < 12 then (y, m + 1, 1) else (y + 1, 1, 1)

/-- a wall-clock reading: calendar date, time of day, and chrono's sub-second field `frac < 2·10⁹` (from 10⁹ on: a reading
inside a leap second, allowed only on second 59 — `NaiveTime::from_hms_nano_opt`) -/
structure Civil where
  year : Int
  month : Nat
  day : Nat
  hour : Nat
  minute : Nat
  second : Nat
  frac : Nat
  deriving Repr, DecidableEq

/-- what `NaiveDate::from_ymd_opt(y, m, d)?.and_hms_nano_opt(h, mi, s, frac)` accepts (apart from chrono's year range) -/
def Civil.valid (c : Civil) : Prop :=
  1 ≤ c.month ∧ c.month ≤ 12 ∧ 1 ≤ c.day ∧ c.day ≤ daysInMonth c.year c.month
  ∧ c.hour < 24 ∧ c.minute < 60 ∧ c.second < 60 ∧ c.frac < 2000000000 ∧ (1000000000 ≤ c.frac → c.second = 59)
instance (c : Civil) : Decidable c.valid := by unfold Civil.valid; exact inferInstance

/-- whole seconds from 1970-01-01T00:00:00 to the reading, on the same wall clock (leap seconds not counted) -/
def Civil.localSecs (c : Civil) : Int :=
  daysFromCivil c.year c.month c.day * 86400 + (c.hour : Int) * 3600 + (c.minute : Int) * 60 + (c.second : Int)

end RpmVerif.Calendar
