import RpmVerif.Model.Vercmp
import RpmVerif.Gen.CompressionNames
/-!
# Model of `impl Display` / `impl FromStr` for `CompressionType` (`src/rpm/compressor.rs`)

A variant is its declaration index (`variant as usize`), `c < Gen.compressionNumVariants`.
The two `match` tables are generated from the source on every run (`tools/gen/compression_names.py`).
-/
namespace RpmVerif.Compression
open RpmVerif.Vercmp

abbrev numVariants : Nat := Gen.compressionNumVariants

/-- `impl Display`: the `match self` is exhaustive (the Rust compiler checks it; `display_total` in
Props/C15 checks the scraped table), so the default `[]` is never used for a real variant -/
def toStr (c : Nat) : Str := (Gen.compressionDisplay.lookup c).getD []

/-- `impl FromStr`: first matching arm, `_ => Err(UnknownCompressorType)` -/
def fromStr (s : Str) : Out Nat :=
  match Gen.compressionFromStr.lookup s with
  | some v => .ok v
  | none => .err "unknown-compressor"

end RpmVerif.Compression
