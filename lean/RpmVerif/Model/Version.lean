import RpmVerif.Model.Vercmp
/-!
# Model of the textual forms in `src/version.rs`: `parse_values`, `Display`, normalized forms.
Strings are lists of code points (`Str`). ':' = 58, '-' = 45, '.' = 46, '0' = 48.
Every function here is total and pure: `str::split_once`, `rsplit_once`, `rmatch_indices` and `format!` have no
failure mode, and neither have the definitions below (there is no `Out` in this file on purpose).
-/
namespace RpmVerif.Version
open RpmVerif.Vercmp

/-- `str::split_once(c)`: split at the first occurrence of `c` -/
def splitOnce (c : Nat) : Str → Option (Str × Str)
  | [] => none
  | x :: r => if x = c then some ([], r) else
      match splitOnce c r with
      | some (a, b) => some (x :: a, b)
      | none => none

/-- `str::rsplit_once(c)`: split at the last occurrence of `c` -/
def rsplitOnce (c : Nat) : Str → Option (Str × Str)
  | [] => none
  | x :: r =>
      match rsplitOnce c r with
      | some (a, b) => some (x :: a, b)
      | none => if x = c then some ([], r) else none

/-- `Evr::parse_values` -/
def evrParseValues (s : Str) : Str × Str × Str :=
  let (epoch, vr) := (splitOnce 58 s).getD ([], s)
  let (version, release) := (splitOnce 45 vr).getD (vr, [])
  (epoch, version, release)

def Evr.parse (s : Str) : Evr :=
  let (e, v, r) := evrParseValues s
  ⟨e, v, r⟩

/-- `impl Display for Evr` -/
def Evr.toStr (e : Evr) : Str :=
  (if e.epoch.isEmpty then [] else e.epoch ++ [58]) ++ e.version ++ [45] ++ e.release

/-- `Evr::as_normalized_form` -/
def Evr.normalized (e : Evr) : Str :=
  epochOr0 e.epoch ++ [58] ++ e.version ++ [45] ++ e.release

/-- `nevra.rmatch_indices(c).nth(1)` followed by `(&nevra[..i], &nevra[i + 1..])`: split at the
SECOND-TO-LAST occurrence of `c`; `none` when `c` occurs fewer than two times.
(Walking from the left: the tail has no second-to-last `c` exactly when it holds at most one `c`;
then the head is the split point iff it is `c` and the tail holds one.)
No partiality is hidden here: in the Rust code `i` is the byte index of a matched '-', which is
ASCII, so `i` and `i + 1` are char boundaries and `i + 1 ≤ len`; the two slices cannot panic. -/
def rsplitOnce2 (c : Nat) : Str → Option (Str × Str)
  | [] => none
  | x :: r =>
      match rsplitOnce2 c r with
      | some (a, b) => some (x :: a, b)
      | none => if x = c ∧ c ∈ r then some ([], r) else none

/-- `Nevra::parse_values` (source after the fix 1c849b6: the name ends at the second-to-last '-';
with fewer than two dashes the old first-dash split is the fallback) -/
def nevraParseValues (s : Str) : Str × Str × Str × Str × Str :=
  let (name, evra) := match rsplitOnce2 45 s with
    | some (n, r) => (n, r)
    | none => (splitOnce 45 s).getD (s, [])
  let (epoch, vra) := (splitOnce 58 evra).getD ([], evra)
  let (version, ra) := (splitOnce 45 vra).getD (vra, [])
  let (release, arch) := (rsplitOnce 46 ra).getD (ra, [])
  (name, epoch, version, release, arch)

def Nevra.parse (s : Str) : Nevra :=
  let (n, e, v, r, a) := nevraParseValues s
  ⟨n, ⟨e, v, r⟩, a⟩

/-- `impl Display for Nevra` -/
def Nevra.toStr (n : Nevra) : Str := n.name ++ [45] ++ Evr.toStr n.evr ++ [46] ++ n.arch
/-- `Nevra::as_normalized_form` -/
def Nevra.normalized (n : Nevra) : Str := n.name ++ [45] ++ Evr.normalized n.evr ++ [46] ++ n.arch
/-- `Nevra::nvra` -/
def Nevra.nvra (n : Nevra) : Str := n.name ++ [45] ++ n.evr.version ++ [45] ++ n.evr.release ++ [46] ++ n.arch

/-- `rpm_evr_compare` -/
def rpmEvrCompare (s t : Str) : Ordering := (Evr.parse s).cmp (Evr.parse t)

end RpmVerif.Version
