import RpmVerif.Model.Accessors
import RpmVerif.Model.Cpio
import RpmVerif.Model.FileMode
import RpmVerif.Model.Fs
/-!
# What `Package::extract` reads from a package

`extractInput : Package → Fs.Input` is the composition `Package::extract` itself makes (`src/rpm/package.rs`):

* `self.metadata.header.get_entry_data_as_string_array(RPMTAG_DIRNAMES)`            — `Hdr.getStringArray`
* `self.files()`: `get_file_entries()?`                                              — `Acc.getFileEntries`
                  `get_payload_compressor()?`                                        — `Acc.getPayloadCompressorVariant`
                  `decompress_stream(..)`                                            — identity for the variants of
                                                                                       `Gen.decompressIdentity`, otherwise the
                                                                                       archive is a parameter (no codecs here)
* `FileIterator::next` until `None` / the first `Err`                                — `Cpio.iterate` (= `Cpio.iterateE` projected)
* `file.metadata.{path, mode, linkto}`, `file.content` of every `Ok` item            — `itemOf`

There is NO second copy of the read side here (there was one until session 5: `filePaths`, `fileEntries`,
`payloadCompressor`, `readerNew`, `iterate` with literal constants, and a stale SHA-224 digest length): the
accessors are the ones of `Model/Accessors.lean` (theorems of C04 / C05 / C06, differential run of C05), the cpio
reader is the one of `Model/Cpio.lean` (theorems of C07 / C04Readside, differential run of C07), and every constant
comes from the tables `tools/gen_tables.py` scrapes from the source on every run (`Gen.fileDigestHexLen`,
`Gen.CpioConsts`, `Gen.compressionFromStr`, `Gen.payloadCompressorDefault`, `Gen.decompressIdentity`).
`Props/C12.lean` states what `extractInput` is in terms of those models (`input_*`) and carries the theorems about
`Fs.extract` over to packages (`extract_package_*`).
-/
namespace RpmVerif.PkgFiles
open RpmVerif.Hdr RpmVerif.Gen RpmVerif.Fs

/-- `match file.metadata.mode { FileMode::Dir{..} | Regular{..} | SymbolicLink{..} | mode => … }` -/
def kindOf (mode : Nat) : Kind :=
  match FileMode.fromU16 mode with
  | .dir _ => .dir | .regular _ => .regular | .symlink _ => .symlink | .invalid _ => .other

/-- the part of an `RpmFile` that `extract` looks at: metadata of header file `e`, content `c` -/
def itemOfEntry (e : Acc.FileEntry) (c : Bytes) : Item :=
  ⟨e.path, kindOf e.mode, FileMode.permissions (FileMode.fromU16 e.mode), c, e.linkto⟩

/-- `RpmFile { metadata: self.file_entries[index].clone(), content }`; `none` = the index is out of range (the code
would panic there — it cannot happen: `C12.input_index_in_range`) -/
def itemOf (es : List Acc.FileEntry) (i : Nat) (c : Bytes) : Option Item := (es[i]?).map (itemOfEntry · c)

/-- `for file in self.files()? { let file = file?; … }` over what the successive `next()` calls return: the `Ok`
items before the first `Err`, and whether the iteration ends without one -/
def collect (es : List Acc.FileEntry) : List (Out (Nat × Bytes)) → List Item × Bool
  | [] => ([], true)
  | .ok (i, c) :: r =>
    match itemOf es i c with
    | some it => let rest := collect es r; (it :: rest.1, rest.2)
    | none => ([], false)
  | _ :: _ => ([], false)

/-- `decompress_stream` hands the payload back unchanged (`CompressionType::None`) -/
def payloadIsArchive (variant : Nat) : Bool := decompressIdentity.contains variant

/-- `Package::files()` followed by the iteration, on the decompressed archive `a` -/
def itemsOf (es : List Acc.FileEntry) (a : Bytes) : List Item × Bool :=
  collect es (Cpio.iterate a (es.map (·.path)) (es.map (·.size)))

/-- everything `extract` reads. `archive?` replaces the payload when it is compressed (the driver has no
decompressors): the bytes the STREAMING decoder hands out before it stops — the whole archive for an intact payload, a
prefix of it for a damaged or truncated one (`C07.files_chunked_prefix`: the items then are an initial segment of the
intact package's items, followed by an error); `none` as result = the model cannot predict (compressed payload without
archive). `supported` = the codecs compiled into the library (`decompress_stream`'s feature-gated arms): for any other
known compressor `files()` fails with `UnsupportedCompressorType`. -/
def extractInput (p : Package) (archive? : Option Bytes) (supported : Nat → Bool := fun _ => true) : Option Input :=
  let dirnames := (getStringArray p.md.header IndexTag.RPMTAG_DIRNAMES).toOption
  match Acc.getFileEntries p.md.signature p.md.header with
  | .ok es =>
    match Acc.getPayloadCompressorVariant p.md.header with
    | .ok comp =>
      if !supported comp then some ⟨dirnames, [], false⟩ else
      match (if payloadIsArchive comp then some p.content else archive?) with
      | none => none
      | some a => let r := itemsOf es a; some ⟨dirnames, r.1, r.2⟩
    | _ => some ⟨dirnames, [], false⟩
  | _ => some ⟨dirnames, [], false⟩

end RpmVerif.PkgFiles
