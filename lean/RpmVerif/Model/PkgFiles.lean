import RpmVerif.Model.Header
import RpmVerif.Model.FileMode
import RpmVerif.Model.Fs
/-!
# What `Package::extract` reads from a package

Model of `get_file_paths`, `get_file_entries`, `get_payload_compressor` (`src/rpm/package.rs`), of the
cpio reader `payload::Reader::{new, read, finish}` (`src/rpm/payload.rs`) and of `FileIterator::next`,
composed into `extractInput : Package → Fs.Input`.  Executable; validated by the C12 correspondence
(every generated package goes through it), not the subject of a theorem.
-/
namespace RpmVerif.PkgFiles
open RpmVerif.Hdr RpmVerif.Gen RpmVerif.Gen.IndexTag RpmVerif.Fs

/-- result of a typed getter: `Error::TagNotFound` is told apart from every other error -/
inductive Get (α : Type) where
  | ok (a : α)
  | notFound
  | bad
  deriving Repr

def Get.isNotFound {α} : Get α → Bool | .notFound => true | _ => false

/-- `find_entry_or_err`: first entry with the tag -/
def findEntry (h : Header) (tag : Nat) : Option Entry := h.entries.find? (fun e => e.tag == tag)

def getWith {α} (h : Header) (tag : Nat) (f : IndexData → Option α) : Get α :=
  match findEntry h tag with
  | none => .notFound
  | some e => match f e.data with | some a => .ok a | none => .bad

def asStrArray : IndexData → Option (List Bytes) | .strArray l => some l | .i18n l => some l | _ => none
def asU16Array : IndexData → Option (List Nat) | .int16 l => some l | _ => none
def asU32Array : IndexData → Option (List Nat) | .int32 l => some l | _ => none
def asU64Array : IndexData → Option (List Nat) | .int64 l => some l | _ => none
def asStr : IndexData → Option Bytes | .str s => some s | _ => none
def asU32 : IndexData → Option Nat | .int32 (x :: _) => some x | _ => none

/-- `get_file_paths`: `none` = `Err` -/
def filePaths (h : Header) : Option (List Bytes) :=
  match getWith h RPMTAG_BASENAMES asStrArray, getWith h RPMTAG_DIRINDEXES asU32Array, getWith h RPMTAG_DIRNAMES asStrArray with
  | .notFound, .notFound, .notFound => some []
  | .ok bases, .ok idx, .ok dirs =>
    (bases.zip idx).foldl (fun acc (b, i) =>
      match acc, dirs[i]? with
      | some l, some d => some (l ++ [pathJoin d b])
      | _, _ => none) (some [])
  | _, _, _ => none

/-- `DigestAlgorithm::from_u32` then the length table of `FileDigest::new`; `0` = no such algorithm / unsupported -/
def digestLen (algo : Nat) : Nat :=
  if algo = 1 then 32 else if algo = 8 then 64 else if algo = 11 then 60 else if algo = 9 then 96
  else if algo = 10 then 128 else 0

def knownDigestAlgo (a : Nat) : Bool := [1, 8, 9, 10, 11, 12, 14].contains a

/-- one `FileEntry`, as far as `extract` and the cpio reader look at it -/
structure FileEntry where
  path : Bytes
  mode : Nat
  size : Nat
  linkto : Bytes
  deriving Repr

def zip9 : List Bytes → List Bytes → List Bytes → List Nat → List Bytes → List Nat → List Nat → List Nat → List Bytes →
    List (Bytes × Nat × Bytes × Nat × Bytes)
  | p :: ps, _ :: us, _ :: gs, m :: ms, d :: ds, _ :: ts, s :: ss, _ :: fs, l :: ls =>
    (p, m, d, s, l) :: zip9 ps us gs ms ds ts ss fs ls
  | _, _, _, _, _, _, _, _, _ => []

/-- `get_file_entries`: `none` = `Err` -/
def fileEntries (sig h : Header) : Option (List FileEntry) :=
  let algo := match getWith h RPMTAG_FILEDIGESTALGO asU32 with
    | .ok a => if knownDigestAlgo a then a else 1
    | _ => 1
  match getWith h RPMTAG_FILEMODES asU16Array with
  | .notFound => some []
  | modes =>
    let users := getWith h RPMTAG_FILEUSERNAME asStrArray
    let groups := getWith h RPMTAG_FILEGROUPNAME asStrArray
    let digests := getWith h RPMTAG_FILEDIGESTS asStrArray
    let mtimes := getWith h RPMTAG_FILEMTIMES asU32Array
    let sizes := match getWith h RPMTAG_LONGFILESIZES asU64Array with
      | .ok l => Get.ok l
      | _ => getWith h RPMTAG_FILESIZES asU32Array
    let flags := getWith h RPMTAG_FILEFLAGS asU32Array
    match getWith h RPMTAG_FILECAPS asStrArray with
    | .bad => none
    | _ =>
      let links := getWith h RPMTAG_FILELINKTOS asStrArray
      match getWith sig SigTag.RPMSIGTAG_FILESIGNATURES asStrArray with
      | .bad => none
      | _ =>
        match modes, users, groups, digests, mtimes, sizes, flags, links with
        | .ok modes, .ok users, .ok groups, .ok digests, .ok mtimes, .ok sizes, .ok flags, .ok links =>
          match filePaths h with
          | none => none
          | some paths =>
            (zip9 paths users groups modes digests mtimes sizes flags links).foldl (fun acc (x : Bytes × Nat × Bytes × Nat × Bytes) => let (p, m, d, s, l) := x;
              match acc with
              | none => none
              | some es =>
                if d.isEmpty || d.length == digestLen algo then some (es ++ [⟨p, m, s, l⟩]) else none) (some [])
        | _, _, _, _, _, _, _, _ => none

/-- `get_payload_compressor`: `some none` = no compression, `some (some k)` = variant k, `none` = `Err` -/
def payloadCompressor (h : Header) : Option (Option Nat) :=
  match getWith h RPMTAG_PAYLOADCOMPRESSOR asStr with
  | .notFound => some none
  | .bad => none
  | .ok s =>
    if s = [110, 111, 110, 101] then some none           -- "none"
    else if s = [103, 122, 105, 112] then some (some 1)   -- "gzip"
    else if s = [122, 115, 116, 100] then some (some 2)   -- "zstd"
    else if s = [120, 122] then some (some 3)             -- "xz"
    else if s = [98, 122, 105, 112, 50] then some (some 4) -- "bzip2"
    else none

/-! ## cpio -/

def hexDigitVal (b : UInt8) : Option Nat :=
  if 48 ≤ b ∧ b ≤ 57 then some (b.toNat - 48)
  else if 97 ≤ b ∧ b ≤ 102 then some (b.toNat - 87)
  else if 65 ≤ b ∧ b ≤ 70 then some (b.toNat - 55) else none

/-- `u32::from_str_radix(s, 16)` on 8 bytes: an optional `+`, then at least one hex digit -/
def parseHexU32 (bs : Bytes) : Option Nat :=
  let ds := match bs with | 43 :: r => r | _ => bs
  if ds.isEmpty then none else
  ds.foldl (fun acc b => match acc, hexDigitVal b with | some a, some d => some (a * 16 + d) | _, _ => none) (some 0)

/-- `read_hex_u32` -/
def readHexU32 (a : Bytes) : Option (Nat × Bytes) :=
  if a.length < 8 then none else
  match parseHexU32 (a.take 8) with
  | some n => some (n, a.drop 8)
  | none => none

def readHexFields : Nat → Bytes → Option (List Nat × Bytes)
  | 0, a => some ([], a)
  | k + 1, a => match readHexU32 a with
    | none => none
    | some (n, a) => match readHexFields k a with
      | none => none
      | some (ns, a) => some (n :: ns, a)

def padLen (n : Nat) : Nat := (4 - n % 4) % 4

def dropTrailingZeros (bs : Bytes) : Bytes := (bs.reverse.dropWhile (· == 0)).reverse

def trailerName : Bytes := [84, 82, 65, 73, 76, 69, 82, 33, 33, 33]

/-- the header path a cpio entry name stands for (`Reader::file_index`): `"." + path`, or the plain path -/
def namePath : Bytes → Bytes
  | 46 :: 47 :: r => 47 :: r
  | n => n

/-- `Reader::new`: `none` = `Err`; otherwise (is trailer, `Reader::file_index` — the header file the
entry designates: by name, or the index a stripped entry carries —, file size, rest of the archive) -/
def readerNew (entries : List FileEntry) (a : Bytes) : Option (Bool × Option Nat × Nat × Bytes) :=
  if a.length < 6 then none else
  let magic := a.take 6
  let a := a.drop 6
  if magic = [48, 55, 48, 55, 48, 49] ∨ magic = [48, 55, 48, 55, 48, 50] then
    match readHexFields 13 a with
    | some ([_, _, _, _, _, _, fileSize, _, _, _, _, nameLen, _], a) =>
      if nameLen > 4096 then none
      else if a.length < nameLen then none
      else
        let name := a.take nameLen
        let a := a.drop nameLen
        if name.getLast? ≠ some 0 then none else
        let name := dropTrailingZeros name.dropLast
        if !Utf8.isValid name then none else
        let p := padLen (110 + nameLen)
        if a.length < p then none else
        let i := (entries.map (·.path)).idxOf (namePath name)
        some (name == trailerName, if i < entries.length then some i else none, fileSize, a.drop p)
    | _ => none
  else if magic = [48, 55, 48, 55, 48, 88] then
    match readHexU32 a with
    | none => none
    | some (idx, a) =>
      if a.length < 2 then none else
      let a := a.drop 2
      if idx = 4294967295 then some (true, none, 0, a)
      else match entries[idx]? with
        | some e => some (false, some idx, e.size, a)
        | none => none
  else none

def kindOf (mode : Nat) : Kind :=
  match FileMode.fromU16 mode with
  | .dir _ => .dir | .regular _ => .regular | .symlink _ => .symlink | .invalid _ => .other

/-- `FileIterator` (`count = all.length - fuel`): the `Ok` items in order, and whether the iteration then
ends (`true`) or yields an `Err`.  Each item carries the metadata of the header file its archive entry
designates (since `fix: 3cfa908`; by position before); an entry that designates none is an `Err`. -/
def iterate (all : List FileEntry) : Nat → Bytes → List Item × Bool
  | 0, _ => ([], true)
  | fuel + 1, a =>
    match readerNew all a with
    | none => ([], false)
    | some (true, _, _, _) => ([], true)
    | some (false, none, _, _) => ([], false)
    | some (false, some i, size, a) =>
      match all[i]? with
      | none => ([], false)
      | some e =>
      -- `read_to_end` stops early at the end of the archive; `finish` then fails (data or padding missing)
      if a.length < size then ([], false) else
      let content := a.take size
      let a := a.drop size
      if a.length < padLen size then ([], false) else
      let (items, ok) := iterate all fuel (a.drop (padLen size))
      (⟨e.path, kindOf e.mode, FileMode.permissions (FileMode.fromU16 e.mode), content, e.linkto⟩ :: items, ok)

/-- everything `extract` reads. `archive?` replaces the payload when it is compressed (the driver has
no decompressors); `none` as result = the model cannot predict (compressed payload without archive). -/
def extractInput (p : Package) (archive? : Option Bytes) : Option Input :=
  let dirnames := match getWith p.md.header RPMTAG_DIRNAMES asStrArray with | .ok l => some l | _ => none
  match fileEntries p.md.signature p.md.header with
  | none => some ⟨dirnames, [], false⟩
  | some es =>
    match payloadCompressor p.md.header with
    | none => some ⟨dirnames, [], false⟩
    | some comp =>
      let archive := match comp, archive? with
        | none, _ => some p.content
        | some _, some a => some a
        | some _, none => none
      match archive with
      | none => none
      | some a =>
        let (items, ok) := iterate es es.length a
        some ⟨dirnames, items, ok⟩

end RpmVerif.PkgFiles
