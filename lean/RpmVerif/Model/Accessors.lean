import RpmVerif.Model.Getters
import RpmVerif.Model.Compression
import RpmVerif.Gen.FileDigestLen
import RpmVerif.Model.Compression
/-!
# L3: metadata accessors of `PackageMetadata` (src/rpm/package.rs)

Every accessor is a composition of the typed getters; error classes are the getters' (`notfound`,
`wrongtype`) plus `index` (InvalidTagIndex), `enum` (InvalidTagValueEnumVariant),
`unsupported` (UnsupportedDigestAlgorithm), `unknown-compressor` (UnknownCompressorType).
-/
namespace RpmVerif.Acc
open RpmVerif.Hdr RpmVerif.Gen

/-- `Path::new(dir).join(base)` on Unix, on the bytes of the two strings -/
def pathJoin (dir base : Bytes) : Bytes :=
  if base.head? = some 47 then base
  else if dir.isEmpty ∨ dir.getLast? = some 47 then dir ++ base
  else dir ++ [47] ++ base

structure Dependency where
  name : Bytes
  flags : Nat
  version : Bytes
  deriving DecidableEq, Repr

structure Scriptlet where
  script : Bytes
  flags : Option Nat
  prog : Option (List Bytes)
  deriving DecidableEq, Repr

structure FileEntry where
  path : Bytes
  mode : Nat
  user : Bytes
  group : Bytes
  mtime : Nat
  size : Nat
  flags : Nat
  digest : Option (Nat × Bytes)     -- (algorithm number, hex text)
  caps : Option Bytes
  linkto : Bytes
  ima : Option Bytes
  deriving DecidableEq, Repr

structure Changelog where
  name : Bytes
  timestamp : Nat
  description : Bytes
  deriving DecidableEq, Repr

def isNotFound {α} : Out α → Bool | .err "notfound" => true | _ => false

/-- `get_dependencies`, `get_changelog_entries`, `get_file_paths` share this shape:
all three absent → empty list; all three ok → zip; otherwise the first error in order -/
def triple {α β γ δ} (a : Out α) (b : Out β) (c : Out γ) (f : α → β → γ → Out δ) (empty : δ) : Out δ :=
  if isNotFound a && isNotFound b && isNotFound c then .ok empty
  else match a, b, c with
    | .ok x, .ok y, .ok z => f x y z
    | _, _, _ => do let _ ← a; let _ ← b; let _ ← c; .panic "unreachable"

/-- `itertools::multizip` of three lists (stops at the shortest) -/
def zip3 {α β γ} : List α → List β → List γ → List (α × β × γ)
  | a :: as, b :: bs, c :: cs => (a, b, c) :: zip3 as bs cs
  | _, _, _ => []

def getDependencies (h : Header) (nameTag flagsTag versionTag : Nat) : Out (List Dependency) :=
  triple (getStringArray h nameTag) (getU32Array h flagsTag) (getStringArray h versionTag)
    (fun ns fs vs => .ok ((zip3 ns fs vs).map fun (n, f, v) => ⟨n, f, v⟩)) []

def getChangelog (h : Header) : Out (List Changelog) :=
  triple (getStringArray h IndexTag.RPMTAG_CHANGELOGNAME) (getU32Array h IndexTag.RPMTAG_CHANGELOGTIME)
    (getStringArray h IndexTag.RPMTAG_CHANGELOGTEXT)
    (fun ns ts ds => .ok ((zip3 ns ts ds).map fun (n, t, d) => ⟨n, t, d⟩)) []

/-- `get_file_paths`: dirs[dirindex[i]] joined with basenames[i]; an out-of-range index is an error -/
def filePathsFrom (basenames : List Bytes) (idx : List Nat) (dirs : List Bytes) : Out (List Bytes) :=
  match basenames, idx with
  | b :: bs, i :: is =>
    match dirs[i]? with
    | some d => do let r ← filePathsFrom bs is dirs; pure (pathJoin d b :: r)
    | none => .err "index"
  | _, _ => .ok []

def getFilePaths (h : Header) : Out (List Bytes) :=
  triple (getStringArray h IndexTag.RPMTAG_BASENAMES) (getU32Array h IndexTag.RPMTAG_DIRINDEXES)
    (getStringArray h IndexTag.RPMTAG_DIRNAMES) (fun b i d => filePathsFrom b i d) []

/-- `get_scriptlet` -/
def getScriptlet (h : Header) (tags : Nat × Nat × Nat) : Out Scriptlet := do
  let script ← getString h tags.1
  pure ⟨script, (getU32 h tags.2.1).toOption, (getStringArray h tags.2.2).toOption⟩

/-- `get_installed_size`: LONGSIZE (u64) or else SIZE (u32) -/
def getInstalledSize (h : Header) : Out Nat :=
  match getU64 h IndexTag.RPMTAG_LONGSIZE with
  | .ok v => .ok v
  | _ => getU32 h IndexTag.RPMTAG_SIZE

/-- a text of the scraped compression tables (code points, all ASCII — `C12.compressor_names_ascii`) as the bytes
of the Rust `&str` -/
def textBytes (s : List Nat) : Bytes := s.map Nat.toUInt8

/-- the texts `CompressionType::from_str` accepts (`Gen.compressionFromStr`, regenerated from
src/rpm/compressor.rs on every run), as bytes -/
def compressorNames : List Bytes := compressionFromStr.map fun p => textBytes p.1

/-- what `Display` prints for the variant `get_payload_compressor` answers when the tag is absent
(`Gen.payloadCompressorDefault`, scraped from src/rpm/package.rs) -/
def compressorDefaultName : Bytes := textBytes (Compression.toStr payloadCompressorDefault)

/-- `get_payload_compressor`: absent → `CompressionType::None`; otherwise `CompressionType::from_str` on the text.
Returns the compressor's display name. -/
def getPayloadCompressor (knownNames : List Bytes) (h : Header) : Out Bytes :=
  match getString h IndexTag.RPMTAG_PAYLOADCOMPRESSOR with
  | .ok s => if knownNames.contains s then .ok s else .err "compressor"
  | .err "notfound" => .ok compressorDefaultName
  | .err c => .err c
  | .panic s => .panic s

/-- `get_payload_compressor` with its real result type: the `CompressionType` variant (declaration index,
`variant as usize`).  `CompressionType::from_str` compares the text with ASCII literals, so a text with a byte
≥ 128 matches none of them — as here, where such a byte becomes a number no table entry contains. -/
def getPayloadCompressorVariant (h : Header) : Out Nat :=
  match getString h IndexTag.RPMTAG_PAYLOADCOMPRESSOR with
  | .ok s => Compression.fromStr (s.map UInt8.toNat)
  | .err "notfound" => .ok payloadCompressorDefault
  | .err c => .err c
  | .panic s => .panic s

/-- `get_file_digest_algorithm` -/
def getFileDigestAlgorithm (h : Header) : Out Nat := do
  let x ← getU32 h IndexTag.RPMTAG_FILEDIGESTALGO
  if digestAlgoTable.any (·.2 == x) then pure x else .err "enum"

/-- `FileDigest::new`: the hex length must be the one the source pairs with the algorithm (numbers as in
`DigestAlgorithm`); `tbl` is that pairing — by default the table regenerated from src/rpm/headers/header.rs on every
run (`Gen.fileDigestHexLen`); the specification instantiates it with the standard digest sizes instead. -/
def fileDigestNew (algo : Nat) (hex : Bytes) (tbl : List (Nat × Nat) := fileDigestHexLen) : Out (Nat × Bytes) :=
  if tbl.any (fun p => p.1 == algo && p.2 == hex.length) then .ok (algo, hex) else .err "unsupported"

/-- optional string-array tag: Ok → Some, TagNotFound → None, other errors propagate -/
def optStrings (r : Out (List Bytes)) : Out (Option (List Bytes)) :=
  match r with
  | .ok l => .ok (some l)
  | .err "notfound" => .ok none
  | .err c => .err c
  | .panic s => .panic s

/-- `if digest.is_empty() { None } else { Some(FileDigest::new(algorithm, digest)?) }` -/
def digestOf (algo : Nat) (d : Bytes) (tbl : List (Nat × Nat) := fileDigestHexLen) : Out (Option (Nat × Bytes)) :=
  if d.isEmpty then .ok none else (fileDigestNew algo d tbl).map some

def buildEntries (algo : Nat) (caps ima : Option (List Bytes)) (tbl : List (Nat × Nat) := fileDigestHexLen) :
    Nat → List Bytes → List Bytes → List Bytes → List Nat → List Bytes → List Nat → List Nat → List Nat → List Bytes →
    Out (List FileEntry)
  | idx, p :: ps, u :: us, g :: gs, m :: ms, d :: ds, t :: ts, s :: ss, f :: fs, l :: ls => do
    let digest ← digestOf algo d tbl
    let e : FileEntry := ⟨p, m, u, g, t, s, f, digest, caps.bind (·[idx]?), l, ima.bind (·[idx]?)⟩
    let r ← buildEntries algo caps ima tbl (idx + 1) ps us gs ms ds ts ss fs ls
    pure (e :: r)
  | _, _, _, _, _, _, _, _, _, _ => .ok []

/-- `get_file_entries` (`sig` is the signature header, for the IMA signatures) -/
def getFileEntries (sig h : Header) (tbl : List (Nat × Nat) := fileDigestHexLen) : Out (List FileEntry) :=
  let algo := match getFileDigestAlgorithm h with | .ok a => a | _ => 1
  let modes := getU16Array h IndexTag.RPMTAG_FILEMODES
  if isNotFound modes then .ok [] else
  let users := getStringArray h IndexTag.RPMTAG_FILEUSERNAME
  let groups := getStringArray h IndexTag.RPMTAG_FILEGROUPNAME
  let digests := getStringArray h IndexTag.RPMTAG_FILEDIGESTS
  let mtimes := getU32Array h IndexTag.RPMTAG_FILEMTIMES
  let sizes : Out (List Nat) := match getU64Array h IndexTag.RPMTAG_LONGFILESIZES with
    | .ok v => .ok v
    | _ => getU32Array h IndexTag.RPMTAG_FILESIZES
  let flags := getU32Array h IndexTag.RPMTAG_FILEFLAGS
  match optStrings (getStringArray h IndexTag.RPMTAG_FILECAPS) with
  | .err c => .err c
  | .panic s => .panic s
  | .ok caps =>
  let links := getStringArray h IndexTag.RPMTAG_FILELINKTOS
  match optStrings (getStringArray sig SigTag.RPMSIGTAG_FILESIGNATURES) with
  | .err c => .err c
  | .panic s => .panic s
  | .ok ima =>
  match modes, users, groups, digests, mtimes, sizes, flags, links with
  | .ok ms, .ok us, .ok gs, .ok ds, .ok ts, .ok ss, .ok fs, .ok ls => do
    let paths ← getFilePaths h
    buildEntries algo caps ima tbl 0 paths us gs ms ds ts ss fs ls
  | _, _, _, _, _, _, _, _ => do
    let _ ← modes; let _ ← users; let _ ← groups; let _ ← digests; let _ ← mtimes; let _ ← sizes; let _ ← flags; let _ ← links
    .panic "unreachable"

end RpmVerif.Acc
