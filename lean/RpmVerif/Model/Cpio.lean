import RpmVerif.Model.Utf8
import RpmVerif.Gen.CpioConsts
/-!
# L6: cpio (newc / crc / rpm's stripped form) — model of `src/rpm/payload.rs` and of `FileIterator`
(`src/rpm/package.rs`), plus the archive-writing loop of `builder.rs::prepare_data`.

Mirrors the code as it is in /repo now (after `fix: eb7114a` — stripped header padding is read, data is
padded in large-file mode —, `fix: 1c3a5eb` — name length checked before the allocation, stripped
index bounds-checked —, `fix: c887b00` — an archive ending inside an entry's data is an error — and
`fix: 3cfa908` — the iterator attaches the metadata of the header file the entry itself designates).  Streams are `Bytes` (what is still unread); `read_exact` on a short stream is
`.err "eof"` (`takeN`), `read_to_end` through `Reader::read` is `List.take` (it stops at the end of the
stream; `finish` then reports the shortfall).  Numbers are `Nat`; all header fields are `u32` in the code, the theorems carry
`< 2^32` hypotheses where `{:08x}` must produce exactly 8 digits.
-/
namespace RpmVerif.Cpio
open RpmVerif.Gen

/-! ## `{:08x}` and `u32::from_str_radix(_, 16)` -/

/-- one lower-case hex digit (`0-9a-f`) -/
def hexDig (d : Nat) : UInt8 := if d < 10 then (48 + d).toUInt8 else (87 + d).toUInt8

/-- `format!("{:08x}", n)` for `n < 2^32`: exactly 8 digits, most significant first -/
def fmtHex8 (n : Nat) : Bytes :=
  [hexDig (n / 268435456 % 16), hexDig (n / 16777216 % 16), hexDig (n / 1048576 % 16), hexDig (n / 65536 % 16),
   hexDig (n / 4096 % 16), hexDig (n / 256 % 16), hexDig (n / 16 % 16), hexDig (n % 16)]

/-- `char::to_digit(16)`: `0-9`, `a-f`, `A-F` -/
def hexVal (b : UInt8) : Option Nat :=
  if 48 ≤ b.toNat ∧ b.toNat ≤ 57 then some (b.toNat - 48)
  else if 97 ≤ b.toNat ∧ b.toNat ≤ 102 then some (b.toNat - 87)
  else if 65 ≤ b.toNat ∧ b.toNat ≤ 70 then some (b.toNat - 55)
  else none

def parseDigits : Bytes → Nat → Option Nat
  | [], acc => some acc
  | b :: r, acc => match hexVal b with
    | some d => parseDigits r (acc * 16 + d)
    | none => none

/-- `u32::from_str_radix(s, 16)` on the 8 bytes of a field: an optional leading `+`, then at least one
hex digit (8 digits cannot overflow a `u32`); anything else — including non-UTF-8 bytes — is an error -/
def parseHex8 (f : Bytes) : Option Nat :=
  let ds := if f.head? = some 43 then f.tail else f
  if ds.isEmpty then none else parseDigits ds 0

/-- `read_hex_u32` -/
def readHex8 (bs : Bytes) : Out (Nat × Bytes) := do
  let (f, r) ← takeN 8 bs
  match parseHex8 f with
  | some n => pure (n, r)
  | none => .err "hex"

/-! ## padding -/

/-- length of `pad(len)`: `None` (0) when `len % 4 == 0`, else `4 - len % 4` zero bytes -/
def padLen (len : Nat) : Nat := if len % 4 ≠ 0 then 4 - len % 4 else 0
def pad (len : Nat) : Bytes := List.replicate (padLen len) 0

/-! ## writer side -/

/-- `payload::Builder` -/
structure EntryMeta where
  name : Bytes
  ino : Nat := 0
  mode : Nat := 0
  uid : Nat := 0
  gid : Nat := 0
  nlink : Nat := 1
  mtime : Nat := 0
  devMajor : Nat := 0
  devMinor : Nat := 0
  rdevMajor : Nat := 0
  rdevMinor : Nat := 0
  deriving DecidableEq, Repr

/-- `Builder::into_header(file_size, file_checksum)` -/
def intoHeader (b : EntryMeta) (fileSize : Nat) (check : Option Nat) : Bytes :=
  (if check.isSome then cpioMagicCrc else cpioMagicNewc) ++
  (fmtHex8 b.ino ++ (fmtHex8 b.mode ++ (fmtHex8 b.uid ++ (fmtHex8 b.gid ++ (fmtHex8 b.nlink ++ (fmtHex8 b.mtime ++
  (fmtHex8 fileSize ++ (fmtHex8 b.devMajor ++ (fmtHex8 b.devMinor ++ (fmtHex8 b.rdevMajor ++ (fmtHex8 b.rdevMinor ++
  (fmtHex8 (b.name.length + 1) ++ (fmtHex8 (check.getD 0) ++
  (b.name ++ ([0] ++ pad (cpioHeaderLen + (b.name.length + 1)))))))))))))))))

/-- `write_cpio(w, len).write_all(content)` then `finish()`: header, data, and — `written == file_size`
holds after `write_all` — `pad(header_size + file_size)` -/
def writeEntry (b : EntryMeta) (content : Bytes) (check : Option Nat := none) : Bytes :=
  let h := intoHeader b content.length check
  h ++ (content ++ pad (h.length + content.length))

/-- `trailer(w)` : `Builder::new("TRAILER!!!").nlink(1).write_cpio(w, 0).finish()` -/
def trailer : Bytes := writeEntry { name := cpioTrailerName, nlink := 1 } []

/-- `stripped_cpio_header(file_index)` -/
def strippedHeader (idx : Nat) : Bytes :=
  cpioMagicStripped ++ (fmtHex8 idx ++ pad cpioStrippedHeaderLen)

/-- a standard archive: the entries in order, then the trailer -/
def archiveOf : List (EntryMeta × Bytes) → Bytes
  | [] => trailer
  | (m, c) :: r => writeEntry m c ++ archiveOf r

/-- the data padding of the large-file branch: `&[0u8; 3][..(4 - len % 4) % 4]` -/
def strippedDataPad (len : Nat) : Bytes := List.replicate ((4 - len % 4) % 4) 0

/-- the large-file branch of `prepare_data`: stripped header with the file index, data, padding; the
trailer is an ordinary newc entry -/
def archiveStrippedFrom : Nat → List Bytes → Bytes
  | _, [] => trailer
  | idx, c :: r => strippedHeader idx ++ (c ++ (strippedDataPad c.length ++ archiveStrippedFrom (idx + 1) r))

def archiveStripped (contents : List Bytes) : Bytes := archiveStrippedFrom 0 contents

/-- one file as the builder holds it: cpio path (the BTreeMap key), raw mode, content -/
structure FileIn where
  path : Bytes
  mode : Nat
  content : Bytes
  deriving DecidableEq, Repr

/-- the per-file `payload::Builder` of `prepare_data`: `.mode(..).ino(ino_index).uid(..).gid(..)` -/
def builderMeta (uid gid ino : Nat) (f : FileIn) : EntryMeta :=
  { name := f.path, ino := ino, mode := f.mode, uid := uid, gid := gid }

def builderEntriesFrom (uid gid : Nat) : Nat → List FileIn → List (EntryMeta × Bytes)
  | _, [] => []
  | ino, f :: r => (builderMeta uid gid ino f, f.content) :: builderEntriesFrom uid gid (ino + 1) r

/-- the standard-mode loop of `prepare_data` over the (already sorted) files; `ino_index` starts at 1 -/
def builderArchive (uid gid : Nat) (files : List FileIn) : Bytes := archiveOf (builderEntriesFrom uid gid 1 files)

/-- the large-file loop of `prepare_data` -/
def builderArchiveLarge (files : List FileIn) : Bytes := archiveStripped (files.map (·.content))

/-! ## the builder's file map -/

/-- `Ord for String` on the BTreeMap keys: lexicographic on the UTF-8 bytes -/
def bytesLt : Bytes → Bytes → Bool
  | _, [] => false
  | [], _ :: _ => true
  | a :: r, b :: s => a < b || (a == b && bytesLt r s)

/-- `self.files.entry(cpio_path).or_insert(entry)` on the map seen as its sorted entry list: a path that
is already present keeps its first entry -/
def insertFile (f : FileIn) : List FileIn → List FileIn
  | [] => [f]
  | g :: r =>
    if bytesLt f.path g.path then f :: g :: r
    else if f.path = g.path then g :: r
    else g :: insertFile f r

/-- the files in the order `self.files.iter()` visits them, after the `with_file` calls in `given` order -/
def buildFiles (given : List FileIn) : List FileIn := given.foldl (fun acc f => insertFile f acc) []

/-! ## reader side -/

/-- `CpioEntry` -/
structure CpioEntry where
  crc : Bool
  name : Bytes
  ino : Nat
  mode : Nat
  uid : Nat
  gid : Nat
  nlink : Nat
  mtime : Nat
  fileSize : Nat
  devMajor : Nat
  devMinor : Nat
  rdevMajor : Nat
  rdevMinor : Nat
  checksum : Nat
  deriving DecidableEq, Repr

/-- `RpmPayloadEntry` -/
inductive PayloadEntry where
  | cpio (e : CpioEntry)
  | stripped (idx : Nat)
  deriving DecidableEq, Repr

/-- `while name_bytes.last() == Some(&0) { pop }` -/
def stripTrailingNuls (l : Bytes) : Bytes := (l.reverse.dropWhile (· = 0)).reverse

/-- `Reader::new(inner, file_entries)`: the parsed entry, `file_size`, and the unread stream.
`sizes` = `file_entries.map(|e| e.size)` (only consulted for stripped entries). -/
def readerNew (sizes : List Nat) (bs : Bytes) : Out (PayloadEntry × Nat × Bytes) := do
  let (magic, r) ← takeN 6 bs
  if magic = cpioMagicNewc ∨ magic = cpioMagicCrc then
    let (ino, r) ← readHex8 r
    let (mode, r) ← readHex8 r
    let (uid, r) ← readHex8 r
    let (gid, r) ← readHex8 r
    let (nlink, r) ← readHex8 r
    let (mtime, r) ← readHex8 r
    let (fileSize, r) ← readHex8 r
    let (devMajor, r) ← readHex8 r
    let (devMinor, r) ← readHex8 r
    let (rdevMajor, r) ← readHex8 r
    let (rdevMinor, r) ← readHex8 r
    let (nameLen, r) ← readHex8 r
    let (checksum, r) ← readHex8 r
    if nameLen > cpioNameLenMax then .err "name-too-long" else
    let (nameBytes, r) ← takeN nameLen r
    if nameBytes.getLast? ≠ some 0 then .err "name-not-terminated" else
    let name := stripTrailingNuls nameBytes.dropLast
    if !Utf8.isValid name then .err "name-utf8" else
    let (_, r) ← takeN (padLen (cpioHeaderLen + nameLen)) r
    pure (.cpio ⟨magic = cpioMagicCrc, name, ino, mode, uid, gid, nlink, mtime, fileSize,
                 devMajor, devMinor, rdevMajor, rdevMinor, checksum⟩, fileSize, r)
  else if magic = cpioMagicStripped then
    let (idx, r) ← readHex8 r
    let (_, r) ← takeN (padLen cpioStrippedHeaderLen) r
    if idx = 4294967295 then pure (.stripped idx, 0, r)
    else match sizes[idx]? with
      | some s => pure (.stripped idx, s, r)
      | none => .err "stripped-index"
  else .err "magic"

/-- the size the reader uses for an entry: the cpio header's `filesize`, or — stripped — the size of the
header's file list at the entry's index (0 for the stripped trailer) -/
def entrySize (sizes : List Nat) : PayloadEntry → Option Nat
  | .cpio e => some e.fileSize
  | .stripped idx => if idx = 4294967295 then some 0 else sizes[idx]?

/-- `Reader::is_trailer` -/
def isTrailer : PayloadEntry → Bool
  | .cpio e => e.name == cpioTrailerName
  | .stripped idx => idx == 4294967295

/-- `read_to_end(&mut content)` through `Reader::read` (at most `file_size` bytes; fewer when the stream
ends early) followed by `finish()`: `remaining = file_size - bytes_read` is non-zero only when the stream
ended inside the data; then `io::copy` skips nothing and `finish` fails with `UnexpectedEof`
(`fix: c887b00`); otherwise `read_exact(pad(file_size))`. Returns the content and the unread stream. -/
def readData (fileSize : Nat) (r : Bytes) : Out (Bytes × Bytes) := do
  let content := r.take fileSize
  if content.length < fileSize then .err "eof" else
  let (_, r) ← takeN (padLen fileSize) (r.drop fileSize)
  pure (content, r)

/-! ## which header file an archive entry belongs to (`Reader::file_index`) -/

/-- the header path a cpio entry name stands for: `match name.strip_prefix('.') { Some(rest) if
rest.starts_with('/') => rest, _ => name }` — cpio names are `"." + path` (`./usr/bin/x`); source
packages use the plain path (`x.spec`), and a plain name may itself start with a dot (`.hidden`) -/
def namePath : Bytes → Bytes
  | 46 :: 47 :: r => 47 :: r
  | n => n

/-- `Reader::file_index(file_entries)`, `paths` = `file_entries.map(|e| e.path)` (the bytes of the
`PathBuf`; `OsStr == str` compares bytes): a cpio entry designates the FIRST header file whose path is
the one its name stands for (`iter().position(..)`), a stripped entry the file at the index it carries -/
def fileIndex (paths : List Bytes) : PayloadEntry → Option Nat
  | .cpio e => if paths.idxOf (namePath e.name) < paths.length then some (paths.idxOf (namePath e.name)) else none
  | .stripped idx => if idx < paths.length then some idx else none

/-- `FileIterator` with `count = entries.len() - fuel`: what the successive `next()` calls return, up
to and including the first `Some(Err(_))` (after an error the position of the stream is not
defined; the harness stops there as well).  An item is (index of the header file whose metadata is
attached, the archive entry, the content).  Since `fix: 3cfa908` the index is the one the ENTRY designates
(`fileIndex`: by name for newc / crc entries, the carried index for stripped ones), not the position of
the entry in the archive; an entry that designates no header file is an error item. -/
def iterateE (paths : List Bytes) (sizes : List Nat) : Nat → Bytes → List (Out (Nat × PayloadEntry × Bytes))
  | 0, _ => []
  | fuel + 1, bs =>
    match readerNew sizes bs with
    | .ok (e, fileSize, r) =>
      if isTrailer e then [] else
      match fileIndex paths e with
      | none => [.err "no-such-file"]
      | some i =>
        match readData fileSize r with
        | .ok (content, r') => .ok (i, e, content) :: iterateE paths sizes fuel r'
        | .err c => [.err c]
        | .panic s => [.panic s]
    | .err c => [.err c]
    | .panic s => [.panic s]

/-- metadata index and content only -/
def iterateFrom (paths : List Bytes) (sizes : List Nat) (fuel : Nat) (bs : Bytes) : List (Out (Nat × Bytes)) :=
  (iterateE paths sizes fuel bs).map (Out.map fun x => (x.1, x.2.2))

/-- `Package::files()` on the decompressed archive: at most one `next()` per header file entry
(`paths` and `sizes` are the two columns of `file_entries`) -/
def iterate (archive : Bytes) (paths : List Bytes) (sizes : List Nat) : List (Out (Nat × Bytes)) :=
  iterateFrom paths sizes sizes.length archive

/-- `Package::files()` with the decompressor as a parameter, for a payload that decodes completely (the all-or-nothing
view; `filesChunked` below is the streaming one, `C07.files_eq_filesChunked` relates them) -/
def files (decompress : Bytes → Out Bytes) (payload : Bytes) (paths : List Bytes) (sizes : List Nat) :
    Out (List (Out (Nat × Bytes))) := do
  let archive ← decompress payload
  pure (iterate archive paths sizes)

/-- what a streaming decoder (`decompress_stream`: a lazy `GzDecoder` / zstd / xz / bzip2 reader over the payload) hands
to the cpio reader: the bytes it produces before it stops, and HOW it stops — `failed`: the next `read` answers `Err`
(corrupt or truncated frame), otherwise a clean end of stream. The codecs themselves are not modelled: `decode` is a
parameter (the correspondence runs the real crates). -/
structure Decoded where
  bytes : Bytes
  failed : Bool
  deriving DecidableEq, Repr

/-- the reader ran off the end of what the decoder produced: `UnexpectedEof` after a clean end, the decoder's own error
otherwise — an `Err` item either way (class `eof` / `io`) -/
def atStreamEnd {α} (failed : Bool) : Out α → Out α
  | .err "eof" => if failed then .err "io" else .err "eof"
  | o => o

/-- `Package::files()` over a STREAMING decoder, drained up to the first error: constructing the decoder may fail
(`decode = .err`: the codec is not compiled in — `UnsupportedCompressorType` —, zstd context); after that the items are
those the cpio reader finds in the bytes decoded so far. Whether the decoder would fail LATER is irrelevant once the cpio
trailer has been read (C07 `files_chunked_clean`); a stream that stops inside the archive gives the items that lie
completely before the cut and then one error item (`files_chunked_prefix`). -/
def filesChunked (decode : Bytes → Out Decoded) (payload : Bytes) (paths : List Bytes) (sizes : List Nat) :
    Out (List (Out (Nat × Bytes))) := do
  let d ← decode payload
  pure ((iterate d.bytes paths sizes).map (atStreamEnd d.failed))

/-- the header path an archive entry designates (spec side of `fileIndex`) -/
def entryPath (paths : List Bytes) : PayloadEntry → Option Bytes
  | .cpio e => some (namePath e.name)
  | .stripped idx => paths[idx]?

end RpmVerif.Cpio
