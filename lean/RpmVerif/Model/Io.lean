import RpmVerif.Model.Header
/-!
# L5: the `Write` / `Read` contracts and the serialiser / parser as I/O programs (C14)

Sink side. A sink behaviour is a finite *response script*: what each successive `write(buf)` call
answers (`ok n` = "accepted n bytes", clamped to `buf.len()` by the contract; `intr` =
`ErrorKind::Interrupted`; `fail` = any other error).  `writeAll` is std's `Write::write_all`
(loop while the buffer is non-empty, retry on `Interrupted`, `Ok(0)` → `WriteZero` error; an empty
buffer makes no call), `writeOnce` is a single `write` whose returned count is dropped (what
`IndexEntry::write_index` did before fix d0a93f9).  The serialiser is the *list of calls it makes*:
`prog p` mirrors `Package::write` → `PackageMetadata::write` → `Lead::write` (9 calls) /
`Header::write_signature` / `Header::write` → `IndexHeader::write` (5 calls),
`IndexEntry::write_index` (4 calls each), store, padding (only if > 0), content — as the code is now.

Source side. A source is a byte string plus a *chunk script*: how many bytes each successive
`read(buf)` call hands out (`size n`, clamped to `buf.len()` and to what is left; `intr` =
`Interrupted`).  When the script is exhausted the source hands out everything that is asked for.
`readExact` is std's `Read::read_exact`, `readTakeToEnd` is `by_ref().take(n).read_to_end(..)`,
`readToEnd` the final `read_to_end`; `parseChunked` is `Package::parse` written with them.
(The buffer sizes `read_to_end` offers are an implementation detail of std; they only clamp the
chunk sizes further, i.e. they are absorbed by the universally quantified script.)
-/
namespace RpmVerif.Io
open RpmVerif.Hdr RpmVerif.Gen

/-! ## sink side -/

/-- answer of one `write(buf)` call -/
inductive Resp where
  | ok (n : Nat)   -- `Ok(min n buf.len())`
  | intr           -- `Err(Interrupted)`
  | fail           -- `Err(other)`
  deriving DecidableEq, Repr

/-- how a (sequence of) call(s) ended; `starved` = the script ran out while a call was pending -/
inductive St where
  | ok | err | starved
  deriving DecidableEq, Repr

/-- `Write::write_all(buf)` against a response script: (bytes the sink accepted, status, unused script) -/
def writeAll : Bytes → List Resp → Bytes × St × List Resp
  | [], rs => ([], .ok, rs)
  | _ :: _, [] => ([], .starved, [])
  | b :: bs, .intr :: rs => writeAll (b :: bs) rs
  | _ :: _, .fail :: rs => ([], .err, rs)
  | b :: bs, .ok n :: rs =>
    if n = 0 then ([], .err, rs)      -- `Ok(0)` on a non-empty buffer → `WriteZero`
    else
      -- the sink took `min n buf.len()` bytes (`take` / `drop` clamp)
      let r := writeAll ((b :: bs).drop n) rs
      ((b :: bs).take n ++ r.1, r.2.1, r.2.2)

/-- a single `out.write(buf)?` whose count is ignored (`Interrupted` is an error here: `?` propagates it) -/
def writeOnce : Bytes → List Resp → Bytes × St × List Resp
  | _, [] => ([], .starved, [])
  | _, .intr :: rs => ([], .err, rs)
  | _, .fail :: rs => ([], .err, rs)
  | buf, .ok n :: rs => (buf.take (min n buf.length), .ok, rs)

/-- one call the serialiser makes -/
inductive Act where
  | all (b : Bytes)    -- `out.write_all(b)?`
  | once (b : Bytes)   -- `out.write(b)?`
  deriving DecidableEq, Repr

def Act.buf : Act → Bytes | .all b => b | .once b => b
def Act.isAll : Act → Bool | .all _ => true | .once _ => false

def exec : Act → List Resp → Bytes × St × List Resp
  | .all b, rs => writeAll b rs
  | .once b, rs => writeOnce b rs

/-- run a program (`?` after every call: the first non-ok status ends it) -/
def run : List Act → List Resp → Bytes × St × List Resp
  | [], rs => ([], .ok, rs)
  | a :: as, rs =>
    match exec a rs with
    | (e, .ok, rs') => let r := run as rs'; (e ++ r.1, r.2.1, r.2.2)
    | (e, st, rs') => (e, st, rs')

/-- all bytes a program wants to emit -/
def concat (as : List Act) : Bytes := (as.map Act.buf).flatten

/-- `Lead::write`: nine `write_all` calls -/
def progLead (l : Lead) : List Act :=
  [.all RPM_MAGIC, .all [l.major.toUInt8], .all [l.minor.toUInt8], .all (be16 l.ptype), .all (be16 l.arch),
   .all l.name, .all (be16 l.os), .all (be16 l.sigtype), .all l.reserved]

/-- `IndexHeader::write`: five `write_all` calls -/
def progIntro (n dl : Nat) : List Act :=
  [.all HEADER_MAGIC, .all [1], .all [0, 0, 0, 0], .all (be32 n), .all (be32 dl)]

/-- `IndexEntry::write_index`: four `write_all` calls (since d0a93f9) -/
def progEntry (e : Entry) : List Act :=
  [.all (be32 e.tag), .all (be32 e.data.typeCode), .all (be32 e.off), .all (be32 e.cnt)]

/-- `Header::write` -/
def progHeader (h : Header) : List Act :=
  progIntro h.nEntries h.dataSize ++ (h.entries.map progEntry).flatten ++ [.all h.store]

/-- `write_signature`: the padding call exists only when padding is needed -/
def progSignature (h : Header) : List Act :=
  progHeader h ++ (if sigPad h.dataSize > 0 then [.all (List.replicate (sigPad h.dataSize) 0)] else [])

/-- `PackageMetadata::write` -/
def progMetadata (m : Metadata) : List Act := progLead m.lead ++ progSignature m.signature ++ progHeader m.header

/-- `Package::write` -/
def prog (p : Package) : List Act := progMetadata p.md ++ [.all p.content]

/-! ### sinks keyed on the number of bytes accepted so far (what the harness' scripted sinks are)

`pat` says how the successive calls behave (`size n`: accept up to n bytes, `intr`: Interrupted;
exhausted pattern: accept everything), `limit` is the number of bytes after which every call fails
(hard error, or `Ok(0)`, which `write_all` turns into `WriteZero` — both are `err`). -/
inductive Chunk where
  | size (n : Nat)
  | intr
  deriving DecidableEq, Repr

/-- `write_all(buf)` against a keyed sink; `acc` = bytes accepted before. Returns (emitted, status, pattern left, acc'). -/
def writeAllK (limit : Nat) : Bytes → List Chunk → Nat → Bytes × St × List Chunk × Nat
  | [], pat, acc => ([], .ok, pat, acc)
  | b :: bs, [], acc =>
    if acc + (bs.length + 1) ≤ limit then (b :: bs, .ok, [], acc + (bs.length + 1))
    else ((b :: bs).take (limit - acc), .err, [], limit)
  | b :: bs, .intr :: pat, acc =>
    if limit ≤ acc then ([], .err, pat, acc) else writeAllK limit (b :: bs) pat acc
  | b :: bs, .size n :: pat, acc =>
    if limit ≤ acc then ([], .err, pat, acc)
    else if n = 0 then ([], .err, pat, acc)   -- `Ok(0)` → WriteZero
    else
      -- accepted: `min n buf.len()`, but never beyond the limit
      let r := writeAllK limit ((b :: bs).drop (min n (limit - acc))) pat
        (acc + ((b :: bs).take (min n (limit - acc))).length)
      ((b :: bs).take (min n (limit - acc)) ++ r.1, r.2.1, r.2.2.1, r.2.2.2)

/-- a program of `write_all`s against a keyed sink -/
def runK (limit : Nat) : List Bytes → List Chunk → Nat → Bytes × St × List Chunk × Nat
  | [], pat, acc => ([], .ok, pat, acc)
  | b :: bs, pat, acc =>
    match writeAllK limit b pat acc with
    | (e, .ok, pat', acc') => let r := runK limit bs pat' acc'; (e ++ r.1, r.2.1, r.2.2.1, r.2.2.2)
    | (e, st, pat', acc') => (e, st, pat', acc')

/-- the keyed sink *as a response script*: the answers it gives while `write_all(buf)` runs
(`atLimit` is what it says once the limit is reached: `.fail` or `.ok 0`) -/
def respK (atLimit : Resp) (limit : Nat) : Bytes → List Chunk → Nat → List Resp
  | [], _, _ => []
  | _ :: bs, [], acc =>
    if acc + (bs.length + 1) ≤ limit then [.ok (bs.length + 1)]
    else if limit ≤ acc then [atLimit] else [.ok (limit - acc), atLimit]
  | b :: bs, .intr :: pat, acc =>
    if limit ≤ acc then [atLimit] else .intr :: respK atLimit limit (b :: bs) pat acc
  | b :: bs, .size n :: pat, acc =>
    if limit ≤ acc then [atLimit]
    else if n = 0 then [.ok 0]
    else .ok (min n (limit - acc)) ::
      respK atLimit limit ((b :: bs).drop (min n (limit - acc))) pat (acc + ((b :: bs).take (min n (limit - acc))).length)

/-- … and while a whole program of `write_all`s runs -/
def respRunK (atLimit : Resp) (limit : Nat) : List Bytes → List Chunk → Nat → List Resp
  | [], _, _ => []
  | b :: bs, pat, acc =>
    match writeAllK limit b pat acc with
    | (_, .ok, pat', acc') => respK atLimit limit b pat acc ++ respRunK atLimit limit bs pat' acc'
    | _ => respK atLimit limit b pat acc

/-! ## source side -/

structure Src where
  bytes : Bytes
  script : List Chunk
  deriving Repr

/-- the `Read` contract: a non-empty request on a non-exhausted source yields ≥ 1 byte -/
def ScriptWF (sc : List Chunk) : Prop := ∀ c ∈ sc, c ≠ .size 0
def Src.WF (s : Src) : Prop := ScriptWF s.script
instance (sc : List Chunk) : Decidable (ScriptWF sc) := by unfold ScriptWF; infer_instance

/-- `Read::read_exact` for `n` bytes (no call for an empty buffer; retry on Interrupted; a `read`
that returns 0 is `UnexpectedEof`) -/
def readExactAux : Nat → Bytes → List Chunk → Out (Bytes × Src)
  | 0, bs, sc => .ok ([], ⟨bs, sc⟩)
  | n + 1, bs, [] => if n + 1 ≤ bs.length then .ok (bs.take (n + 1), ⟨bs.drop (n + 1), []⟩) else .err "eof"
  | n + 1, bs, .intr :: sc => readExactAux (n + 1) bs sc
  | n + 1, bs, .size k :: sc =>
    -- the call hands out `min k want` bytes, fewer at the end of the data
    if (bs.take (min k (n + 1))).length = 0 then .err "eof"
    else
      (readExactAux (n + 1 - (bs.take (min k (n + 1))).length) (bs.drop (min k (n + 1))) sc).map
        fun p => (bs.take (min k (n + 1)) ++ p.1, p.2)

def readExact (n : Nat) (s : Src) : Out (Bytes × Src) := readExactAux n s.bytes s.script

/-- `input.by_ref().take(limit).read_to_end(&mut buf)`: `Take::read` answers `Ok(0)` at limit 0
without touching the source; a `read` that returns 0 ends the loop; Interrupted is retried -/
def readTakeAux : Nat → Bytes → List Chunk → Bytes × Src
  | 0, bs, sc => ([], ⟨bs, sc⟩)
  | l + 1, bs, [] => (bs.take (l + 1), ⟨bs.drop (l + 1), []⟩)
  | l + 1, bs, .intr :: sc => readTakeAux (l + 1) bs sc
  | l + 1, bs, .size k :: sc =>
    if (bs.take (min k (l + 1))).length = 0 then ([], ⟨bs, sc⟩)
    else
      let r := readTakeAux (l + 1 - (bs.take (min k (l + 1))).length) (bs.drop (min k (l + 1))) sc
      (bs.take (min k (l + 1)) ++ r.1, r.2)

def readTake (limit : Nat) (s : Src) : Bytes × Src := readTakeAux limit s.bytes s.script

/-- the final `read_to_end` -/
def readToEndAux : Bytes → List Chunk → Bytes
  | bs, [] => bs
  | bs, .intr :: sc => readToEndAux bs sc
  | bs, .size k :: sc =>
    if (bs.take k).length = 0 then [] else bs.take k ++ readToEndAux (bs.drop k) sc

def readToEnd (s : Src) : Bytes := readToEndAux s.bytes s.script

/-- `Header::parse` -/
def parseHeaderC (s : Src) : Out (Header × Src) := do
  let (intro, s) ← readExact INDEX_HEADER_SIZE s
  let (n, dl) ← parseIntro intro
  let (buf, s) := readTake (dl + n * INDEX_ENTRY_SIZE) s
  if buf.length < dl + n * INDEX_ENTRY_SIZE then .err "eof" else
  let (raw, store) ← parseEntriesRaw n buf
  let es ← decodeAll store raw
  pure (⟨n, dl, es, store⟩, s)

/-- `parse_signature` (`read_exact` on the padding; none needed → no call) -/
def parseSignatureC (s : Src) : Out (Header × Src) := do
  let (h, s) ← parseHeaderC s
  let (_, s) ← readExact (sigPad h.dataSize) s
  pure (h, s)

/-- `PackageMetadata::parse` -/
def parseMetadataC (s : Src) : Out (Metadata × Src) := do
  let (lb, s) ← readExact LEAD_SIZE s
  let lead ← parseLead lb
  let (sig, s) ← parseSignatureC s
  let (hdr, s) ← parseHeaderC s
  pure (⟨lead, sig, hdr⟩, s)

/-- `Package::parse` over a chunked source -/
def parseChunked (bs : Bytes) (script : List Chunk) : Out Package := do
  let (m, s) ← parseMetadataC ⟨bs, script⟩
  pure ⟨m, readToEnd s⟩

end RpmVerif.Io
