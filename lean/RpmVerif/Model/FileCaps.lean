import RpmVerif.Model.Basic
import RpmVerif.Gen.CapsTable
/-!
# Model of `src/rpm/filecaps.rs` (C19) on ASCII text

A string is the list of its byte codes (`List Nat`, every code `< 128`; for ASCII text bytes and
`char`s coincide, so byte indices returned by `find` are element indices).  Non-ASCII input is out of
the model (Unicode `to_uppercase`, Unicode whitespace): the driver does not predict it.

Function by function, same order of tests as the Rust code *as it is now* (after `fix:` 0cd6a82: the
leading-`=` rule tests the clause `part`, not the whole text).
-/
namespace RpmVerif.FileCaps
open RpmVerif

abbrev Str := List Nat

/-- `char::is_whitespace` restricted to ASCII: U+0009..U+000D and U+0020 -/
def isWs (c : Nat) : Bool := (9 ≤ c && c ≤ 13) || c == 32

/-- `str::trim_start` -/
def trimStart (s : Str) : Str := s.dropWhile isWs
/-- `str::trim_end` -/
def trimEnd (s : Str) : Str := (s.reverse.dropWhile isWs).reverse
/-- `str::trim` -/
def trim (s : Str) : Str := trimEnd (trimStart s)

/-- `str::split(pred)`: the iterator state is the piece collected so far (reversed) and the rest;
a final (possibly empty) piece is always produced -/
def splitGo (p : Nat → Bool) : Str → Str → List Str
  | acc, [] => [acc.reverse]
  | acc, c :: r => if p c then acc.reverse :: splitGo p [] r else splitGo p (c :: acc) r
def split (p : Nat → Bool) (s : Str) : List Str := splitGo p [] s

/-- `str::split_whitespace` = `split(char::is_whitespace).filter(|s| !s.is_empty())` -/
def splitWhitespace (s : Str) : List Str := (split isWs s).filter (fun w => !w.isEmpty)

/-- one of `['+', '-', '=']` -/
def isOpCh (c : Nat) : Bool := c == 43 || c == 45 || c == 61

/-- `part.find(['+', '-', '='])` -/
def findOp : Str → Option Nat
  | [] => none
  | c :: r => if isOpCh c then some 0 else (findOp r).map (· + 1)

/-- `u8::to_ascii_lowercase` -/
def toAsciiLower (c : Nat) : Nat := if 65 ≤ c ∧ c ≤ 90 then c + 32 else c
/-- `char::to_uppercase` on an ASCII char (`str::to_uppercase` maps it over the string) -/
def toUpper (c : Nat) : Nat := if 97 ≤ c ∧ c ≤ 122 then c - 32 else c

/-- `"all"` -/
def allLit : Str := [97, 108, 108]

/-- `str::eq_ignore_ascii_case`: equal lengths and bytewise equal after `to_ascii_lowercase` -/
def eqIgnoreAsciiCase (a b : Str) : Bool := a.map toAsciiLower == b.map toAsciiLower

/-- the `for part in s.split(',')` loop of `validate_capset` -/
def capsetLoop : List Str → Out Unit
  | [] => .ok ()
  | part :: ps =>
    if !(Gen.capsTable.contains (part.map toUpper)) then .err "unknown-cap" else capsetLoop ps

def validateCapset (s : Str) : Out Unit :=
  if s.isEmpty || eqIgnoreAsciiCase s allLit then .ok ()
  else capsetLoop (split (· == 44) s)

/-- the `for ch in s.chars()` loop of `validate_suffix`; the first argument is `last_ch`.
`debug_assert!(last_ch.is_some())` is live in the harness build (debug assertions on), so it is a
panic outcome here. -/
def suffixLoop : Option Nat → Str → Out Unit
  | _, [] => .ok ()
  | last, ch :: r =>
    if isOpCh ch then
      match last with
      | some l => if isOpCh l then .err "adjacent-ops" else suffixLoop (some ch) r
      | none => suffixLoop (some ch) r
    else if ch == 112 || ch == 105 || ch == 101 then
      if last.isNone then .panic "debug_assert(last_ch.is_some())" else suffixLoop (some ch) r
    else .err "suffix-char"

def validateSuffix (s : Str) : Out Unit := suffixLoop none s

/-- body of the `for part in s.split_whitespace()` loop of `validate_caps_text` -/
def validateClause (part : Str) : Out Unit :=
  match findOp part with
  | none => .err "no-op"
  | some index =>
    if index == 0 && !(part.head? == some 61) then .err "first-char"
    else do
      validateCapset (part.take index)
      validateSuffix (part.drop index)

def clauseLoop : List Str → Out Unit
  | [] => .ok ()
  | part :: ps => do validateClause part; clauseLoop ps

def validateCapsText (s : Str) : Out Unit :=
  if (trim s).isEmpty then .err "empty" else clauseLoop (splitWhitespace (trim s))

/-- `FileCaps(String)` -/
structure FileCaps where
  text : Str
  deriving Repr, DecidableEq

/-- `FileCaps::new(input: String)` -/
def FileCaps.new (input : Str) : Out FileCaps := do
  validateCapsText input
  pure ⟨input⟩

/-- `<FileCaps as FromStr>::from_str(s)` (`s.to_owned()`) -/
def FileCaps.fromStr (s : Str) : Out FileCaps := do
  validateCapsText s
  pure ⟨s⟩

/-- `<FileCaps as Display>::fmt` : `write!(f, "{}", self.0)` -/
def FileCaps.display (c : FileCaps) : Str := c.text

/-- `FileOptionsBuilder::caps`: the new value of `inner.caps`, or `Error::InvalidCapabilities` -/
def fileOptionsCaps (caps : Str) : Out (Option FileCaps) :=
  match FileCaps.fromStr caps with
  | .ok c => .ok (some c)
  | .err _ => .err "InvalidCapabilities"
  | .panic p => .panic p

end RpmVerif.FileCaps
