import RpmVerif.Model.Basic
import RpmVerif.Gen.CapsTable
/-!
# Model of `src/rpm/filecaps.rs` (C19) on all Rust strings

A string is the list of its Unicode scalar values (`List Nat`, code points — what Rust's `chars()`
yields).  Nothing here is restricted to ASCII:

* `str::trim`, `str::split_whitespace` use `char::is_whitespace` = the Unicode `White_Space` property
  (`isWs`, the table of `core::unicode::white_space` transcribed by hand);
* `to_ascii_uppercase`, `eq_ignore_ascii_case` change the 26 ASCII letters only and leave every other
  code point alone (`toAsciiUpper`, `toAsciiLower`);
* `str::find` returns a **byte** index and `part[..index]` / `part[index..]` slice **bytes**; the
  pattern `['+', '-', '=']` matches ASCII chars only, UTF-8 never uses the bytes `0x00–0x7F` inside a
  multi-byte sequence, so the byte index of the match is a char boundary and the two slices are
  exactly the chars before the first operator char and the chars from it on.  The model therefore
  works with the *char* index (`findOp`, `List.take`, `List.drop`); `index == 0` is the same test in
  both units.

Function by function, same order of tests as the Rust code *as it is now* (after `fix:` 0cd6a82: the
leading-`=` rule tests the clause `part`, not the whole text; after `fix:` e20037b: names are
upper-cased with `to_ascii_uppercase`, not with the Unicode `to_uppercase`).  The code before
e20037b is kept as the parameterised `validateCapsTextWith` at the end of this file; it is used only
by the witness theorem `C19.old_unicode_upper_witness`.
-/
namespace RpmVerif.FileCaps
open RpmVerif

abbrev Str := List Nat

/-- `char::is_whitespace`: the Unicode `White_Space` property (Rust `core::unicode::white_space`):
U+0009–U+000D, U+0020, U+0085, U+00A0, U+1680, U+2000–U+200A, U+2028, U+2029, U+202F, U+205F, U+3000 -/
def isWs (c : Nat) : Bool :=
  (9 ≤ c && c ≤ 13) || c == 32 || c == 0x85 || c == 0xA0 || c == 0x1680 || (0x2000 ≤ c && c ≤ 0x200A) ||
  c == 0x2028 || c == 0x2029 || c == 0x202F || c == 0x205F || c == 0x3000

/-- `str::trim_start` -/
def trimStart (s : Str) : Str := s.dropWhile isWs
/-- `str::trim_end` -/
def trimEnd (s : Str) : Str := (s.reverse.dropWhile isWs).reverse
/-- `str::trim` -/
def trim (s : Str) : Str := trimEnd (trimStart s)

/-- `str::split(pred)`: the iterator state is the piece collected so far (reversed) and the rest;
a final (possibly empty) piece is always produced -/
def splitGo (p : Nat → Bool) : Str → Str → List Str
  | acc, [] => [acc.reverse]
  | acc, c :: r => if p c then acc.reverse :: splitGo p [] r else splitGo p (c :: acc) r
def split (p : Nat → Bool) (s : Str) : List Str := splitGo p [] s

/-- `str::split_whitespace` = `split(char::is_whitespace).filter(|s| !s.is_empty())` -/
def splitWhitespace (s : Str) : List Str := (split isWs s).filter (fun w => !w.isEmpty)

/-- one of `['+', '-', '=']` -/
def isOpCh (c : Nat) : Bool := c == 43 || c == 45 || c == 61

/-- `part.find(['+', '-', '='])`, as a char index (see the header: the byte index Rust returns is the
byte offset of this char, and the chars before it are exactly `part[..index]`) -/
def findOp : Str → Option Nat
  | [] => none
  | c :: r => if isOpCh c then some 0 else (findOp r).map (· + 1)

/-- `char::to_ascii_lowercase` (non-ASCII code points are unchanged) -/
def toAsciiLower (c : Nat) : Nat := if 65 ≤ c ∧ c ≤ 90 then c + 32 else c
/-- `char::to_ascii_uppercase` (`str::to_ascii_uppercase` maps it over the string; non-ASCII code
points are unchanged) -/
def toAsciiUpper (c : Nat) : Nat := if 97 ≤ c ∧ c ≤ 122 then c - 32 else c

/-- `"all"` -/
def allLit : Str := [97, 108, 108]

/-- `str::eq_ignore_ascii_case`: equal byte lengths and bytewise equal after `u8::to_ascii_lowercase`;
bytes ≥ 0x80 are compared as they are, so this is: equal as char sequences after
`char::to_ascii_lowercase` (UTF-8 is injective and ASCII letters are single bytes) -/
def eqIgnoreAsciiCase (a b : Str) : Bool := a.map toAsciiLower == b.map toAsciiLower

/-- the `for part in s.split(',')` loop of `validate_capset` -/
def capsetLoop : List Str → Out Unit
  | [] => .ok ()
  | part :: ps =>
    if !(Gen.capsTable.contains (part.map toAsciiUpper)) then .err "unknown-cap" else capsetLoop ps

def validateCapset (s : Str) : Out Unit :=
  if s.isEmpty || eqIgnoreAsciiCase s allLit then .ok ()
  else capsetLoop (split (· == 44) s)

/-- the `for ch in s.chars()` loop of `validate_suffix`; the first argument is `last_ch`.
`debug_assert!(last_ch.is_some())` is live in the harness build (debug assertions on), so it is a
panic outcome here. -/
def suffixLoop : Option Nat → Str → Out Unit
  | _, [] => .ok ()
  | last, ch :: r =>
    if isOpCh ch then
      match last with
      | some l => if isOpCh l then .err "adjacent-ops" else suffixLoop (some ch) r
      | none => suffixLoop (some ch) r
    else if ch == 112 || ch == 105 || ch == 101 then
      if last.isNone then .panic "debug_assert(last_ch.is_some())" else suffixLoop (some ch) r
    else .err "suffix-char"

def validateSuffix (s : Str) : Out Unit := suffixLoop none s

/-- body of the `for part in s.split_whitespace()` loop of `validate_caps_text` -/
def validateClause (part : Str) : Out Unit :=
  match findOp part with
  | none => .err "no-op"
  | some index =>
    if index == 0 && !(part.head? == some 61) then .err "first-char"
    else do
      validateCapset (part.take index)
      validateSuffix (part.drop index)

def clauseLoop : List Str → Out Unit
  | [] => .ok ()
  | part :: ps => do validateClause part; clauseLoop ps

def validateCapsText (s : Str) : Out Unit :=
  if (trim s).isEmpty then .err "empty" else clauseLoop (splitWhitespace (trim s))

/-- `FileCaps(String)` -/
structure FileCaps where
  text : Str
  deriving Repr, DecidableEq

/-- `FileCaps::new(input: String)` -/
def FileCaps.new (input : Str) : Out FileCaps := do
  validateCapsText input
  pure ⟨input⟩

/-- `<FileCaps as FromStr>::from_str(s)` (`s.to_owned()`) -/
def FileCaps.fromStr (s : Str) : Out FileCaps := do
  validateCapsText s
  pure ⟨s⟩

/-- `<FileCaps as Display>::fmt` : `write!(f, "{}", self.0)` -/
def FileCaps.display (c : FileCaps) : Str := c.text

/-- `FileOptionsBuilder::caps`: the new value of `inner.caps`, or `Error::InvalidCapabilities` -/
def fileOptionsCaps (caps : Str) : Out (Option FileCaps) :=
  match FileCaps.fromStr caps with
  | .ok c => .ok (some c)
  | .err _ => .err "InvalidCapabilities"
  | .panic p => .panic p

/-! ## The code before `fix:` e20037b, parameterised by the upper-casing

`validate_capset` used `part.to_uppercase()`: the Unicode upper-casing, which maps one char to one
**or more** chars (`upper : Nat → List Nat`; `str::to_uppercase` concatenates the images).  Everything
else is as above.  Instantiated with `fun c => [toAsciiUpper c]` this is the model above
(`Lemmas/FileCaps.lean`, `validateCapsTextWith_ascii`). -/

def capsetLoopWith (upper : Nat → List Nat) : List Str → Out Unit
  | [] => .ok ()
  | part :: ps =>
    if !(Gen.capsTable.contains (part.flatMap upper)) then .err "unknown-cap" else capsetLoopWith upper ps

def validateCapsetWith (upper : Nat → List Nat) (s : Str) : Out Unit :=
  if s.isEmpty || eqIgnoreAsciiCase s allLit then .ok ()
  else capsetLoopWith upper (split (· == 44) s)

def validateClauseWith (upper : Nat → List Nat) (part : Str) : Out Unit :=
  match findOp part with
  | none => .err "no-op"
  | some index =>
    if index == 0 && !(part.head? == some 61) then .err "first-char"
    else do
      validateCapsetWith upper (part.take index)
      validateSuffix (part.drop index)

def clauseLoopWith (upper : Nat → List Nat) : List Str → Out Unit
  | [] => .ok ()
  | part :: ps => do validateClauseWith upper part; clauseLoopWith upper ps

def validateCapsTextWith (upper : Nat → List Nat) (s : Str) : Out Unit :=
  if (trim s).isEmpty then .err "empty" else clauseLoopWith upper (splitWhitespace (trim s))

/-- a few entries of Unicode's upper-casing (`char::to_uppercase`) beyond ASCII: U+0131 dotless i ↦ `I`,
U+017F long s ↦ `S`, U+00DF sharp s ↦ `SS`, U+FB05 / U+FB06 (ligatures long-s-t / st) ↦ `ST`; the ASCII
letters as usual; every other code point is left alone here (this is a sample, not the full table) -/
def unicodeUpperSample (c : Nat) : List Nat :=
  if c == 0x131 then [73] else if c == 0x17F then [83] else if c == 0xDF then [83, 83]
  else if c == 0xFB05 || c == 0xFB06 then [83, 84] else [toAsciiUpper c]

end RpmVerif.FileCaps
