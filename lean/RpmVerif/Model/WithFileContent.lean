import RpmVerif.Model.WithFile
/-!
# The builder's file map WITH the contents (`PackageFileEntry.content`)

`Bld.FileE` (Model/Builder.lean) is `PackageFileEntry` without its `content: Vec<u8>` field: the header records are a
function of the other fields, the archive is a function of (cpio path, mode, content).  The digest clauses of C07 / C08 are
about the two TOGETHER — `sha_checksum` is computed in `add_data` from the very `content` that is stored next to it and
that `prepare_data` later writes into the archive (`entry.content.to_owned()`) — so here the map `self.files:
BTreeMap<String, PackageFileEntry>` is modelled with both: a sorted list of `(FileE × content)`.

```rust
let mut hasher = sha2::Sha256::default();  hasher.update(&content);
let sha_checksum = hex::encode(hasher.finalize());
let entry = PackageFileEntry { base_name, size: content.len() as u64, content, …, sha_checksum, … };
self.directories.insert(dir);
self.files.entry(cpio_path).or_insert(entry);            // a path that is already present KEEPS its first entry
```
-/
namespace RpmVerif.WithFile
open RpmVerif.Bld

/-- `PackageFileEntry`: the header-side fields and the content -/
abbrev FileC := FileE × Bytes

/-- what `read_to_end` put into `content` -/
def Source.content : Source → Bytes
  | .readable f => f.content
  | _ => []

/-- `with_file(source, options)` keeping the content that `add_data` moves into the entry -/
def withFileC (sha256hex : Bytes → Bytes) (src : Source) (options : FileOpts) : Out FileC :=
  match withFile sha256hex src options with
  | .ok e => .ok (e, src.content)
  | .err c => .err c
  | .panic p => .panic p

/-- `self.files.entry(cpio_path).or_insert(entry)`: same walk as `insertFileE`, on the entries with their contents -/
def insertFileC (p : FileC) : List FileC → List FileC
  | [] => [p]
  | g :: r => if p.1.cpioPath == g.1.cpioPath then g :: r
              else if p.1.cpioPath < g.1.cpioPath then p :: g :: r else g :: insertFileC p r

def runCallC (sha256hex : Bytes → Bytes) (valid : Bytes → Bool) (c : Call) : Out FileC :=
  match applySetters valid c.setters (FileOpts.new c.dest) with
  | .ok o => withFileC sha256hex c.src o
  | .err e => .err e
  | .panic p => .panic p

/-- the `with_file` calls in order, each with `?`; the state is the file map with contents -/
def buildFilesC (sha256hex : Bytes → Bytes) (valid : Bytes → Bool) : List Call → List FileC → Out (List FileC)
  | [], s => .ok s
  | c :: r, s =>
    match runCallC sha256hex valid c with
    | .ok e => buildFilesC sha256hex valid r (insertFileC e s)
    | .err e => .err e
    | .panic p => .panic p

end RpmVerif.WithFile
