import RpmVerif.Model.Getters
/-!
# L4: `Package::verify_digests` — model of `src/rpm/package.rs` (as it is now, after fix 5ccba43)

The three hash functions are PARAMETERS (`md5 sha1 sha256 : Bytes → Bytes`, raw digest bytes); the model
fixes only the decision logic around them:

1. the main header is re-serialised (`self.metadata.header.write(&mut header)`), never the signature header;
2. `RPMSIGTAG_MD5` (binary getter) is compared with MD5(header ++ content) as raw bytes;
3. `RPMSIGTAG_SHA1` / `RPMSIGTAG_SHA256` (string getter) are compared AS TEXT with `hex::encode(digest)`
   (lower case) of the header bytes;
4. a getter error of any kind (`if let Ok(..)`) skips the comparison;
5. the payload digest is looked at only if BOTH `RPMTAG_PAYLOADDIGEST` (string-array getter) and
   `RPMTAG_PAYLOADDIGESTALGO` (u32 getter) succeed; the number goes through `DigestAlgorithm::from_u32`
   (generated table) — unknown → `InvalidTagValueEnumVariant` (class `enum-variant`); a variant other
   than `Sha2_256` → `UnsupportedDigestAlgorithm` (class `unsupported`); then
   `payload_digest_val.first() != Some(&hex(sha256(content)))` → mismatch (so an empty array mismatches).

Checks run in the order md5, sha1, sha256, payload; the first failing one is the result.
-/
namespace RpmVerif.Digest
open RpmVerif.Hdr RpmVerif.Gen

def hexDigitByte (n : Nat) : UInt8 := if n < 10 then (48 + n).toUInt8 else (87 + n).toUInt8

/-- `hex::encode`, as the bytes of the resulting (ASCII, lower-case) string -/
def hexLower (bs : Bytes) : Bytes :=
  bs.flatMap fun b => [hexDigitByte (b.toNat / 16), hexDigitByte (b.toNat % 16)]

/-- `DigestAlgorithm::from_u32`: the variant (by name) with that discriminant -/
def algoFromU32 (n : Nat) : Option String :=
  (digestAlgoTable.find? (fun e => e.2 == n)).map (·.1)

/-- one block `if let Ok(declared) = declared { if declared != computed { return Err(DigestMismatchError) } }` -/
def checkDeclared (declared : Out Bytes) (computed : Bytes) : Out Unit :=
  match declared with
  | .ok d => if d ≠ computed then .err "mismatch" else pure ()
  | _ => pure ()

/-- the payload-digest block -/
def checkPayload (sha256 : Bytes → Bytes) (p : Package) : Out Unit :=
  match getStringArray p.md.header IndexTag.RPMTAG_PAYLOADDIGEST,
        getU32 p.md.header IndexTag.RPMTAG_PAYLOADDIGESTALGO with
  | .ok val, .ok algo =>
    match algoFromU32 algo with
    | none => .err "enum-variant"
    | some name =>
      if name ≠ "Sha2_256" then .err "unsupported"
      else if val.head? ≠ some (hexLower (sha256 p.content)) then .err "mismatch"
      else pure ()
  | _, _ => pure ()

/-- `Package::verify_digests` -/
def verifyDigests (md5 sha1 sha256 : Bytes → Bytes) (p : Package) : Out Unit := do
  let header := writeHeader p.md.header
  let md5Declared := getBinary p.md.signature SigTag.RPMSIGTAG_MD5
  let sha1Declared := getString p.md.signature SigTag.RPMSIGTAG_SHA1
  let sha256Declared := getString p.md.signature SigTag.RPMSIGTAG_SHA256
  checkDeclared md5Declared (md5 (header ++ p.content))
  checkDeclared sha1Declared (hexLower (sha1 header))
  checkDeclared sha256Declared (hexLower (sha256 header))
  checkPayload sha256 p

end RpmVerif.Digest
