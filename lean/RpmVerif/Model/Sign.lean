import RpmVerif.Model.Builder
import RpmVerif.Model.Getters
import RpmVerif.Model.Digest
import RpmVerif.Model.PgpFraming
import RpmVerif.Gen.SigLegacyTags
/-!
# L4: signing histories — model of `Package::{sign_with_timestamp, clear_signatures, verify_signature,
signature_key_ids}` (`src/rpm/package.rs`) over an ABSTRACT signature scheme

The OpenPGP implementation (`pgp` crate: `Signer::sign`, `Verifier::verify`, `parse_signature` / `issuer`,
base64 armour of the `OPENPGP` entries) is a PARAMETER (`SigScheme`); what is assumed about it is stated as
named propositions (`Correct`, `Binds`, `IssuerOk`, `B64`, …) and appears as hypotheses of the theorems in
`Props/C10.lean`. SHA-256 (and MD5 / SHA-1 for `verify_digests`) are parameters as well.

Mirrored code, branch by branch:

* `sign_with_timestamp`: serialise the MAIN header only; `hex(sha256(header))`; `signer.sign(header, t)`;
  `SignatureHeaderBuilder::new().set_sha256_digest(..).add_openpgp_signature(sig).build()` — one OPENPGP
  string-array entry holding the base64 text, the legacy tag chosen by the key algorithm (RSA → 268,
  ECDSA / EdDSA → 267) holding the raw signature, the SHA256 entry; the WHOLE signature header is replaced.
* `clear_signatures`: the same builder with the digest only.
* `verify_signature`: `verify_digests()?` first; then, if the OPENPGP string array can be read: empty → error,
  every entry must decode and verify (over the main header bytes); otherwise the legacy tags: none of
  RSA / DSA / PGP readable → `NoSignatureFound`; DSA, then RSA (header only), then PGP (header ++ content)
  must each verify when readable.
* `signature_key_ids` (after fix 1e6a530): OPENPGP branch: per entry decode, parse, the issuer list of THAT
  signature must have exactly one element; legacy branch: RSA, then DSA, then PGP — the last readable tag
  wins, even over an earlier one that parsed — exactly one issuer. Another count is reported as
  `UnexpectedIssuerCount(n as u32)` through `try_into().unwrap()` (`issuerCountErr`: a panic from 2^32 issuers on).
  The OPENPGP loop decodes base64 with an inline `Base64Decoder` of its own (`package.rs:297`), not `decode_sig`: the
  model has ONE `b64dec`; the two sites are tied by the `vsig` / `sigpkts` runs of C02, which predict `verify_signature`
  and `signature_key_ids` of the same package from the same decoding table.
* `verifyWith` and C02's `Verify.verifySignatureS` mirror the same function: `Lemmas/Sign.lean:
  verifyWith_eq_verifySignatureS` (same result, same error class).
-/
namespace RpmVerif.Sign
open RpmVerif.Hdr RpmVerif.Gen RpmVerif.Digest

/-- the OpenPGP layer as a parameter -/
structure SigScheme where
  Key : Type
  decEq : DecidableEq Key
  /-- `Signer::sign(data, t)`: the serialised signature packet -/
  sign : Key → Bytes → Nat → Bytes
  /-- `Verifier::verify(data, signature).is_ok()` for the verifier loaded from the key's public half -/
  verify : Key → Bytes → Bytes → Bool
  /-- `parse_signature(sig)` then `.issuer()` as key-id bytes; `none` = no signature packet could be parsed -/
  issuer : Bytes → Option (List Bytes)
  /-- key id of the key's primary key -/
  keyId : Key → Bytes
  /-- the legacy tag `SignatureHeaderBuilder::build` picks from the signature's public-key algorithm -/
  legacyTag : Key → Nat
  /-- `encode_sig` (standard base64) and `decode_sig` (`Base64Decoder`; `none` = I/O error) on text bytes -/
  b64enc : Bytes → Bytes
  b64dec : Bytes → Option Bytes

instance (S : SigScheme) : DecidableEq S.Key := S.decEq

namespace SigScheme
variable (S : SigScheme)

/-- a signature verifies with the key that made it over the data it was made for -/
def Correct : Prop := ∀ k m t, S.verify k m (S.sign k m t) = true
/-- … and with no other key and over no other data -/
def Binds : Prop := ∀ k k' m m' t, S.verify k' m' (S.sign k m t) = true → k' = k ∧ m' = m
/-- a fresh signature names exactly its signer as issuer -/
def IssuerOk : Prop := ∀ k m t, S.issuer (S.sign k m t) = some [S.keyId k]
/-- base64 text decodes to what was encoded -/
def B64 : Prop := ∀ s, S.b64dec (S.b64enc s) = some s
/-- the builder only ever picks the RSA or the DSA legacy tag -/
def LegacyOk : Prop := ∀ k, S.legacyTag k = SigTag.RPMSIGTAG_RSA ∨ S.legacyTag k = SigTag.RPMSIGTAG_DSA

end SigScheme

/-! ### `Verifier::parse_signature` inside the scheme

`SigScheme.issuer` is an opaque function of the whole signature blob. What rpm-rs's own code does there is
`Verifier::parse_signature(blob)?` (`Pgp.parseSignature`: framing by `split_packets`, then the FIRST packet the `pgp`
crate's parser returns as a signature) followed by `.issuer()` on the parsed packet — in `signature_key_ids` — or by the
`match signature.config.pub_alg` of `SignatureHeaderBuilder::build`. `PktParser` is the `pgp` crate seen one packet at a
time; `framedIssuer` / `builderTag` are the two compositions; `SigScheme.withParser` plugs the first into a scheme. -/

/-- the `pgp` crate's packet parser, one packet at a time, and what rpm-rs reads from a parsed signature -/
structure PktParser where
  σ : Type
  /-- `PacketParser::new(Cursor::new(packet)).next()` is `Some(Ok(Packet::Signature(s)))` -/
  parsePkt : Bytes → Option σ
  /-- `s.issuer()`, each key id as the text `format!("{:x}", id)` -/
  issuers : σ → List Bytes
  /-- `u8::from(s.config.pub_alg)` -/
  pubAlg : σ → Nat

/-- `Verifier::parse_signature(sig)` then `.issuer()`; `none` = `NoSignatureFound` -/
def framedIssuer (P : PktParser) (sig : Bytes) : Option (List Bytes) :=
  (Pgp.parseSignature P.parsePkt sig).map P.issuers

/-- the scheme whose `issuer` is `parse_signature` + `issuer()` over the packet parser `P` -/
def SigScheme.withParser (S : SigScheme) (P : PktParser) : SigScheme := { S with issuer := framedIssuer P }

/-- `S.issuer` IS that composition -/
def SigScheme.Framed (S : SigScheme) (P : PktParser) : Prop := ∀ b, S.issuer b = framedIssuer P b

/-- the legacy tag `SignatureHeaderBuilder::build` picks for one signature blob: `parse_signature(sig_bytes)?`, then the
arms of `match signature.config.pub_alg` (table scraped from the source, `Gen.sigLegacyTagOfAlg`); every other
algorithm is `UnsupportedPGPKeyType` -/
def builderTag (P : PktParser) (sig : Bytes) (tbl : List (Nat × Nat) := Gen.sigLegacyTagOfAlg) : Out Nat :=
  match Pgp.parseSignature P.parsePkt sig with
  | none => .err "nosig"
  | some s =>
    match tbl.lookup (P.pubAlg s) with
    | some tag => .ok tag
    | none => .err "keytype"

/-! ### the operations -/

/-- `hex::encode(Sha256::digest(header_bytes))` -/
def shaHex (sha256 : Bytes → Bytes) (hb : Bytes) : Bytes := hexLower (sha256 hb)

/-- the records `SignatureHeaderBuilder::build` pushes for one signature plus digest -/
def signRecs (S : SigScheme) (sha256 : Bytes → Bytes) (k : S.Key) (t : Nat) (hb : Bytes) : List (Nat × IndexData) :=
  [(SigTag.RPMSIGTAG_OPENPGP, .strArray [S.b64enc (S.sign k hb t)]),
   (S.legacyTag k, .bin (S.sign k hb t)),
   (SigTag.RPMSIGTAG_SHA256, .str (shaHex sha256 hb))]

/-- … and for the digest alone -/
def clearRecs (sha256 : Bytes → Bytes) (hb : Bytes) : List (Nat × IndexData) :=
  [(SigTag.RPMSIGTAG_SHA256, .str (shaHex sha256 hb))]

/-- the signature header `sign_with_timestamp(signer k, t)` installs, given the serialised main header -/
def signedSig (S : SigScheme) (sha256 : Bytes → Bytes) (k : S.Key) (t : Nat) (hb : Bytes) : Header :=
  Bld.signatureHeader [(S.legacyTag k, S.sign k hb t, S.b64enc (S.sign k hb t))] (some (shaHex sha256 hb))

/-- the signature header `clear_signatures` installs -/
def clearedSig (sha256 : Bytes → Bytes) (hb : Bytes) : Header :=
  Bld.signatureHeader [] (some (shaHex sha256 hb))

theorem signedSig_eq (S : SigScheme) (sha256 : Bytes → Bytes) (k : S.Key) (t : Nat) (hb : Bytes) :
    signedSig S sha256 k t hb = fromEntries (signRecs S sha256 k t hb) SigTag.HEADER_SIGNATURES := rfl

theorem clearedSig_eq (sha256 : Bytes → Bytes) (hb : Bytes) :
    clearedSig sha256 hb = fromEntries (clearRecs sha256 hb) SigTag.HEADER_SIGNATURES := rfl

/-- `Package::sign_with_timestamp` -/
def signOp (S : SigScheme) (sha256 : Bytes → Bytes) (k : S.Key) (t : Nat) (p : Package) : Package :=
  ⟨⟨p.md.lead, signedSig S sha256 k t (writeHeader p.md.header), p.md.header⟩, p.content⟩

/-- `Package::clear_signatures` -/
def clearOp (sha256 : Bytes → Bytes) (p : Package) : Package :=
  ⟨⟨p.md.lead, clearedSig sha256 (writeHeader p.md.header), p.md.header⟩, p.content⟩

/-- `Package::write` into a buffer, then `Package::parse` of that buffer -/
def writeParse (p : Package) : Out Package := parsePackage (writePackage p)

inductive Op (K : Type) where
  | sign (k : K) (t : Nat)
  | clear
  | writeParse
  deriving Repr

def step (S : SigScheme) (sha256 : Bytes → Bytes) : Op S.Key → Package → Out Package
  | .sign k t, p => .ok (signOp S sha256 k t p)
  | .clear, p => .ok (clearOp sha256 p)
  | .writeParse, p => writeParse p

/-- a history, applied left to right; the first failing step ends it -/
def run (S : SigScheme) (sha256 : Bytes → Bytes) : List (Op S.Key) → Package → Out Package
  | [], p => .ok p
  | o :: os, p => step S sha256 o p >>= run S sha256 os

/-- what a history leaves behind, as far as signatures go -/
inductive SigState (K : Type) where
  | initial                    -- no sign / clear yet: the start package's own signature header
  | cleared
  | signed (k : K) (t : Nat)
  deriving Repr

def SigState.after {K : Type} : SigState K → Op K → SigState K
  | _, .sign k t => .signed k t
  | _, .clear => .cleared
  | s, .writeParse => s

def stateAfter {K : Type} (s : SigState K) (ops : List (Op K)) : SigState K := ops.foldl SigState.after s

/-- the key that signed most recently with no clear since -/
def SigState.signer {K : Type} : SigState K → Option K
  | .signed k _ => some k
  | _ => none

def lastSigner {K : Type} (ops : List (Op K)) : Option K := (stateAfter .initial ops).signer

/-! ### `verify_signature` -/

/-- the `for base64_sig in openpgp_signatures` loop -/
def verifyAll (S : SigScheme) (k : S.Key) (hb : Bytes) : List Bytes → Out Unit
  | [] => .ok ()
  | b64 :: rest =>
    match S.b64dec b64 with
    | none => .err "base64"
    | some sig => if S.verify k hb sig then verifyAll S k hb rest else .err "verify"

/-- `if let Ok(sig) = tag { verifier.verify(data, sig)? }` -/
def verifyLegacy (S : SigScheme) (k : S.Key) (data : Bytes) (sig : Out Bytes) : Out Unit :=
  match sig with
  | .ok s => if S.verify k data s then .ok () else .err "verify"
  | _ => .ok ()

/-- `Package::verify_signature(verifier of k)` -/
def verifyWith (S : SigScheme) (md5 sha1 sha256 : Bytes → Bytes) (k : S.Key) (p : Package) : Out Unit := do
  let hb := writeHeader p.md.header
  verifyDigests md5 sha1 sha256 p
  match getStringArray p.md.signature SigTag.RPMSIGTAG_OPENPGP with
  | .ok sigs => if sigs.isEmpty then .err "nosig" else verifyAll S k hb sigs
  | _ =>
    let rsa := getBinary p.md.signature SigTag.RPMSIGTAG_RSA
    let dsa := getBinary p.md.signature SigTag.RPMSIGTAG_DSA
    let pgp := getBinary p.md.signature SigTag.RPMSIGTAG_PGP
    if !rsa.isOk && !dsa.isOk && !pgp.isOk then .err "nosig" else do
      verifyLegacy S k hb dsa
      verifyLegacy S k hb rsa
      verifyLegacy S k (hb ++ p.content) pgp

/-! ### `signature_key_ids` -/

/-- `Error::UnexpectedIssuerCount(n.try_into().unwrap())` (`package.rs:308-310, 351-353`): the count is narrowed from
`usize` to the `u32` the variant carries; the `unwrap` panics for a list of 2^32 or more issuers. The error class
carries the count (the harness prints the variant's field). -/
def issuerCountErr (n : Nat) : Out (List Bytes) :=
  if n < 4294967296 then .err ("issuer-count:" ++ toString n) else .panic "issuer-count-u32"

/-- `parse_signature(sig)?.issuer()` with the "exactly one issuer" test -/
def oneIssuer (S : SigScheme) (sig : Bytes) : Out (List Bytes) :=
  match S.issuer sig with
  | none => .err "nosig"
  | some ids => if ids.length ≠ 1 then issuerCountErr ids.length else .ok ids

/-- every issuer list the OpenPGP layer returns has fewer than 2^32 entries (a v4 signature's two sub-packet areas hold
at most 65535 bytes each; a v6 one's at most 2^32 - 1 bytes, ten per Issuer sub-packet): under it the `unwrap` of
`issuerCountErr` is unreachable -/
def SigScheme.IssuerSmall (S : SigScheme) : Prop := ∀ b ids, S.issuer b = some ids → ids.length < 4294967296

/-- the loop over the OPENPGP entries -/
def idsAll (S : SigScheme) : List Bytes → Out (List Bytes)
  | [] => .ok []
  | b64 :: rest =>
    match S.b64dec b64 with
    | none => .err "b64"
    | some sig => do
      let ids ← oneIssuer S sig
      let more ← idsAll S rest
      pure (ids ++ more)

/-- `if let Ok(sig) = tag { signature = parse_signature(sig) }`: a readable tag overrides what was there -/
def pickLegacy (cur : Option Bytes) (tag : Out Bytes) : Option Bytes :=
  match tag with
  | .ok s => some s
  | _ => cur

/-- `Package::signature_key_ids` -/
def keyIds (S : SigScheme) (p : Package) : Out (List Bytes) :=
  match getStringArray p.md.signature SigTag.RPMSIGTAG_OPENPGP with
  | .ok sigs => idsAll S sigs
  | _ =>
    let s := pickLegacy none (getBinary p.md.signature SigTag.RPMSIGTAG_RSA)
    let s := pickLegacy s (getBinary p.md.signature SigTag.RPMSIGTAG_DSA)
    let s := pickLegacy s (getBinary p.md.signature SigTag.RPMSIGTAG_PGP)
    match s with
    | none => .err "nosig"
    | some sig => oneIssuer S sig

end RpmVerif.Sign

/-! ### a symbolic scheme (driver + non-vacuity)

Keys are bytes; a signature is an opaque token naming its key, time and data; it verifies with exactly that
key over exactly that data. The armour maps every byte to two letters `A`..`P`. -/
namespace RpmVerif.Sign.Sym
open RpmVerif.Gen

def sign (k : UInt8) (m : Bytes) (t : Nat) : Bytes := 0x53 :: k :: (be32 t ++ m)

/-- key and data of a token -/
def parts : Bytes → Option (UInt8 × Bytes)
  | m :: k :: _ :: _ :: _ :: _ :: d => if m = 0x53 then some (k, d) else none
  | _ => none

def verify (k : UInt8) (m : Bytes) (s : Bytes) : Bool :=
  match parts s with
  | some (k', m') => k' == k && m' == m
  | none => false

/-- the key byte of a token -/
def signerOf (s : Bytes) : Option UInt8 := (parts s).map (·.1)

def encByte (b : UInt8) : Bytes := [(65 + b.toNat / 16).toUInt8, (65 + b.toNat % 16).toUInt8]
def enc (s : Bytes) : Bytes := s.flatMap encByte

def dec : Bytes → Option Bytes
  | [] => some []
  | [_] => none
  | x :: y :: r =>
    if 65 ≤ x.toNat ∧ x.toNat < 81 ∧ 65 ≤ y.toNat ∧ y.toNat < 81 then
      (dec r).map (((x.toNat - 65) * 16 + (y.toNat - 65)).toUInt8 :: ·)
    else none

/-- the scheme, for a table of key ids; keys 0 and 1 are RSA keys, all others use the DSA tag -/
def scheme (ids : UInt8 → Bytes) : SigScheme where
  Key := UInt8
  decEq := inferInstance
  sign := sign
  verify := verify
  issuer := fun s => (signerOf s).map fun k => [ids k]
  keyId := ids
  legacyTag := fun k => if k < 2 then SigTag.RPMSIGTAG_RSA else SigTag.RPMSIGTAG_DSA
  b64enc := enc
  b64dec := dec

end RpmVerif.Sign.Sym
