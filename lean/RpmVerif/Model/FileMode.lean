import RpmVerif.Gen.FileModeConsts
/-!
# Model of `FileMode` (src/rpm/headers/types.rs)

`u16` values are `Nat`s below 65536, `i32` values are `Int`s; the two `as u16` casts of the Rust code
are `asU16`. Function by function, branch by branch as in the source:

* `impl From<u16> for FileMode`      → `fromU16`   (match order: DIR, REGULAR, SYMBOLIC_LINK, `_`)
* `impl From<i32> for FileMode`      → `fromI32`   (`raw > u16::MAX || raw < i16::MIN` → Invalid, else `as u16`)
* `FileMode::regular / dir / symbolic_link` → `mkRegular / mkDir / mkSymlink`
* `to_result`, `try_from_raw`        → `isErr`, `tryFromRaw`
* `raw_mode`, `file_type`, `permissions` → `rawMode`, `fileType`, `permissions`
* `From<FileMode> for u16 / u32`     → `toU16`, `toU32`

* the public variant fields (`FileMode::Regular { permissions }`), `#[derive(PartialEq, Hash)]` → `fieldOf`, `derivedEq`, `hashFeed`

The five mask / type constants come from the generated table `Gen/FileModeConsts.lean`.
The `reason: &'static str` field of `Invalid` is not stored in the model's `.invalid raw`: for every value the two `From`
impls build it is a function of the stored number (`reasonOf`), which is how it enters `derivedEq` / `hashFeed`.
-/
namespace RpmVerif.FileMode
open RpmVerif.Gen

inductive FileMode where
  | dir (permissions : Nat)
  | regular (permissions : Nat)
  | symlink (permissions : Nat)
  /-- `Invalid { raw_mode: i32, .. }` -/
  | invalid (rawMode : Int)
  deriving DecidableEq, Repr

/-- Rust `x as u16` for an integer `x` (two's complement truncation): `x mod 2^16` -/
def asU16 (x : Int) : Nat := (x % 65536).toNat

/-- `impl From<u16> for FileMode` -/
def fromU16 (w : Nat) : FileMode :=
  if w &&& fileTypeBitMask = dirFileType then .dir (w &&& permissionsBitMask)
  else if w &&& fileTypeBitMask = regularFileType then .regular (w &&& permissionsBitMask)
  else if w &&& fileTypeBitMask = symbolicLinkFileType then .symlink (w &&& permissionsBitMask)
  else .invalid (w : Int)

/-- `impl From<i32> for FileMode` (`u16::MAX = 65535`, `i16::MIN = -32768`) -/
def fromI32 (n : Int) : FileMode :=
  if n > 65535 ∨ n < -32768 then .invalid n else fromU16 (asU16 n)

/-- `FileMode::regular` -/
def mkRegular (p : Nat) : FileMode := .regular (p &&& permissionsBitMask)
/-- `FileMode::dir` -/
def mkDir (p : Nat) : FileMode := .dir (p &&& permissionsBitMask)
/-- `FileMode::symbolic_link` -/
def mkSymlink (p : Nat) : FileMode := .symlink (p &&& permissionsBitMask)

/-- `file_type` -/
def fileType : FileMode → Nat
  | .dir _ => dirFileType
  | .regular _ => regularFileType
  | .symlink _ => symbolicLinkFileType
  | .invalid raw => asU16 raw &&& fileTypeBitMask

/-- `permissions` -/
def permissions : FileMode → Nat
  | .dir p | .regular p | .symlink p => p
  | .invalid raw => asU16 raw &&& permissionsBitMask

/-- `raw_mode` -/
def rawMode : FileMode → Nat
  | .dir p => p ||| fileType (.dir p)
  | .regular p => p ||| fileType (.regular p)
  | .symlink p => p ||| fileType (.symlink p)
  | .invalid raw => asU16 raw

/-- `to_result().is_err()` -/
def isErr : FileMode → Bool
  | .invalid _ => true
  | _ => false

/-- `try_from_raw(raw).is_err()` together with the value it was computed from -/
def tryFromRaw (n : Int) : FileMode × Bool := (fromI32 n, isErr (fromI32 n))

/-- `u16::from(mode)` -/
def toU16 (m : FileMode) : Nat := rawMode m
/-- `u32::from(mode)` (`raw_mode() as u32`, zero extension) -/
def toU32 (m : FileMode) : Nat := rawMode m

def isDir : FileMode → Bool | .dir _ => true | _ => false
def isRegular : FileMode → Bool | .regular _ => true | _ => false
def isSymlink : FileMode → Bool | .symlink _ => true | _ => false

/-! ## Public variant fields, derived `==` and `Hash` (AUDIT2 a19) -/

/-- the `permissions` field as a `match` on the variant reads it (`FileMode::Regular { permissions } => …`), bypassing
the getter; `None` for `Invalid` -/
def fieldOf : FileMode → Option Nat
  | .dir p | .regular p | .symlink p => some p
  | .invalid _ => none

/-- the two `reason` texts of `Invalid` -/
inductive Reason where
  /-- "unknown file type" (`From<u16>`) -/
  | unknownFileType
  /-- "provided integer is out of 16bit bounds" (`From<i32>`) -/
  | outOf16BitBounds
  deriving DecidableEq, Repr

/-- the reason stored next to `raw_mode`: `From<u16>` stores `raw_mode as i32`, a number of 0..=65535, with the first text;
`From<i32>` stores a number outside −32768..=65535 with the second (inside that range it calls `From<u16>`) -/
def reasonOf (raw : Int) : Reason := if 0 ≤ raw ∧ raw ≤ 65535 then .unknownFileType else .outOf16BitBounds

/-- `#[derive(PartialEq)]`: the same variant and equal fields (`Invalid`: `raw_mode` and `reason`) -/
def derivedEq : FileMode → FileMode → Bool
  | .dir p, .dir q => p == q
  | .regular p, .regular q => p == q
  | .symlink p, .symlink q => p == q
  | .invalid r, .invalid s => r == s && decide (reasonOf r = reasonOf s)
  | _, _ => false

/-- `#[derive(Hash)]`: what is fed to the hasher — the discriminant, then the fields in declaration order. Two values get
the same hash from any `Hasher` when these sequences agree (and, collisions of the hasher aside, only then). -/
def hashFeed : FileMode → List Int
  | .dir p => [0, p]
  | .regular p => [1, p]
  | .symlink p => [2, p]
  | .invalid r => [3, r, if reasonOf r = .unknownFileType then 0 else 1]

/-- `FileMode::from(m.raw_mode())`: the value the 16-bit conversion makes of the mode word of `m` -/
def reconverted (m : FileMode) : FileMode := fromU16 (rawMode m)

/-! ## What the harness observes of one `FileMode` value -/

/-- `other`: any variant the (`#[non_exhaustive]`) enum may grow later; the model never produces it -/
inductive Kind where
  | dir | regular | symlink | invalid | other
  deriving DecidableEq, Repr

/-- everything the public API tells about a value: variant, `raw_mode()`, `file_type()`,
`permissions()`, `u16::from`, `u32::from`, `to_result().is_err()`, the `raw_mode` field when
the variant is `Invalid`; the `permissions` FIELD of the other variants (read by pattern matching, not through the getter),
whether `FileMode::from(m.raw_mode()) == m`, whether the two hash alike, and which of the two reasons an `Invalid` carries -/
structure Obs where
  kind : Kind
  raw : Nat
  ftype : Nat
  perm : Nat
  back16 : Nat
  back32 : Nat
  err : Bool
  stored : Option Int
  field : Option Nat := none
  rtEq : Bool := true
  hashEq : Bool := true
  reason : Option Reason := none
  deriving DecidableEq, Repr

def kindOf : FileMode → Kind
  | .dir _ => .dir | .regular _ => .regular | .symlink _ => .symlink | .invalid _ => .invalid

def storedOf : FileMode → Option Int
  | .invalid raw => some raw
  | _ => none

def observe (m : FileMode) : Obs :=
  { kind := kindOf m, raw := rawMode m, ftype := fileType m, perm := permissions m,
    back16 := toU16 m, back32 := toU32 m, err := isErr m, stored := storedOf m,
    field := fieldOf m, rtEq := derivedEq (reconverted m) m, hashEq := hashFeed (reconverted m) == hashFeed m,
    reason := (storedOf m).map reasonOf }

end RpmVerif.FileMode
