import RpmVerif.Model.Basic
/-!
# Model of `src/version.rs`: `compare_version_string`, `Evr`/`Nevra` ordering and equality.

Strings are lists of Unicode scalar values (`List Nat`), as Rust iterates `char`s.
`rustLoop` follows the `loop { … }` of `compare_version_string` return site by return site.
-/
set_option linter.unusedVariables false
namespace RpmVerif.Vercmp

/-- a Rust `&str` as its sequence of `char` code points -/
abbrev Str := List Nat

def isDigit (n : Nat) : Bool := 48 ≤ n && n ≤ 57          -- char::is_ascii_digit
def isAlpha (n : Nat) : Bool := (65 ≤ n && n ≤ 90) || (97 ≤ n && n ≤ 122)   -- is_ascii_alphabetic
/-- `not_alphanumeric_tilde_or_caret` -/
def isSep (n : Nat) : Bool := !(isDigit n) && !(isAlpha n) && n != 126 && n != 94

/-- `str::strip_prefix(c)` -/
def stripPfx (c : Nat) : Str → Option Str
  | [] => none
  | x :: r => if x = c then some r else none

theorem stripPfx_some {c l r} : stripPfx c l = some r ↔ l = c :: r := by
  cases l with
  | nil => simp [stripPfx]
  | cons x xs =>
    simp only [stripPfx]
    split <;> simp_all

theorem dw_le (p : Nat → Bool) (l : List Nat) : (l.dropWhile p).length ≤ l.length := by
  induction l with
  | nil => simp
  | cons x xs ih => simp only [List.dropWhile_cons]; split <;> simp <;> omega

theorem dw_lt {p : Nat → Bool} {x : Nat} {r : List Nat} (h : p x = true) :
    ((x :: r).dropWhile p).length < (x :: r).length := by
  simp only [List.dropWhile_cons, h, if_true, List.length_cons]
  have := dw_le p r
  omega

/-- The `loop` of `compare_version_string` (everything after the `==` shortcut).
Return sites, in source order: tilde (lt, gt, continue), caret (4 returns, continue), `break`
(folded with the final length compare: after trimming, a non-empty side is longer than an empty
one), digit run (len, lexical, `(Some,None) => Greater`), alpha run (lexical, `(Some,None) => Less`). -/
def rustLoop (a b : Str) : Ordering :=
  match h1 : stripPfx 126 (a.dropWhile isSep), h2 : stripPfx 126 (b.dropWhile isSep) with
  | some _, none => .lt
  | none, some _ => .gt
  | some a2, some b2 => rustLoop a2 b2
  | none, none =>
  match h3 : stripPfx 94 (a.dropWhile isSep), h4 : stripPfx 94 (b.dropWhile isSep) with
  | some _, none => if (b.dropWhile isSep).isEmpty then .gt else .lt
  | none, some _ => if (a.dropWhile isSep).isEmpty then .lt else .gt
  | some a2, some b2 => rustLoop a2 b2
  | none, none =>
  match h5 : a.dropWhile isSep, h6 : b.dropWhile isSep with
  | [], [] => .eq
  | [], _ :: _ => .lt
  | _ :: _, [] => .gt
  | x :: ra, y :: rb =>
    if hd : isDigit x then
      if hy : isDigit y then
        let n1 := ((x :: ra).takeWhile isDigit).dropWhile (· == 48)
        let n2 := ((y :: rb).takeWhile isDigit).dropWhile (· == 48)
        match (compare n1.length n2.length).then (compare n1 n2) with
        | .eq => rustLoop ((x :: ra).dropWhile isDigit) ((y :: rb).dropWhile isDigit)
        | o => o
      else .gt
    else
      if hy : isAlpha y then
        match compare ((x :: ra).takeWhile isAlpha) ((y :: rb).takeWhile isAlpha) with
        | .eq => rustLoop ((x :: ra).dropWhile isAlpha) ((y :: rb).dropWhile isAlpha)
        | o => o
      else .lt
termination_by a.length + b.length
decreasing_by
  · have := stripPfx_some.mp h1; have := stripPfx_some.mp h2
    have h := dw_le isSep a; have h' := dw_le isSep b; simp_all; omega
  · have := stripPfx_some.mp h3; have := stripPfx_some.mp h4
    have h := dw_le isSep a; have h' := dw_le isSep b; simp_all; omega
  · have := dw_lt (r := ra) hd; have := dw_le isDigit (y :: rb)
    have h := dw_le isSep a; have h' := dw_le isSep b; rw [h5] at h; rw [h6] at h'; omega
  · have := dw_lt (r := rb) hy; have := dw_le isAlpha (x :: ra)
    have h := dw_le isSep a; have h' := dw_le isSep b; rw [h5] at h; rw [h6] at h'; omega

/-- `compare_version_string` -/
def rustCmp (a b : Str) : Ordering := if a = b then .eq else rustLoop a b

structure Evr where
  epoch : Str
  version : Str
  release : Str
  deriving DecidableEq, Repr

structure Nevra where
  name : Str
  evr : Evr
  arch : Str
  deriving DecidableEq, Repr

/-- `if self.epoch.is_empty() { "0" } else { &self.epoch }` -/
def epochOr0 (e : Str) : Str := if e.isEmpty then [48] else e

/-- `impl Ord for Evr` -/
def Evr.cmp (x y : Evr) : Ordering :=
  let c := rustCmp (epochOr0 x.epoch) (epochOr0 y.epoch)
  if c != .eq then c else
  let c := rustCmp x.version y.version
  if c != .eq then c else
  rustCmp x.release y.release

/-- `impl PartialEq for Evr` -/
def Evr.eq (x y : Evr) : Bool :=
  (x.epoch == y.epoch || (x.epoch == [] && y.epoch == [48]) || (x.epoch == [48] && y.epoch == []))
    && x.version == y.version && x.release == y.release

/-- `impl Ord for Nevra` -/
def Nevra.cmp (x y : Nevra) : Ordering :=
  let c := rustCmp x.name y.name
  if c != .eq then c else
  let c := x.evr.cmp y.evr
  if c != .eq then c else
  rustCmp x.arch y.arch

/-- derived `PartialEq for Nevra` (uses `Evr`'s hand-written `eq`) -/
def Nevra.eq (x y : Nevra) : Bool := x.name == y.name && x.evr.eq y.evr && x.arch == y.arch

/-! ## `PartialOrd` and the comparison operators

`impl PartialOrd for Evr` / `for Nevra` are written by hand in src/version.rs (`Some(self.cmp(other))`); every `<`, `<=`,
`>`, `>=` on these types goes through `partial_cmp` (the provided methods of `core::cmp::PartialOrd`), `max` / `min` are the
provided methods of `core::cmp::Ord`. -/

/-- `impl PartialOrd for Evr`: `fn partial_cmp(&self, other) -> Option<Ordering> { Some(self.cmp(other)) }` -/
def Evr.partialCmp (x y : Evr) : Option Ordering := some (x.cmp y)

/-- `impl PartialOrd for Nevra`: the same body -/
def Nevra.partialCmp (x y : Nevra) : Option Ordering := some (x.cmp y)

/-- `PartialOrd::lt`: `matches!(self.partial_cmp(other), Some(Less))` -/
def optLt : Option Ordering → Bool | some .lt => true | _ => false
/-- `PartialOrd::le`: `matches!(self.partial_cmp(other), Some(Less | Equal))` -/
def optLe : Option Ordering → Bool | some .lt | some .eq => true | _ => false
/-- `PartialOrd::gt`: `matches!(self.partial_cmp(other), Some(Greater))` -/
def optGt : Option Ordering → Bool | some .gt => true | _ => false
/-- `PartialOrd::ge`: `matches!(self.partial_cmp(other), Some(Greater | Equal))` -/
def optGe : Option Ordering → Bool | some .gt | some .eq => true | _ => false

def Evr.lt (x y : Evr) : Bool := optLt (x.partialCmp y)
def Evr.le (x y : Evr) : Bool := optLe (x.partialCmp y)
def Evr.gt (x y : Evr) : Bool := optGt (x.partialCmp y)
def Evr.ge (x y : Evr) : Bool := optGe (x.partialCmp y)
/-- `Ord::max(self, other)`: `if other < self { self } else { other }` (the second argument on a tie) -/
def Evr.max (x y : Evr) : Evr := if y.lt x then x else y
/-- `Ord::min(self, other)`: `if other < self { other } else { self }` (the first argument on a tie) -/
def Evr.min (x y : Evr) : Evr := if y.lt x then y else x

def Nevra.lt (x y : Nevra) : Bool := optLt (x.partialCmp y)
def Nevra.le (x y : Nevra) : Bool := optLe (x.partialCmp y)
def Nevra.gt (x y : Nevra) : Bool := optGt (x.partialCmp y)
def Nevra.ge (x y : Nevra) : Bool := optGe (x.partialCmp y)
def Nevra.max (x y : Nevra) : Nevra := if y.lt x then x else y
def Nevra.min (x y : Nevra) : Nevra := if y.lt x then y else x

end RpmVerif.Vercmp
