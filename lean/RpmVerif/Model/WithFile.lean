import RpmVerif.Model.AddData
import RpmVerif.Model.FileMode
import RpmVerif.Model.Builder
import RpmVerif.Gen.FileOptionsTable
/-!
# The builder front-end: `FileOptions::new`, the `FileOptionsBuilder` setters, `PackageBuilder::with_file`
(`/repo/src/rpm/headers/types.rs`, `/repo/src/rpm/builder.rs`)

```rust
pub fn new(dest: impl Into<String>) -> FileOptionsBuilder {
    FileOptionsBuilder { inner: FileOptions { destination: dest.into(), user: "root".to_string(), group: "root".to_string(),
        symlink: "".to_string(), mode: FileMode::regular(0o664), flag: FileFlags::empty(), inherit_permissions: true,
        caps: None, verify_flags: FileVerifyFlags::all() } } }
pub fn mode(mut self, mode: impl Into<FileMode>) -> Self { self.inner.mode = mode.into(); self.inner.inherit_permissions = false; self }
pub fn is_config_noreplace(mut self) -> Self { self.inner.flag.insert(FileFlags::CONFIG | FileFlags::NOREPLACE); self }

fn file_mode(file: &fs::File) -> Result<u32, Error> { Ok(file.metadata()?.permissions().mode()) }      // st_mode
pub fn with_file(mut self, source: impl AsRef<Path>, options: impl Into<FileOptions>) -> Result<Self, Error> {
    let mut input = fs::File::open(source)?;
    let mut content = Vec::new();
    input.read_to_end(&mut content)?;
    let mut options = options.into();
    if options.inherit_permissions { options.mode = (file_mode(&input)? as i32).into(); }
    let modified_at = input.metadata()?.modified()?.try_into()?;
    self.add_data(content, modified_at, options)?;
    Ok(self)
}
```
The defaults and the bits behind the `is_*` setters are the generated table `Gen/FileOptionsTable.lean` (scraped on every
run by `tools/gen/file_options.py`), the flag constants `Gen/Constants.lean`.

Environment (what the operating system returns for the source path) is the argument `Source`: `open` fails, `read_to_end`
fails (a directory), or the file's content, its `st_mode` (a `u32`) and its modification time (any instant: `set_modified`
/ `utimensat` accept pre-1970 and post-2106 times). `fstat` on the open descriptor (`metadata()`) is taken not to fail.
Core Lean only.
-/
namespace RpmVerif.WithFile
open RpmVerif.FileMode RpmVerif.Bld RpmVerif.AddData

/-! ## `FileOptions` and its builder -/

/-- `struct FileOptions` (capabilities as their validated text) -/
structure FileOpts where
  destination : Bytes
  user : Bytes
  group : Bytes
  symlink : Bytes
  mode : FileMode
  flag : Nat
  inheritPermissions : Bool
  caps : Option Bytes
  verifyFlags : Nat
  deriving DecidableEq, Repr

/-- the default mode of the table: `FileMode::regular(p)` / `dir(p)` / `symbolic_link(p)` -/
def defaultMode : FileMode :=
  match Gen.fileOptionsNewMode with
  | (0, p) => mkRegular p
  | (1, p) => mkDir p
  | (2, p) => mkSymlink p
  | (_, p) => .invalid p

/-- `FileOptions::new(dest)` -/
def FileOpts.new (dest : Bytes) : FileOpts :=
  { destination := dest, user := Gen.fileOptionsNewUser, group := Gen.fileOptionsNewGroup,
    symlink := Gen.fileOptionsNewSymlink, mode := defaultMode, flag := Gen.fileOptionsNewFlag,
    inheritPermissions := Gen.fileOptionsNewInherit, caps := none, verifyFlags := Gen.fileOptionsNewVerifyFlags }

/-- the bits the `i`-th `is_*` setter (source order of `Gen.fileOptionSetters`) inserts -/
def setterBits (i : Nat) : Nat := ((Gen.fileOptionSetters[i]?).map (·.2)).getD 0

/-- `is_doc` / `is_config` / … : `self.inner.flag.insert(bits)` -/
def applySetter (i : Nat) (o : FileOpts) : FileOpts := { o with flag := o.flag ||| setterBits i }

/-- one call on the `FileOptionsBuilder`. `mode(m)`: the argument after the caller's `Into<FileMode>` (identity,
`From<u16>` = `FileMode.fromU16`, `From<i32>` = `FileMode.fromI32`) -/
inductive Setter where
  | user (u : Bytes)
  | group (g : Bytes)
  | symlink (s : Bytes)
  | mode (m : FileMode)
  | caps (text : Bytes)
  | verify (flags : Nat)
  | flag (i : Nat)
  deriving DecidableEq, Repr

def Setter.isMode : Setter → Bool | .mode _ => true | _ => false

/-- `FileOptionsBuilder::mode`: stores the mode and (as scraped) clears `inherit_permissions` -/
def setMode (m : FileMode) (o : FileOpts) : FileOpts :=
  { o with mode := m, inheritPermissions := if Gen.fileOptionModeSetterClearsInherit then false else o.inheritPermissions }

/-- one setter; only `caps` can fail (`Err(InvalidCapabilities)`, validator = parameter as in `AddData.capsSetter`) -/
def Setter.apply (valid : Bytes → Bool) (s : Setter) (o : FileOpts) : Out FileOpts :=
  match s with
  | .user u => .ok { o with user := u }
  | .group g => .ok { o with group := g }
  | .symlink l => .ok { o with symlink := l }
  | .mode m => .ok (setMode m o)
  | .caps text =>
    match capsSetter valid text with
    | .ok t => .ok { o with caps := some t }
    | .err e => .err e
    | .panic s => .panic s
  | .verify f => .ok { o with verifyFlags := f }
  | .flag i => .ok (applySetter i o)

/-- a chain of setters, left to right; the first `Err` (the caller's `?`) ends it -/
def applySetters (valid : Bytes → Bool) : List Setter → FileOpts → Out FileOpts
  | [], o => .ok o
  | s :: r, o =>
    match s.apply valid o with
    | .ok o' => applySetters valid r o'
    | .err e => .err e
    | .panic p => .panic p

/-- the flag word a chain of setters leaves behind, starting from `acc` -/
def settersFlags (acc : Nat) : List Setter → Nat
  | [] => acc
  | .flag i :: r => settersFlags (acc ||| setterBits i) r
  | _ :: r => settersFlags acc r

/-! ## the source file, as the operating system presents it -/

/-- file-type bits of `st_mode` (POSIX `S_IFMT` …; constants of the OS, not of rpm-rs) -/
def S_IFMT : Nat := 0o170000
def S_IFIFO : Nat := 0o010000
def S_IFDIR : Nat := 0o040000
def S_IFREG : Nat := 0o100000
def S_IFLNK : Nat := 0o120000

structure SrcFile where
  content : Bytes
  /-- `st_mode` as `PermissionsExt::mode()` returns it: a `u32` (type bits and the 12 permission bits) -/
  stMode : Nat
  mtime : Timestamp.Instant

inductive Source where
  /-- `fs::File::open(source)?` fails (no such file, no permission) -/
  | openFails
  /-- opened, but `read_to_end` fails (a directory: EISDIR) -/
  | readFails
  | readable (f : SrcFile)

/-- Rust `x as i32` for a `u32` value (two's complement reinterpretation) -/
def u32AsI32 (n : Nat) : Int := if n < 2147483648 then (n : Int) else (n : Int) - 4294967296

def errIo {α : Type} : Out α := .err "io"
/-- `Error::TimestampConv(..)` -/
def errTs {α : Type} : Out α := .err "TimestampConv"

/-! ## `add_data` with everything it stores -/

/-- `add_data(content, modified_at, options)`: the `PackageFileEntry` stored under the cpio path. The mode is kept as the
`u16` that `prepare_data` later writes (`entry.mode.into()` = `raw_mode()`); `sha256hex` is the hash function (parameter) -/
def addDataEntry (sha256hex : Bytes → Bytes) (content : Bytes) (modifiedAt : Nat) (o : FileOpts) : Out FileE :=
  match addData o.destination with
  | .ok (cpio, dir, base) =>
    .ok { cpioPath := cpio, dir := dir, baseName := base, size := content.length, mode := toU16 o.mode, user := o.user,
          group := o.group, link := o.symlink, flags := o.flag, caps := o.caps, verifyFlags := o.verifyFlags,
          mtime := modifiedAt, shaHex := sha256hex content }
  | .err e => .err e
  | .panic s => .panic s

/-- `prepare_data` derives two words from a stored `FileMode`: `file_modes.push(entry.mode.into())` — `u16::from` — is the
RPMTAG_FILEMODES entry, `payload::Builder::new(..).mode(entry.mode.into())` — `u32::from` — the `c_mode` of the file's cpio
header. (`FileE.mode` keeps the former; `Lemmas/RpmValid.toFileIn` uses the same word for the archive.) -/
def headerModeWord (m : FileMode) : Nat := toU16 m
def cpioModeWord (m : FileMode) : Nat := toU32 m

/-- `options.mode = (file_mode(&input)? as i32).into()` when `inherit_permissions` -/
def inheritMode (stMode : Nat) (o : FileOpts) : FileOpts :=
  if o.inheritPermissions then { o with mode := fromI32 (u32AsI32 stMode) } else o

/-- `PackageBuilder::with_file(source, options)`: the entry it stores, or the error it returns -/
def withFile (sha256hex : Bytes → Bytes) (src : Source) (options : FileOpts) : Out FileE :=
  match src with
  | .openFails => errIo                                   -- fs::File::open(source)?
  | .readFails => errIo                                   -- input.read_to_end(&mut content)?
  | .readable f =>
    let options := inheritMode f.stMode options
    match Timestamp.fromSystemTime f.mtime with           -- input.metadata()?.modified()?.try_into()?
    | .underflow => errTs
    | .overflow => errTs
    | .panic s => .panic s
    | .ok modifiedAt => addDataEntry sha256hex f.content modifiedAt options

/-! ## the builder state over a sequence of `with_file` calls -/

/-- `self.files.entry(cpio_path).or_insert(entry)` on the `BTreeMap` seen as its sorted entry list: the first entry under
a path stays -/
def insertFileE (f : FileE) : List FileE → List FileE
  | [] => [f]
  | g :: r => if f.cpioPath == g.cpioPath then g :: r
              else if f.cpioPath < g.cpioPath then f :: g :: r else g :: insertFileE f r

/-- `self.directories.insert(dir)` on the `BTreeSet` seen as its sorted list -/
def insertDir (d : Bytes) : List Bytes → List Bytes
  | [] => [d]
  | g :: r => if d == g then g :: r else if d < g then d :: g :: r else g :: insertDir d r

structure BState where
  files : List FileE
  directories : List Bytes
  deriving DecidableEq, Repr

def BState.empty : BState := ⟨[], []⟩

def BState.add (s : BState) (e : FileE) : BState := ⟨insertFileE e s.files, insertDir e.dir s.directories⟩

/-- `b.with_file(src, FileOptions::new(dest).<setters…>)?` as the caller writes it -/
structure Call where
  src : Source
  dest : Bytes
  setters : List Setter

/-- the options chain, then `with_file` -/
def runCall (sha256hex : Bytes → Bytes) (valid : Bytes → Bool) (c : Call) : Out FileE :=
  match applySetters valid c.setters (FileOpts.new c.dest) with
  | .ok o => withFile sha256hex c.src o
  | .err e => .err e
  | .panic p => .panic p

/-- the calls in order, each with `?`: the first error ends the chain (nothing is built) -/
def buildState (sha256hex : Bytes → Bytes) (valid : Bytes → Bool) : List Call → BState → Out BState
  | [], s => .ok s
  | c :: r, s =>
    match runCall sha256hex valid c with
    | .ok e => buildState sha256hex valid r (s.add e)
    | .err e => .err e
    | .panic p => .panic p

end RpmVerif.WithFile
