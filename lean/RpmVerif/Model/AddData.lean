import RpmVerif.Model.Path
import RpmVerif.Model.Timestamp
import RpmVerif.Gen.CompressionLevels
/-!
# The argument-checking part of `PackageBuilder` (L7) — model of `/repo/src/rpm/builder.rs`
`add_data`, `source_date`, `add_changelog_entry`, `compression` + `Compressor::try_from`
(`/repo/src/rpm/compressor.rs`) and `FileOptionsBuilder::caps` (`/repo/src/rpm/headers/types.rs`).

```rust
fn add_data(&mut self, content, modified_at, options) -> Result<(), Error> {
    let dest = options.destination;
    if !dest.starts_with("./") && !dest.starts_with('/') { return Err(InvalidDestinationPath{..}); }
    let pb = PathBuf::from(dest.clone());
    let parent = pb.parent().ok_or_else(|| InvalidDestinationPath{..})?;
    let (cpio_path, dir) = if dest.starts_with('.') {
        let parent = parent.strip_prefix(".").map_err(|_| InvalidDestinationPath{..})?;
        (dest.to_string(), format!("/{}/", parent.to_string_lossy()))
    } else {
        (format!(".{}", dest), format!("{}/", parent.to_string_lossy()))
    };
    let dir = if dir == "//" { "/".to_string() } else { dir };
    let base_name = pb.file_name().ok_or_else(|| InvalidDestinationPath{..})?.to_string_lossy().to_string();
    …   // hashing the content, `self.directories.insert(dir)`, `self.files.entry(cpio_path).or_insert(entry)`
    Ok(())
}
```
Every formerly unwrapped `Option`/`Result` is an error return in the current code, so the model of
`add_data` has no `panic` outcome at all; the only panic sites left in the argument setters are the
two `t.try_into().unwrap()` of `source_date` / `add_changelog_entry`, modelled below.
Core Lean only.
-/
namespace RpmVerif.AddData
open RpmVerif.Path

/-- `Error::InvalidDestinationPath { .. }` (the `desc` text is not observable on the wire) -/
def errDest {α : Type} : Out α := .err "InvalidDestinationPath"

/-- `if dir == "//" { "/" } else { dir }` -/
def fixRootDir (dir : Bytes) : Bytes := if dir == [47, 47] then [47] else dir

/-- the path splitting of `add_data`: `("." ++ destination text — the pre-cbb69e5 archive name, kept for the lemmas —, dir, base_name)` -/
def addDataRaw (dest : Bytes) : Out (Bytes × Bytes × Bytes) :=
  if !strStartsWith dest [46, 47] && !strStartsWith dest [47] then errDest
  else
    match parent dest with
    | none => errDest
    | some par =>
      let r : Out (Bytes × Bytes) :=
        if strStartsWith dest [46] then
          match stripPrefixDot par with
          | none => errDest
          | some sp => .ok (dest, [47] ++ toStringLossy sp ++ [47])
        else .ok ([46] ++ dest, toStringLossy par ++ [47])
      match r with
      | .err c => .err c
      | .panic s => .panic s
      | .ok (cpio, dir) =>
        match fileName dest with
        | none => errDest
        | some bn => .ok (cpio, fixRootDir dir, toStringLossy bn)

/-- `add_data` as it is since fix cbb69e5: directory and base name as computed by `addDataRaw`; the
archive entry is named `"." ++ dir ++ base_name` (no longer `"." ++ destination text`), so that it
always equals what the header records -/
def addData (dest : Bytes) : Out (Bytes × Bytes × Bytes) :=
  (addDataRaw dest).map fun r => ([46] ++ r.2.1 ++ r.2.2, r.2.1, r.2.2)

/-- what `get_file_paths()` makes of the stored pair: `Path::new(dir).join(base_name)` -/
def readBackPath (dir base : Bytes) : Bytes := Path.join dir base

/-! ## compression: `PackageBuilder::compression(c)` stores `c`; `build()` runs
`Compressor::try_from(c)` first thing in `prepare_data`

```rust
let level_in_range = match value { None => true, Gzip(level) => level <= 9, Zstd(level) => (-131072..=22).contains(&level), … };
if !level_in_range { return Err(io::Error::new(InvalidInput, …).into()); }
match value { None => Ok(Compressor::None(..)), Gzip(level) => Ok(Compressor::Gzip(GzEncoder::new(.., Compression::new(level)))), … }
```
The ranges are the generated table `Gen.levelAccepted`; a variant is its index in `Gen.levelVariants`.
The encoder constructors are a parameter `enc` (external crates; they may panic or fail). -/

def lookup3 (t : List (Nat × Int × Int)) (v : Nat) : Option (Int × Int) :=
  match t.find? (fun e => e.1 == v) with
  | some e => some e.2
  | none => none

/-- `level_in_range` -/
def levelInRange (v : Nat) (level : Int) : Bool :=
  match lookup3 Gen.levelAccepted v with
  | none => true
  | some (lo, hi) => decide (lo ≤ level) && decide (level ≤ hi)

/-- the level is a value of the variant's payload type (`u32` / `i32`), i.e. a caller can pass it -/
def levelRepresentable (v : Nat) (level : Int) : Bool :=
  match lookup3 Gen.levelArgType v with
  | none => true
  | some (lo, hi) => decide (lo ≤ level) && decide (level ≤ hi)

/-- `Compressor::try_from(CompressionWithLevel)` -/
def compressorConstruct (enc : Nat → Int → Out Unit) (v : Nat) (level : Int) : Out Unit :=
  if !levelInRange v level && Gen.levelOutOfRangeIsErr then .err "level-out-of-range"
  else enc v level

/-! ## default compression: `impl From<CompressionType> for CompressionWithLevel`, `impl Default for CompressionWithLevel`

```rust
impl Default for CompressionWithLevel {
    fn default() -> Self {
        #[cfg(feature = "zstd-compression")] return CompressionType::Zstd.into();
        #[cfg(feature = "gzip-compression")] return CompressionType::Gzip.into();
        #[cfg(feature = "xz-compression")]   return CompressionType::Xz.into();
        CompressionType::None.into()
    }
}
impl From<CompressionType> for CompressionWithLevel {
    fn from(value: CompressionType) -> Self { match value { CompressionType::None => CompressionWithLevel::None,
        CompressionType::Gzip => CompressionWithLevel::Gzip(9), … } }
}
```
Both are the generated tables `Gen.defaultOfType` / `Gen.defaultPreference` / `Gen.defaultFallback`. A `CompressionType` is its
index in `Gen.compressionVariants` (declaration order), a `CompressionWithLevel` variant its index in `Gen.levelVariants`.
The cargo features are the parameter `enabled` (`enabled t` = the feature that compiles type `t`'s codec in is on). -/

/-- `CompressionWithLevel::from(t)`: (variant, level) — level 0 for the variant without one -/
def withLevelOfType (t : Nat) : Option (Nat × Int) :=
  match Gen.defaultOfType.find? (fun e => e.1 == t) with
  | some e => some (e.2.1, e.2.2.getD 0)
  | none => none

/-- the type `Default::default()` converts: the first preference whose feature is on, else the fall-back -/
def defaultType (enabled : Nat → Bool) : Nat :=
  match Gen.defaultPreference.find? (fun p => enabled p.1) with
  | some p => p.2
  | none => Gen.defaultFallback

/-- `CompressionWithLevel::default()` -/
def defaultCompression (enabled : Nat → Bool) : Option (Nat × Int) := withLevelOfType (defaultType enabled)

/-! ## capability text: `FileOptions::new(dest).caps(text)`

```rust
self.inner.caps = match FileCaps::from_str(&caps.into()) { Ok(caps) => Some(caps), Err(e) => return Err(InvalidCapabilities{..}) };
```
The validator (`validate_caps_text`, property C19) is the parameter `valid`. -/
def capsSetter (valid : Bytes → Bool) (text : Bytes) : Out Bytes :=
  if valid text then .ok text else .err "InvalidCapabilities"

/-! ## timestamps: `source_date(t)` and `add_changelog_entry(name, entry, t)`

```rust
pub fn source_date(mut self, t: impl TryInto<Timestamp, Error = impl Debug>) -> Self {
    self.source_date = Some(t.try_into().unwrap()); self }
```
`t` is a `u32` (`From<u32>`, cannot fail), a `SystemTime` or a `chrono::DateTime<Tz>` (C20's
`Timestamp.convert`). A failed conversion is unwrapped: a panic inside the setter. -/
inductive TsArg where
  | secs (n : Nat)                       -- a `u32`
  | src (s : Timestamp.Source)           -- a `SystemTime` or a `DateTime<Tz>`

def timestampSetter : TsArg → Out Nat
  | .secs n => .ok n
  | .src s =>
    match Timestamp.convert s with
    | .ok n => .ok n
    | .underflow => .panic "timestamp-unwrap-underflow"
    | .overflow => .panic "timestamp-unwrap-overflow"
    | .panic site => .panic site

def sourceDate (t : TsArg) : Out Nat := timestampSetter t
def addChangelogEntry (_name _entry : Bytes) (t : TsArg) : Out Nat := timestampSetter t

/-! ## a whole argument set: setters in sequence, then `build()` -/

structure FileArg where
  dest : Bytes
  caps : Option Bytes

structure BuildArgs where
  sourceDate : Option TsArg
  changelog : List TsArg
  files : List FileArg
  compression : Nat × Int

/-- run the steps in order; the first `Err` (propagated by `?`) or panic ends the chain -/
def seqOut : List (Out Unit) → Out Unit
  | [] => .ok ()
  | x :: r => match x with
    | .ok _ => seqOut r
    | .err c => .err c
    | .panic s => .panic s

def discardOut {α : Type} : Out α → Out Unit
  | .ok _ => .ok ()
  | .err c => .err c
  | .panic s => .panic s

/-- `FileOptions::new(dest).caps(text)?` then `with_file(src, opts)?` (the source file exists) -/
def fileSetter (valid : Bytes → Bool) (f : FileArg) : Out Unit :=
  match f.caps with
  | none => discardOut (addDataRaw f.dest)
  | some c => match capsSetter valid c with
    | .ok _ => discardOut (addDataRaw f.dest)
    | .err e => .err e
    | .panic s => .panic s

/-- all setters, then `build()`, whose only argument-dependent fallible step is the compressor -/
def buildArgs (enc : Nat → Int → Out Unit) (valid : Bytes → Bool) (a : BuildArgs) : Out Unit :=
  seqOut ((match a.sourceDate with | none => [] | some t => [discardOut (sourceDate t)])
    ++ a.changelog.map (fun t => discardOut (addChangelogEntry [] [] t))
    ++ a.files.map (fileSetter valid)
    ++ [compressorConstruct enc a.compression.1 a.compression.2])

end RpmVerif.AddData
