import RpmVerif.Model.Basic
/-!
# Unix `std::path` on byte strings (part of L7) — the functions `PackageBuilder::add_data` calls

A Unix `Path` is its bytes; `/` (47) is the only separator and there is no prefix. The model follows
`library/std/src/path.rs` (`Components`):

* `has_physical_root`  = the path starts with `/`;
* `include_cur_dir()`  = no root and the path is `"."` or starts with `"./"`;
* `len_before_body()`  = 1 for either of the two, else 0; the *body* is the rest;
* forward iteration: `RootDir` / `CurDir` for the start, then the body split at `/`
  (`parse_next_component`), each piece through `parse_single_component`
  (`""` and `"."` → nothing, `".."` → `ParentDir`, anything else → `Normal`);
* backward iteration (`next_back`, `trim_right`): the same pieces from the right
  (`parse_next_component_back` = the text after the last `/` of the body);
* `Components::as_path` = the *original text* that is left, after `trim_left` (only once the
  front has entered the body) and `trim_right` (only while the back is in the body) have dropped
  empty and `.` pieces together with their separator.

`parent`, `file_name` and `strip_prefix(".")` are written on the list of body pieces
(`splitSep`), last piece first, which is exactly what the backward iterator walks through.
Core Lean only. Each function is validated separately against the real `std` function by the C17
correspondence (ops `pcomps`, `pparent`, `pfilename`, `pstrip`, `pjoin`).
-/
namespace RpmVerif.Path

/-- the pieces between separators: `"a//b/"` ↦ `["a", "", "b", ""]`, `""` ↦ `[""]` -/
def splitSep : Bytes → List Bytes
  | [] => [[]]
  | b :: r =>
    if b = 47 then [] :: splitSep r
    else (b :: (splitSep r).headD []) :: (splitSep r).tail

/-- the text of a list of pieces: the pieces with one `/` between neighbours -/
def joinSep : List Bytes → Bytes
  | [] => []
  | s :: t => s ++ t.flatMap (fun x => 47 :: x)

/-- `parse_single_component` yields nothing for `""` and `"."` -/
def isTriv (s : Bytes) : Bool := s.isEmpty || s == [46]

/-- the pieces that name something (`Normal` and `ParentDir` components, in order) -/
def nameParts (l : List Bytes) : List Bytes := l.filter (fun s => !isTriv s)

/-- the name components of a text, whatever its start: `"./a//b/."` and `"/a/b"` ↦ `["a", "b"]` -/
def nameComps (p : Bytes) : List Bytes := nameParts (splitSep p)

/-- drop leading trivial pieces (`trim_left` on a piece list; `trim_right` on a reversed one) -/
def trimTriv (l : List Bytes) : List Bytes := l.dropWhile isTriv

def hasRoot : Bytes → Bool
  | 47 :: _ => true
  | _ => false

/-- `Components::include_cur_dir` -/
def includeCurDir (p : Bytes) : Bool :=
  if hasRoot p then false
  else match p with
    | [46] => true
    | 46 :: b :: _ => b == 47
    | _ => false

/-- `Components::len_before_body` at the start of an iteration -/
def lenBeforeBody (p : Bytes) : Nat :=
  (if hasRoot p then 1 else 0) + (if includeCurDir p then 1 else 0)

def body (p : Bytes) : Bytes := p.drop (lenBeforeBody p)

/-- the body pieces, last first, without the trailing trivial ones: what `next_back` sees first -/
def backPieces (p : Bytes) : List Bytes := trimTriv (splitSep (body p)).reverse

inductive Comp where
  | root
  | cur
  | parent
  | normal (s : Bytes)
  deriving Repr, DecidableEq

def parseSingle (s : Bytes) : Option Comp :=
  if s == [46] then none
  else if s == [46, 46] then some .parent
  else if s.isEmpty then none
  else some (.normal s)

/-- `Path::components().collect()` -/
def components (p : Bytes) : List Comp :=
  (if hasRoot p then [Comp.root] else if includeCurDir p then [Comp.cur] else [])
    ++ (splitSep (body p)).filterMap parseSingle

/-- `Path::parent`: `None` when there is no component or the last one is the root; otherwise the
original text up to the last component, trailing separators and `/.` trimmed -/
def parent (p : Bytes) : Option Bytes :=
  match backPieces p with
  | [] => if includeCurDir p then some [] else none
  | _ :: rest => some (p.take (lenBeforeBody p) ++ joinSep (trimTriv rest).reverse)

/-- `Path::file_name`: the last component if it is a normal one -/
def fileName (p : Bytes) : Option Bytes :=
  match backPieces p with
  | [] => none
  | s :: _ => if s == [46, 46] then none else some s

/-- `Path::strip_prefix(".")`: the first component must be `CurDir`; what follows, trimmed on
both sides (`iter_after(..).as_path()`) -/
def stripPrefixDot (p : Bytes) : Option Bytes :=
  if includeCurDir p then
    some (joinSep (trimTriv (trimTriv (splitSep (p.drop 1))).reverse).reverse)
  else none

/-- `Path::join` (`PathBuf::push`): an absolute argument replaces the base; otherwise one `/` is
inserted unless the base is empty or already ends in one -/
def join (a b : Bytes) : Bytes :=
  if hasRoot b then b
  else if a.isEmpty || a.getLast? == some 47 then a ++ b
  else a ++ 47 :: b

/-- `OsStr::to_string_lossy` on text that is valid UTF-8: unchanged. (`add_data` only applies it
to pieces of a `String` cut at `/`, which are valid UTF-8.) -/
def toStringLossy (s : Bytes) : Bytes := s

/-- `str::starts_with(&str)` (byte-wise prefix test; *not* `Path::starts_with`) -/
def strStartsWith (s pre : Bytes) : Bool := pre.isPrefixOf s

end RpmVerif.Path
