import RpmVerif.Model.Sign
import RpmVerif.Model.AddData
import RpmVerif.Gen.SigAlgs
/-!
# L4b: the signing side with its error and panic paths

`Model/Sign.lean` has the happy path (`signOp`, total). This file mirrors the rest of the code, branch by branch:

* **G7** — the three algorithm `match`es, as scraped tables (`Gen/SigAlgs.lean`, `tools/gen/sig_algs.py`):
  `legacyTagOf` (`SignatureHeaderBuilder::build`, src/rpm/headers/signatures.rs), `toPgp`
  (`From<AlgorithmType> for PublicKeyAlgorithm`), `signerNew` (`pgp::Signer::new`), `verifierLoad`
  (`pgp::Verifier::load_from_asc`). An OpenPGP public-key algorithm is its number (`PublicKeyAlgorithm` is
  `#[repr(u8)]` with the catch-all `Unknown(u8)`).
* **G8** — the rpm-rs part of `pgp::Signer::sign` (src/rpm/signature/pgp.rs): `Utc.timestamp_opt(t, 0).unwrap()`,
  the v4 `SignatureConfig` with the pushed hashed sub-packets (`mkConfig`); only `seal` (hash + secret-key
  operation + packet serialisation) and `parse` (`Verifier::parse_signature`) stay abstract (`PgpScheme`).
* **G4** — `Package::sign_with_timestamp` / `Package::sign` (src/rpm/package.rs) with every way out:

```rust
pub fn sign_with_timestamp<S>(&mut self, signer: S, t: impl TryInto<Timestamp, Error = impl Debug>) -> Result<(), Error> {
    let t = t.try_into().unwrap();                                        // panic: out-of-range SystemTime / DateTime
    let mut header_bytes = Vec::<u8>::with_capacity(1024);
    self.metadata.header.write(&mut header_bytes)?;                       // a Vec sink never fails
    let header_digest_sha256 = hex::encode(sha2::Sha256::digest(header_bytes.as_slice()));
    let header_signature = signer.sign(header_bytes.as_slice(), t)?;      // Err: whatever the signer answers
    let sig_header = SignatureHeaderBuilder::new().set_sha256_digest(&header_digest_sha256)
        .add_openpgp_signature(header_signature).build()?;                // Err: NoSignatureFound / UnsupportedPGPKeyType
    self.metadata.signature = sig_header;                                 // the ONLY assignment
    Ok(())
}
pub fn sign<S>(&mut self, signer: S) -> Result<(), Error> { self.sign_with_timestamp(signer, Timestamp::now()) }
```
  and histories in which signing attempts may fail (`OpF`, `stepF`, `runF`): an `Err` leaves the package as it
  was and the caller goes on, a panic ends the history.

Core Lean only.
-/
namespace RpmVerif.Sign
open RpmVerif.Hdr RpmVerif.Gen RpmVerif.Gen.SigAlgs RpmVerif.AddData

/-! ## G7: the algorithm tables -/

/-- `match signature.config.pub_alg { … }` of `SignatureHeaderBuilder::build`: the legacy tag of the FIRST arm
naming the algorithm; `none` = the fall-through arm `a => return Err(UnsupportedPGPKeyType(a))` -/
def legacyTagOf (alg : Nat) : Option Nat := buildLegacyArms.lookup alg

/-- `impl From<AlgorithmType> for PublicKeyAlgorithm` (the arms cover every variant: checked by the generator and
by `toPgp_total`) -/
def toPgp (a : AlgorithmType) : Nat := (toPgpArms.lookup a).getD 0

/-- `pgp::Signer::new(key)`: by the key's algorithm -/
def signerNew (alg : Nat) : Out AlgorithmType :=
  match signerNewArms.lookup alg with
  | some a => .ok a
  | none => .err "UnsupportedPGPKeyType"

/-- `pgp::Verifier::load_from_asc`, after the key was parsed: by the key's algorithm -/
def verifierLoad (alg : Nat) : Out AlgorithmType :=
  match verifierLoadArms.lookup alg with
  | some a => .ok a
  | none => .err "UnsupportedPGPKeyType"

/-- the legacy tag of a signature made by a `pgp::Signer` that stores `a` (0 stands for "build fails"; never
taken: `signer_tag_some`) -/
def signerLegacyTag (a : AlgorithmType) : Nat := (legacyTagOf (toPgp a)).getD 0

/-! ## G8: `pgp::Signer::sign` up to the cryptography -/

/-- chrono: the first and the last second a `DateTime<Utc>` can hold (`DateTime::<Utc>::MIN_UTC` =
-262143-01-01T00:00:00Z, `MAX_UTC` = +262142-12-31T23:59:59.999999999Z) -/
def chronoMinSecs : Int := -8334601228800
def chronoMaxSecs : Int := 8210266876799

/-- chrono `Utc.timestamp_opt(secs, nsecs)` (= `DateTime::from_timestamp`): `Single` iff the day is representable
and `nsecs` is below 10⁹, or below 2·10⁹ in the last second of a minute (leap-second notation) -/
def chronoTimestampOpt (secs : Int) (nsecs : Nat) : Option (Int × Nat) :=
  if chronoMinSecs ≤ secs ∧ secs ≤ chronoMaxSecs ∧
      (nsecs < 1000000000 ∨ (nsecs < 2000000000 ∧ secs % 60 = 59)) then some (secs, nsecs) else none

/-- `Utc.timestamp_opt(t.0.into(), 0).unwrap()`: the creation time (seconds) or the unwrap panic -/
def signerCreated (t : Nat) : Out Int :=
  match chronoTimestampOpt t 0 with
  | some (s, _) => .ok s
  | none => .panic "timestamp_opt-unwrap"

/-- a signature sub-packet, as far as the signer pushes any -/
inductive Subpacket where
  | created (secs : Int)          -- SignatureCreationTime (type 2)
  | issuer (keyId : Bytes)        -- Issuer (type 16)
  | fingerprint (fp : Bytes)      -- IssuerFingerprint (type 33)
  | other (ty : Nat)
  deriving DecidableEq, Repr

/-- pgp's `SignatureConfig` (v4 layout) -/
structure SigConfig where
  version : Nat
  typ : Nat
  pubAlg : Nat
  hashAlg : Nat
  hashed : List Subpacket
  unhashed : List Subpacket
  deriving DecidableEq, Repr

/-- the value pushed for a sub-packet type named in `Signer::sign` -/
def subpacketOf (created : Int) (keyId fp : Bytes) (ty : Nat) : Subpacket :=
  if ty = 2 then .created created else if ty = 16 then .issuer keyId else if ty = 33 then .fingerprint fp else .other ty

/-- the `sig_cfg` of `pgp::Signer::sign`: `SignatureConfig::v4(Binary, self.algorithm().into(), SHA2_256)` plus the
pushes, in source order (all constants and the push list are scraped: `Gen.SigAlgs`) -/
def mkConfig (a : AlgorithmType) (keyId fp : Bytes) (created : Int) : SigConfig where
  version := cfgVersion
  typ := cfgSigType
  pubAlg := toPgp a
  hashAlg := cfgHashAlg
  hashed := (cfgPushes.filter (·.1)).map fun p => subpacketOf created keyId fp p.2
  unhashed := (cfgPushes.filter (!·.1)).map fun p => subpacketOf created keyId fp p.2

/-- pgp `SignatureConfig::issuer()` (v4): the Issuer sub-packets of the hashed, then of the unhashed area -/
def SigConfig.issuers (c : SigConfig) : List Bytes :=
  (c.hashed ++ c.unhashed).filterMap fun | .issuer k => some k | _ => none

/-- pgp `SignatureConfig::issuer_fingerprint()` -/
def SigConfig.fingerprints (c : SigConfig) : List Bytes :=
  (c.hashed ++ c.unhashed).filterMap fun | .fingerprint f => some f | _ => none

/-- pgp `SignatureConfig::created()` (v4): the first SignatureCreationTime of the hashed area -/
def SigConfig.created (c : SigConfig) : Option Int :=
  c.hashed.findSome? fun | .created t => some t | _ => none

/-- the OpenPGP layer with the rpm-rs code of `pgp::Signer` spelled out -/
structure PgpScheme where
  Key : Type
  decEq : DecidableEq Key
  /-- `Signer::algorithm()`: what `Signer::new` stored -/
  alg : Key → AlgorithmType
  /-- `secret_key.key_id()` / `secret_key.fingerprint()` -/
  keyId : Key → Bytes
  fingerprint : Key → Bytes
  /-- `sig_cfg.sign(&secret_key, pw, data)` then `write_packet`: the serialised signature packet -/
  sealSig : Key → Bytes → SigConfig → Bytes
  /-- `Verifier::parse_signature(sig)` → its `config`; `none` = `NoSignatureFound` -/
  parse : Bytes → Option SigConfig
  verify : Key → Bytes → Bytes → Bool
  b64enc : Bytes → Bytes
  b64dec : Bytes → Option Bytes

namespace PgpScheme
variable (P : PgpScheme)

/-- the `sig_cfg` the signer over key `k` assembles for creation time `created` -/
def configOf (k : P.Key) (created : Int) : SigConfig := mkConfig (P.alg k) (P.keyId k) (P.fingerprint k) created

/-- `<pgp::Signer as Signing>::sign(data, t)` for a usable key -/
def signerSign (k : P.Key) (m : Bytes) (t : Nat) : Out Bytes := do
  let created ← signerCreated t
  pure (P.sealSig k m (P.configOf k created))

/-- the scheme `Model/Sign.lean` works with: `sign` is `seal` of the config, the issuer list and the legacy tag are
COMPUTED (from the parsed config / from the algorithm tables) instead of being parameters -/
def toSigScheme : SigScheme where
  Key := P.Key
  decEq := P.decEq
  sign := fun k m t => P.sealSig k m (P.configOf k t)
  verify := P.verify
  issuer := fun s => (P.parse s).map (·.issuers)
  keyId := P.keyId
  legacyTag := fun k => signerLegacyTag (P.alg k)
  b64enc := P.b64enc
  b64dec := P.b64dec

/-- `signature.config.pub_alg` of the parsed packet -/
def pubAlg (s : Bytes) : Option Nat := (P.parse s).map (·.pubAlg)

/-- what is assumed of the pgp crate here: reading back a packet the signer wrote gives the configuration it was made
from -/
def ParseSeal : Prop := ∀ k m (t : Nat), P.parse (P.sealSig k m (P.configOf k t)) = some (P.configOf k t)

end PgpScheme

/-! ## G4: `SignatureHeaderBuilder::build`, `sign_with_timestamp`, `sign` -/

/-- the `for sig_bytes in &self.openpgp_signatures` loop of `build`: parse, pick the legacy tag, encode -/
def sigTriples (pubAlg : Bytes → Option Nat) (b64enc : Bytes → Bytes) : List Bytes → Out (List (Nat × Bytes × Bytes))
  | [] => .ok []
  | s :: rest =>
    match pubAlg s with
    | none => .err "NoSignatureFound"                       -- `Verifier::parse_signature(sig_bytes)?`
    | some a =>
      match legacyTagOf a with
      | none => .err "UnsupportedPGPKeyType"
      | some tag => do
        let more ← sigTriples pubAlg b64enc rest
        pure ((tag, s, b64enc s) :: more)

/-- `SignatureHeaderBuilder { openpgp_signatures: sigs, header_sha256: sha }.build()` -/
def sigBuilderBuild (pubAlg : Bytes → Option Nat) (b64enc : Bytes → Bytes) (sigs : List Bytes) (sha : Option Bytes) :
    Out Header := do
  let triples ← sigTriples pubAlg b64enc sigs
  pure (Bld.signatureHeader triples sha)

/-- `Package::sign_with_timestamp(signer, t)`: the package it installs, an `Err`, or a panic. `signer` is the
`Signing::sign` of whatever was passed (`data`, `Timestamp` ↦ result); `pubAlg` is `parse_signature(..).config.pub_alg` -/
def signOpE (S : SigScheme) (pubAlg : Bytes → Option Nat) (sha256 : Bytes → Bytes)
    (signer : Bytes → Nat → Out Bytes) (t : TsArg) (p : Package) : Out Package := do
  let n ← timestampSetter t
  let hb := writeHeader p.md.header
  let sig ← signer hb n
  let h ← sigBuilderBuild pubAlg S.b64enc [sig] (some (shaHex sha256 hb))
  pure ⟨⟨p.md.lead, h, p.md.header⟩, p.content⟩

/-- `Package::sign(signer)`: `clock` is what `SystemTime::now()` returns inside `Timestamp::now()`; a `Timestamp`
argument converts to itself -/
def signNowE (S : SigScheme) (pubAlg : Bytes → Option Nat) (sha256 : Bytes → Bytes)
    (signer : Bytes → Nat → Out Bytes) (clock : Timestamp.Instant) (p : Package) : Out Package := do
  let n ← (Timestamp.now clock).toOut
  signOpE S pubAlg sha256 signer (.secs n) p

/-- `Package::clear_signatures()` with its `build()?`: no signature is parsed, so nothing can fail (`clear_total`) -/
def clearOpE (pubAlg : Bytes → Option Nat) (b64enc : Bytes → Bytes) (sha256 : Bytes → Bytes) (p : Package) : Out Package := do
  let h ← sigBuilderBuild pubAlg b64enc [] (some (shaHex sha256 (writeHeader p.md.header)))
  pure ⟨⟨p.md.lead, h, p.md.header⟩, p.content⟩

/-- the `&mut self` view: (package afterwards, what the call returned). Every `?` and the `unwrap` come before the
one assignment, so anything but `Ok(())` leaves the package as it was. -/
def asMut (p : Package) (r : Out Package) : Package × Out Unit :=
  match r with
  | .ok q => (q, .ok ())
  | .err c => (p, .err c)
  | .panic s => (p, .panic s)

/-! ### signers and histories with failing attempts -/

/-- a `Signing` implementation, as far as `sign_with_timestamp` can tell them apart -/
inductive SignerE (K : Type) where
  | key (k : K)                -- a `pgp::Signer` over the usable key `k`
  | failing (cls : String)     -- `sign` answers `Err(..)`: locked secret key, unreachable HSM, …
  | raw (sig : Bytes)          -- `sign` answers `Ok(sig)` with bytes of its own (a foreign implementation of the trait)

def SignerE.sign (S : SigScheme) : SignerE S.Key → Bytes → Nat → Out Bytes
  | .key k, m, t => .ok (S.sign k m t)
  | .failing c, _, _ => .err c
  | .raw s, _, _ => .ok s

inductive OpF (K : Type) where
  | sign (sg : SignerE K) (t : TsArg)                      -- `sign_with_timestamp(sg, t)`
  | signNow (sg : SignerE K) (clock : Timestamp.Instant)   -- `sign(sg)` at wall-clock reading `clock`
  | clear
  | writeParse

/-- what one call computes -/
def attemptF (S : SigScheme) (pubAlg : Bytes → Option Nat) (sha256 : Bytes → Bytes) : OpF S.Key → Package → Out Package
  | .sign sg t, p => signOpE S pubAlg sha256 (sg.sign S) t p
  | .signNow sg clock, p => signNowE S pubAlg sha256 (sg.sign S) clock p
  | .clear, p => clearOpE pubAlg S.b64enc sha256 p
  | .writeParse, p => writeParse p

/-- what the caller is left with after a call on `&mut Package` that it does not abort on: the new package, or the
old one after an `Err` -/
def settle (p : Package) (r : Out Package) : Out Package :=
  match r with
  | .ok q => .ok q
  | .err _ => .ok p
  | .panic s => .panic s

/-- one step of a history: a refused signing (`Err`) leaves the package as it was and the history goes on; a
failing write + re-parse or a panic ends it -/
def stepF (S : SigScheme) (pubAlg : Bytes → Option Nat) (sha256 : Bytes → Bytes) : OpF S.Key → Package → Out Package
  | .writeParse, p => writeParse p
  | o, p => settle p (attemptF S pubAlg sha256 o p)

def runF (S : SigScheme) (pubAlg : Bytes → Option Nat) (sha256 : Bytes → Bytes) : List (OpF S.Key) → Package → Out Package
  | [], p => .ok p
  | o :: os, p => stepF S pubAlg sha256 o p >>= runF S pubAlg sha256 os

/-- what an attempt amounts to when it neither panics nor is a foreign signature that `build` accepts: the
operation of `Model/Sign.lean` it performs, or nothing -/
def OpF.effective {K : Type} : OpF K → Option (Op K)
  | .sign (.key k) t => match timestampSetter t with | .ok n => some (.sign k n) | _ => none
  | .sign _ _ => none
  | .signNow (.key k) clock => match Timestamp.now clock with | .ok n => some (.sign k n) | _ => none
  | .signNow _ _ => none
  | .clear => some .clear
  | .writeParse => some .writeParse

def effectiveOps {K : Type} (ops : List (OpF K)) : List (Op K) := ops.filterMap OpF.effective

/-- the signature bytes of a foreign signer are turned down by `build` -/
def BuildRejects (pubAlg : Bytes → Option Nat) (s : Bytes) : Prop :=
  pubAlg s = none ∨ ∃ a, pubAlg s = some a ∧ legacyTagOf a = none

/-- the signatures of the scheme's keys parse, and their algorithm selects the key's legacy tag -/
def AlgOk (S : SigScheme) (pubAlg : Bytes → Option Nat) : Prop :=
  ∀ k m t, ∃ a, pubAlg (S.sign k m t) = some a ∧ legacyTagOf a = some (S.legacyTag k)

end RpmVerif.Sign

/-! ### the symbolic scheme: algorithms of its keys -/
namespace RpmVerif.Sign.Sym
open RpmVerif.Gen RpmVerif.Gen.SigAlgs

/-- keys 0 and 1 are RSA keys, key 3 is an ECDSA key, every other key an EdDSA key -/
def algOf (k : UInt8) : AlgorithmType := if k < 2 then .RSA else if k = 3 then .ECDSA else .EdDSA

/-- `parse_signature(..).config.pub_alg` of a token: the algorithm of the key it names -/
def pubAlg (s : Bytes) : Option Nat := (signerOf s).map fun k => toPgp (algOf k)

end RpmVerif.Sign.Sym
