/-!
# Width-annotated integer expressions of the Rust source

The header model computes in `Nat`. Where the WIDTH of the Rust arithmetic matters (C04 "overflows arithmetic",
C16 `offsets_fit_u64`) the expression is scraped from the source text by `tools/gen/alloc_sites.py` into a
`WExpr` (Gen/AllocSites.lean), together with its plain `Nat` reading. `WExpr.eval` is Rust's unsigned
arithmetic with overflow checks (what the harness build and every debug build do; a release build wraps — either
is the "overflow" the property forbids): both operands of a binary operator have the same width (Rust's
type rule), the result must fit that width, `e as uW` truncates. `usize` is 64 bits (assumption: 64-bit target).
Variables are numbered (strings do not reduce in the kernel); the generator documents the numbering.
-/
namespace RpmVerif

inductive WExpr where
  /-- integer literal, typed by its context -/
  | lit (n : Nat) (w : Nat)
  /-- the `i`-th input of the expression, an unsigned integer of `w` bits -/
  | var (i : Nat) (w : Nat)
  /-- `e as u<w>` -/
  | cast (e : WExpr) (w : Nat)
  | add (a b : WExpr)
  | sub (a b : WExpr)
  | mul (a b : WExpr)
  | rem (a b : WExpr)
  /-- `a.min(b)` / `std::cmp::min(a, b)` -/
  | min (a b : WExpr)
  deriving Repr, DecidableEq

namespace WExpr

/-- checked binary operation: widths equal, result inside the width -/
def bin (f : Nat → Nat → Option Nat) : Option (Nat × Nat) → Option (Nat × Nat) → Option (Nat × Nat)
  | some (x, w), some (y, w') =>
    if w = w' then
      match f x y with
      | some v => if v < 2 ^ w then some (v, w) else none
      | none => none
    else none
  | _, _ => none

/-- value and width, or `none` where checked Rust arithmetic overflows (or the expression is ill-typed) -/
def eval (env : Nat → Nat) : WExpr → Option (Nat × Nat)
  | lit n w => if n < 2 ^ w then some (n, w) else none
  | var i w => if env i < 2 ^ w then some (env i, w) else none
  | cast e w => match eval env e with | some (v, _) => some (v % 2 ^ w, w) | none => none
  | add a b => bin (fun x y => some (x + y)) (eval env a) (eval env b)
  | sub a b => bin (fun x y => if y ≤ x then some (x - y) else none) (eval env a) (eval env b)
  | mul a b => bin (fun x y => some (x * y)) (eval env a) (eval env b)
  | rem a b => bin (fun x y => if y = 0 then none else some (x % y)) (eval env a) (eval env b)
  | min a b => bin (fun x y => some (Nat.min x y)) (eval env a) (eval env b)

/-- environment from a list of input values -/
def envOf (l : List Nat) : Nat → Nat := fun i => l.getD i 0

end WExpr
end RpmVerif
