import RpmVerif.Model.Basic
import RpmVerif.Model.Calendar
/-!
# Timestamp conversions (L8) — model of `/repo/src/rpm/timestamp.rs`

An *instant* is `secs + nanos / 10⁹` seconds after 1970-01-01T00:00:00Z with `nanos < 10⁹`, i.e.
`secs` is the floor (so `⟨-1, 999_999_999⟩` is one nanosecond *before* the epoch). This is exactly
how both `std::time::SystemTime` (Unix: `tv_sec : i64`, `tv_nsec < 10⁹`) and `chrono`
(`timestamp()` = floor seconds, `timestamp_subsec_nanos()` < 10⁹) store an instant.

The model mirrors the two `TryFrom` impls step by step:

```rust
fn try_from(st: SystemTime) -> Result<Timestamp, TimestampError> {
    st.duration_since(SystemTime::UNIX_EPOCH).map_err(|_| Underflow)
      .and_then(|t| t.as_secs().try_into().map_err(|_| Overflow)).map(Timestamp)
}
fn try_from(dt: chrono::DateTime<TZ>) -> Result<Timestamp, TimestampError> {
    let t = dt.with_timezone(&chrono::Utc).timestamp();
    if t < 0 { return Err(Underflow); }
    t.try_into().map_err(|_| Overflow).map(Timestamp)
}
pub fn now() -> Self { SystemTime::now().try_into().unwrap() }
```
Core Lean only.
-/
namespace RpmVerif.Timestamp

/-- an instant: `secs + nanos/10⁹` seconds after the Unix epoch, `secs` = floor -/
structure Instant where
  secs : Int
  nanos : Nat
  nanos_lt : nanos < 1000000000

/-- the instant as a whole number of nanoseconds since the epoch (exact, injective) -/
def Instant.totalNanos (t : Instant) : Int := t.secs * 1000000000 + t.nanos

/-- whole seconds since the epoch (floor) -/
def Instant.floor (t : Instant) : Int := t.secs

/-- order of instants on the time line (lexicographic on `(secs, nanos)`) -/
def Instant.le (a b : Instant) : Prop := a.secs < b.secs ∨ (a.secs = b.secs ∧ a.nanos ≤ b.nanos)
instance : LE Instant := ⟨Instant.le⟩
instance (a b : Instant) : Decidable (a ≤ b) := by
  show Decidable (a.secs < b.secs ∨ (a.secs = b.secs ∧ a.nanos ≤ b.nanos)); exact inferInstance

/-- what a conversion can end in: `Ok(Timestamp(n))`, `Err(Underflow)`, `Err(Overflow)`, or a panic -/
inductive Conv where
  | ok (n : Nat)
  | underflow
  | overflow
  | panic (site : String)
  deriving Repr, DecidableEq

def Conv.isPanic : Conv → Bool | .panic _ => true | _ => false
/-- the same result in the shared `Out` vocabulary -/
def Conv.toOut : Conv → Out Nat
  | .ok n => .ok n | .underflow => .err "underflow" | .overflow => .err "overflow" | .panic s => .panic s
/-- canonical wire text (what the harness prints) -/
def Conv.wire : Conv → String
  | .ok n => "ok " ++ toString n | .underflow => "underflow" | .overflow => "overflow" | .panic _ => "panic"

/-! ## `std::time` pieces -/

/-- a `Duration`: `secs : u64` whole seconds and `nanos < 10⁹` -/
structure Duration where
  secs : Nat
  nanos : Nat

/-- `st.duration_since(UNIX_EPOCH)`: `Ok(st - epoch)` iff `st ≥ epoch`, else `Err(SystemTimeError)`.
    With `secs` the floor, "at or after the epoch" is `0 ≤ secs` (any `nanos`). -/
def durationSinceEpoch (t : Instant) : Option Duration :=
  if 0 ≤ t.secs then some ⟨t.secs.toNat, t.nanos⟩ else none

/-- `Duration::as_secs` -/
def Duration.asSecs (d : Duration) : Nat := d.secs

/-- `u32::try_from(x : u64)` -/
def u32OfU64 (x : Nat) : Option Nat := if x < 4294967296 then some x else none

/-- `u32::try_from(x : i64)`: fails for negative values too -/
def u32OfI64 (x : Int) : Option Nat := if 0 ≤ x ∧ x < 4294967296 then some x.toNat else none

/-- `impl TryFrom<SystemTime> for Timestamp` -/
def fromSystemTime (st : Instant) : Conv :=
  match durationSinceEpoch st with
  | none => .underflow                      -- .map_err(|_| Underflow)
  | some d =>
    match u32OfU64 d.asSecs with            -- .and_then(|t| t.as_secs().try_into()…
    | none => .overflow                     --    .map_err(|_| Overflow))
    | some n => .ok n                       -- .map(Timestamp)

/-! ## `chrono` pieces -/

/-- a `chrono::DateTime<Tz>`: the UTC date-time plus the zone's offset (seconds east), which is how
    chrono stores it; the offset only affects the *local* rendering -/
structure DateTime where
  utc : Instant
  offset : Int

/-- `dt.with_timezone(&Utc)`: same instant, offset replaced -/
def DateTime.withTimezoneUtc (dt : DateTime) : DateTime := { dt with offset := 0 }

/-- `dt.timestamp()`: whole non-leap seconds since the epoch of the UTC date-time (floor; i64) -/
def DateTime.timestamp (dt : DateTime) : Int := dt.utc.secs

/-- `impl<TZ> TryFrom<chrono::DateTime<TZ>> for Timestamp` -/
def fromChrono (dt : DateTime) : Conv :=
  let t := dt.withTimezoneUtc.timestamp
  if t < 0 then .underflow
  else match u32OfI64 t with
    | none => .overflow
    | some n => .ok n

/-! ## the public surface: `Timestamp::try_from(x)` for either argument type -/
inductive Source where
  | sys (st : Instant)
  | chrono (dt : DateTime)

/-- the instant a source value denotes -/
def Source.instant : Source → Instant
  | .sys st => st
  | .chrono dt => dt.utc

def convert : Source → Conv
  | .sys st => fromSystemTime st
  | .chrono dt => fromChrono dt

/-! ## `Timestamp::now` — the one `unwrap` in the file; `clock` is what `SystemTime::now()` returns -/
def now (clock : Instant) : Conv :=
  match fromSystemTime clock with
  | .ok n => .ok n
  | .underflow => .panic "now-unwrap-underflow"
  | .overflow => .panic "now-unwrap-overflow"
  | .panic s => .panic s

/-! ## chrono values as chrono stores and builds them: leap-second readings, calendar fields, zones (AUDIT2 a23, b22)

`DateTime` above identifies a chrono value with an `Instant` (`nanos < 10⁹`). chrono itself keeps a sub-second field
`frac < 2·10⁹`: from 10⁹ on the value is a reading INSIDE a leap second, hanging on the second before it
(23:59:59 + 1.5 s is how 23:59:60.5 is stored). `ChronoDT` is that representation; the conversion below is the same Rust
code (`dt.with_timezone(&Utc).timestamp()`, sign test, `try_into`) applied to it: `frac` and the offset are carried along
and never looked at. -/

/-- a `chrono::DateTime<Tz>` as stored: the UTC date-time as whole non-leap seconds since the epoch (`timestamp()`), the
sub-second field (`timestamp_subsec_nanos()`, up to 2·10⁹ − 1), and the zone's offset in seconds east of UTC -/
structure ChronoDT where
  secs : Int
  frac : Nat
  offset : Int
  frac_lt : frac < 2000000000

/-- a reading inside a leap second -/
def ChronoDT.isLeap (d : ChronoDT) : Bool := decide (1000000000 ≤ d.frac)

/-- `dt.with_timezone(&Utc)`: the same stored date-time, offset replaced by 0 -/
def ChronoDT.withTimezoneUtc (d : ChronoDT) : ChronoDT := { d with offset := 0 }
/-- `dt.timestamp()`: the stored whole seconds; a leap reading answers the second it hangs on -/
def ChronoDT.timestamp (d : ChronoDT) : Int := d.secs

/-- `impl<TZ> TryFrom<chrono::DateTime<TZ>> for Timestamp`, on chrono's own representation -/
def fromChronoDT (d : ChronoDT) : Conv :=
  let t := d.withTimezoneUtc.timestamp
  if t < 0 then .underflow
  else match u32OfI64 t with
    | none => .overflow
    | some n => .ok n

/-- a non-leap value is a `DateTime` of an `Instant` -/
def ChronoDT.toDateTime (d : ChronoDT) (h : d.frac < 1000000000) : DateTime := ⟨⟨d.secs, d.frac, h⟩, d.offset⟩

/-- order of readings as chrono orders `DateTime`s: by the stored (seconds, sub-second field) — a leap reading lies after
every ordinary reading of its second and before the next second -/
def ChronoDT.le (a b : ChronoDT) : Prop := a.secs < b.secs ∨ (a.secs = b.secs ∧ a.frac ≤ b.frac)

/-- `NaiveDate::from_ymd_opt(y, m, d)?.and_hms_nano_opt(h, mi, s, frac)?` read on the wall clock of a zone `offset` seconds
east of UTC (`and_local_timezone(FixedOffset)`, an RFC 3339 text with that offset, `Utc.with_ymd_and_hms` for offset 0):
the stored UTC seconds are the wall-clock seconds minus the offset. (`h` is part of `c.valid`.) -/
def ofCivil (c : Calendar.Civil) (offset : Int) (h : c.frac < 2000000000) : ChronoDT :=
  ⟨c.localSecs - offset, c.frac, offset, h⟩

end RpmVerif.Timestamp
